#!/usr/bin/env python3
"""DEVELOPMENT TOOL: confirm a seeded change produced by a sub-agent and run the checks on it.

usage: tools/seed_eval.py <worktree> <seed-name> <property>
  1. in the worktree: suite passes with the change, demo FAILs with it and PASSes without it
  2. apply the patch to /repo, run every check (quick), undo (git checkout -- .)
  3. store patch.diff, demo.py, NOTES.md and meta.json under /verif/seeded/<seed-name>/
"""
import json, os, re, shutil, subprocess, sys

wt, name, prop = sys.argv[1], sys.argv[2], sys.argv[3]
seed = os.path.join(wt, "_seed")
env = dict(os.environ, PYTHONPATH=os.path.join(wt, "src"))


def sh(cmd, cwd=None, timeout=1200, env=env):
    r = subprocess.run(cmd, shell=True, cwd=cwd, env=env, capture_output=True, text=True, timeout=timeout)
    return r.returncode, (r.stdout + r.stderr)


meta = {"breaks_property": prop, "worktree": wt}
# regenerate the patch from the worktree state (source files only)
rc, diff = sh(f"git -C {wt} diff HEAD -- src")
open(os.path.join(seed, "patch.diff"), "w").write(diff)
meta["files_changed"] = sorted(set(re.findall(r"^\+\+\+ b/(.*)$", diff, re.M)))
rc, out = sh(f"timeout 900 /venv/bin/python -m pytest -q -p no:cacheprovider -n 8 2>&1 | tail -1", cwd=wt)
meta["suite_with_change"] = out.strip()
rc1, out1 = sh(f"timeout 300 /venv/bin/python _seed/demo.py", cwd=wt)
meta["demo_with_change"] = {"exit": rc1, "tail": out1.strip()[-300:]}
# (git stash is shared between the worktrees of one repository: reverse-apply the patch instead)
rcr, outr = sh(f"git -C {wt} apply -R {seed}/patch.diff")
assert rcr == 0, outr
try:
    rc0, out0 = sh(f"timeout 300 /venv/bin/python _seed/demo.py", cwd=wt)
finally:
    rca, outa = sh(f"git -C {wt} apply {seed}/patch.diff")
    assert rca == 0, outa
meta["demo_without_change"] = {"exit": rc0, "tail": out0.strip()[-300:]}
meta["confirmed"] = bool(re.search(r"\b\d+ passed", meta["suite_with_change"]) and not re.search(r"\b\d+ (failed|error)", meta["suite_with_change"]) and rc1 != 0 and rc0 == 0)
# run the checks against it
rc, out = sh("git -C /repo status --porcelain")
assert out.strip() == "", "/repo is not clean: " + out
rc, out = sh(f"git -C /repo apply {seed}/patch.diff")
assert rc == 0, out
try:
    res = {}
    for i in range(1, 21):
        p = f"C{i:02d}"
        rc, out = sh(f"./check {p} --tier quick", cwd="/verif", env=os.environ)
        viol = [l for l in out.splitlines() if l.startswith("VIOLATION") or l.startswith("ANALYSIS-ERROR")]
        msgs = [l for l in out.splitlines() if re.match(r"^C\d\d-R", l)]
        if rc != 0:
            res[p] = {"exit": rc, "reports": msgs[:6]}
    meta["checks_reporting"] = res
finally:
    sh("git -C /repo checkout -- .")
    rc, out = sh("git -C /repo status --porcelain")
    assert out.strip() == "", out
dst = os.path.join("/verif/seeded", name)
os.makedirs(dst, exist_ok=True)
for f in ("patch.diff", "demo.py", "NOTES.md"):
    if os.path.exists(os.path.join(seed, f)):
        shutil.copy(os.path.join(seed, f), os.path.join(dst, f))
meta["detected_by"] = sorted(res)
json.dump(meta, open(os.path.join(dst, "meta.json"), "w"), indent=1)
print(json.dumps({k: meta[k] for k in ("confirmed", "suite_with_change", "detected_by", "files_changed")}, indent=1))
for p, r in res.items():
    for m in r["reports"][:3]:
        print("  ", p, m[:230])
