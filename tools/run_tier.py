#!/usr/bin/env python3
"""Run every property check of one tier in parallel and print one line per property plus anything unusual."""
import subprocess
import sys
from concurrent.futures import ThreadPoolExecutor

tier = sys.argv[1] if len(sys.argv) > 1 else "quick"
props = [f"C{i:02d}" for i in range(1, 21)]


def run(p):
    r = subprocess.run(["./check", p, "--tier", tier], cwd="/verif", capture_output=True, text=True)
    return p, r.returncode, r.stdout + r.stderr


with ThreadPoolExecutor(max_workers=16) as ex:
    results = list(ex.map(run, props))
bad = 0
for p, rc, out in results:
    last = [l for l in out.splitlines() if l.startswith(p + " [")]
    print(p, f"exit={rc}", last[-1] if last else "")
    for l in out.splitlines():
        if any(k in l for k in ("VIOLATION", "ANALYSIS-ERROR", "KNOWN-FINDING", "MISSED", "skipped", "analysis-error", "NOISY", "not silent", "FIRED")):
            print("   ", l[:300])
    bad += rc != 0
sys.exit(1 if bad else 0)
