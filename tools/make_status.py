#!/usr/bin/env python3
"""DEVELOPMENT TOOL: regenerate the machine-derived tables of DESIGN.md §10 (between the
GENERATED markers): per-property rule tables from an in-process quick run of every property, the
fixed/open defect lists from known_findings.json, the seeded-change table from seeded/*/meta.json and
the self-test catalogue counts.  Nothing of microjs is executed."""
import collections
import importlib
import json
import os
import re
import sys

HERE = os.path.dirname(os.path.dirname(os.path.abspath(__file__)))
sys.path.insert(0, HERE)

from sa.main import Ctx, PROPS  # noqa: E402
from sa.report import Report, load_known  # noqa: E402


def esc(s):
    return str(s).replace("|", "\\|").replace("\n", " ")


def main():
    out = []
    ctx = Ctx("quick")
    titles = {}
    for l in open(os.path.join(HERE, "properties.jsonl")):
        p = json.loads(l)
        titles[p["id"]] = p["title"]
    known = load_known()
    out.append("### 10.1 Rules per property (this tree)\n")
    out.append("`held/examined` counts obligations on the current /repo tree; `known` are obligations reported and matched by an open entry of `known_findings.json`.\n")
    tot_r = tot_o = 0
    for pid in PROPS:
        rep = Report(pid, "quick")
        importlib.import_module(f"sa.props.{pid.lower()}").run(ctx, rep)
        kn = {f"{e['rule']}|{e['key']}" for e in known if e.get("status") != "fixed" and e.get("property") == pid}
        out.append(f"\n**{pid} — {titles[pid]}**\n")
        out.append("| rule | decides (structural clause) | held/examined | known | floor |")
        out.append("|---|---|---|---|---|")
        for rid, r in rep.rules.items():
            k = sum(1 for f in rep.findings if f.rule == rid and f.ident() in kn)
            out.append(f"| {rid} | {esc(r['text'])} | {r['discharged']}/{r['instances']} | {k} | {r['floor']} |")
            tot_r += 1
            tot_o += r["instances"]
        if rep.undecided:
            out.append("\nNot decided for " + pid + ": " + "; ".join(rep.undecided) + ".")
    out.append(f"\nTotals: {tot_r} rules, {tot_o} obligations examined per run.\n")

    # fixes
    out.append("\n### 10.2 Genuine defects repaired in /repo (`fix:` commits)\n")
    out.append("| property | commit | what failed |")
    out.append("|---|---|---|")
    for e in known:
        if e.get("status") == "fixed":
            w = re.sub(r"^fixed: property=\S+ \S+ ", "", e["what"])
            out.append(f"| {e['property']} | {e['commit']} | {esc(w)} |")

    # open
    out.append("\n### 10.3 Open known findings (genuine defects recorded, not repaired)\n")
    out.append("Grouped by defect; every entry of `known_findings.json` carries the witness script, the observed and the expected outcome (re-run by `tools/make_known.py`, never by a check).\n")
    out.append("| defect | entries | properties | what fails | witness |")
    out.append("|---|---|---|---|---|")
    byd = collections.OrderedDict()
    for e in known:
        if e.get("status") == "fixed":
            continue
        d = e.get("defect", "?")
        d = re.sub(r"^(D29-L[AB]).*", r"\1", d)
        byd.setdefault(d, []).append(e)
    for d, es in byd.items():
        props = ",".join(sorted({e["property"] for e in es}))
        w = es[0].get("witness", {})
        ws = w.get("script", "") if isinstance(w, dict) else str(w)
        what = es[0]["what"]
        if d.startswith("D29-"):
            what = ("the lookahead" if d.endswith("LA") else "the lookbehind") + " sub-matcher has no branch for most opcodes and skips them as if they matched (one entry per opcode)"
        if d == "D37":
            what = "host exception escapes eval from an unguarded host conversion (int(NaN), chr(out of range), round(inf) …), one entry per call site"
        out.append(f"| {d} | {len(es)} | {props} | {esc(what)[:170]} | `{esc(ws)[:90]}` |")

    # seeds
    out.append("\n### 10.4 Seeded changes and the checks that catch them\n")
    out.append("Each change was written by an independent sub-agent that saw only the property text and a scratch worktree; it compiles, passes the 487 tests and comes with a demonstration that fails with it and passes without it (re-confirmed by `tools/seed_eval.py`). `tools/seed_matrix.py` applies each patch to a scratch copy and runs all twenty checks.\n")
    out.append("| seed | target | caught by (rule: construct) | other checks reporting |")
    out.append("|---|---|---|---|")
    sd = os.path.join(HERE, "seeded")
    for name in sorted(os.listdir(sd)):
        mp = os.path.join(sd, name, "meta.json")
        if not os.path.exists(mp):
            continue
        m = json.load(open(mp))
        tgt = m.get("breaks_property")
        res = m.get("checks_reporting", {})
        mine = res.get(tgt, {}).get("reports", []) if isinstance(res.get(tgt), dict) else []
        caught = "; ".join(sorted({r.split(":")[0].split(" ")[0] + ": " + " ".join(r.split(" ")[1:2])[:70] for r in mine})) or "**not caught** (value-level change, see 10.5)"
        if m.get("obsolete"):
            caught = "*obsolete*: " + str(m["obsolete"])[:160]
        others = ", ".join(sorted(k for k in res if k != tgt and not k.startswith("_")))
        out.append(f"| {name} | {tgt} | {esc(caught)[:260]} | {others or '—'} |")

    # selftest
    from selftest import catalogue as C

    nm = sum(1 for m in C.MUTANTS if not m.get("patch"))
    ns = sum(1 for m in C.MUTANTS if m.get("patch"))
    gaps = [m["id"] for m in C.MUTANTS if not m["expect"]]
    out.append(f"\n### 10.6 Self-test catalogue\n\n{nm} hand-written mutants + {ns} seeded patches (each must be reported by the named rule and construct), {len(C.TWINS)} twins (behaviour-preserving edits that must stay silent). Entries without an expectation (documented gaps): {', '.join(gaps) or 'none'}.\n")
    text = "\n".join(out) + "\n"
    p = os.path.join(HERE, "DESIGN.md")
    s = open(p).read()
    b, e = "<!-- BEGIN GENERATED STATUS -->", "<!-- END GENERATED STATUS -->"
    if b in s and e in s:
        s = s[: s.index(b) + len(b)] + "\n" + text + s[s.index(e):]
        open(p, "w").write(s)
        print("DESIGN.md updated:", len(text.splitlines()), "generated lines")
    else:
        print(text)


if __name__ == "__main__":
    main()
