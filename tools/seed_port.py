#!/usr/bin/env python3
"""DEVELOPMENT TOOL: re-port seeded patches that stopped applying after a /repo repair.

usage: tools/seed_port.py [--all | <seed-name> ...]      (default: every seed whose patch does not apply)
For each seed: scratch worktree of /repo HEAD under /tmp/wt/port-<seed>, `git apply --3way`; when that merges
without conflicts the patch is regenerated from the worktree, the demonstration is run with and without the
change and the test suite with it; only then is seeded/<seed>/patch.diff replaced.  With conflicts the
worktree is left in place for a manual resolution (then run with --finish <seed>)."""
import json
import os
import re
import subprocess
import sys

HERE = os.path.dirname(os.path.dirname(os.path.abspath(__file__)))
REPO = "/repo"


def sh(cmd, cwd=None, env=None, timeout=1500):
    r = subprocess.run(cmd, shell=True, cwd=cwd, env=env, capture_output=True, text=True, timeout=timeout)
    return r.returncode, r.stdout + r.stderr


def applies(seed):
    rc, _ = sh(f"git apply --check {HERE}/seeded/{seed}/patch.diff", cwd=REPO)
    return rc == 0


def validate_and_store(seed, wt):
    env = dict(os.environ, PYTHONPATH=os.path.join(wt, "src"))
    rc, diff = sh("git diff HEAD -- src", cwd=wt)
    demo = f"{HERE}/seeded/{seed}/demo.py"
    rc1, out1 = sh(f"timeout 600 /venv/bin/python {demo}", cwd=wt, env=env)
    rc_s, out_s = sh("timeout 900 /venv/bin/python -m pytest -q -p no:cacheprovider -n 8 2>&1 | tail -1", cwd=wt, env=env)
    # (git stash is shared between the worktrees of one repository: reverse-apply the patch instead)
    tmp = os.path.join(wt, "_port.diff")
    open(tmp, "w").write(diff)
    rcr, outr = sh(f"git apply -R {tmp}", cwd=wt)
    assert rcr == 0, outr
    try:
        rc0, out0 = sh(f"timeout 600 /venv/bin/python {demo}", cwd=wt, env=env)
    finally:
        rca, outa = sh(f"git apply {tmp}", cwd=wt)
        assert rca == 0, outa
        os.remove(tmp)
    ok = rc1 != 0 and rc0 == 0 and re.search(r"\b\d+ passed", out_s) and not re.search(r"\b\d+ (failed|error)", out_s)
    print(f"  {seed}: demo with change exit={rc1}, without exit={rc0}, suite: {out_s.strip()}")
    if ok:
        open(f"{HERE}/seeded/{seed}/patch.diff", "w").write(diff)
        sh(f"git -C {REPO} worktree remove --force {wt}")
        print(f"  {seed}: patch.diff replaced")
    else:
        print(f"  {seed}: NOT stored (worktree kept at {wt})")
    return bool(ok)


def revalidate(seeds):
    """Every seed that applies: does its demonstration still fail with the change and pass without it?"""
    from concurrent.futures import ThreadPoolExecutor

    def one(seed):
        if not applies(seed):
            return seed, "does not apply"
        wt = f"/tmp/wt/reval-{seed}"
        sh(f"git -C {REPO} worktree remove --force {wt}")
        sh(f"git -C {REPO} worktree add -q --detach {wt} HEAD")
        env = dict(os.environ, PYTHONPATH=os.path.join(wt, "src"))
        demo = f"{HERE}/seeded/{seed}/demo.py"
        rc0, _ = sh(f"timeout 600 /venv/bin/python {demo}", cwd=wt, env=env)
        sh(f"git apply {HERE}/seeded/{seed}/patch.diff", cwd=wt)
        rc1, _ = sh(f"timeout 600 /venv/bin/python {demo}", cwd=wt, env=env)
        sh(f"git -C {REPO} worktree remove --force {wt}")
        return seed, ("ok" if rc1 != 0 and rc0 == 0 else f"INVALID: demo with change exit={rc1}, without exit={rc0}")

    with ThreadPoolExecutor(8) as ex:
        for seed, res in ex.map(one, seeds):
            print(f"  {seed}: {res}")


def main():
    args = sys.argv[1:]
    if args and args[0] == "--revalidate":
        revalidate(sorted(d for d in os.listdir(f"{HERE}/seeded") if os.path.exists(f"{HERE}/seeded/{d}/patch.diff")))
        return
    if args and args[0] == "--finish":
        for seed in args[1:]:
            validate_and_store(seed, f"/tmp/wt/port-{seed}")
        return
    seeds = sorted(d for d in os.listdir(f"{HERE}/seeded") if os.path.exists(f"{HERE}/seeded/{d}/patch.diff"))
    if args and args[0] != "--all":
        seeds = [s for s in seeds if s in args]
    for seed in seeds:
        if applies(seed) and not (args and args[0] != "--all"):
            continue
        meta = os.path.join(HERE, "seeded", seed, "meta.json")
        if os.path.exists(meta) and json.load(open(meta)).get("obsolete") and seed not in args:
            print(f"  {seed}: obsolete (not ported)")
            continue
        wt = f"/tmp/wt/port-{seed}"
        sh(f"git -C {REPO} worktree remove --force {wt}")
        sh(f"git -C {REPO} worktree add -q --detach {wt} HEAD")
        rc, out = sh(f"git apply --3way {HERE}/seeded/{seed}/patch.diff", cwd=wt)
        rc2, conf = sh("git diff --name-only --diff-filter=U", cwd=wt)
        sh("git reset -q", cwd=wt)
        rc3, marks = sh("grep -rlE '^(<<<<<<<|>>>>>>>)' src || true", cwd=wt)
        if marks.strip():
            print(f"  {seed}: conflicts in {marks.split()} — resolve in {wt}, then: tools/seed_port.py --finish {seed}")
            continue
        validate_and_store(seed, wt)


if __name__ == "__main__":
    main()
