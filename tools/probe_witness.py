#!/usr/bin/env python3
"""DEVELOPMENT TOOL — not part of any registered check.

Finds a concrete failing script for each site that the static checks report, by running
candidate scripts against the real engine and matching the traceback line of the host
exception with the reported site.  Used once by the author to confirm that a reported
construct is a genuine defect before it is written into known_findings.json.

usage: /venv/bin/python tools/probe_witness.py <violations-dir> <PROP> > witnesses.json
"""
import json, os, sys, traceback, itertools, signal
sys.path.insert(0, "/repo/src")
from microjs import Context
from microjs.errors import JSError

X = ["NaN", "Infinity", "-Infinity", "-1", "1e400", "1e21", "9007199254740992", "1e308", "0.5", "-0.5", "'abc'", "({})", "undefined", "null", "true", "5e-324", "1e-320", "300", "1114112", "1e40", "-1e40", "1000", "-1000", "0", "-2", "2.5", "1e-7", "123.456", "-8"]
strm = ["charAt","charCodeAt","indexOf","lastIndexOf","substring","slice","split","repeat","startsWith","endsWith","includes","concat","replace","match","search","trim"]
arrm = ["push","slice","splice","indexOf","lastIndexOf","includes","join","concat","fill","at","map","sort"]
numm = ["toFixed","toString","toExponential","toPrecision"]
mathm = ["abs","floor","ceil","round","trunc","min","max","pow","sqrt","sin","cos","tan","asin","acos","atan","atan2","log","exp","sign","imul","fround","clz32","hypot","cbrt","log2","log10","expm1","log1p"]
tarr = ["Int8Array","Uint8Array","Uint8ClampedArray","Int16Array","Uint16Array","Int32Array","Uint32Array","Float32Array","Float64Array"]
cands = []
for x in X:
    for m in strm:
        cands += [f"'abcabc'.{m}({x})", f"'abcabc'.{m}('b', {x})", f"'abcabc'.{m}(1, {x})", f"'abcabc'.{m}({x}, {x})"]
    for m in arrm:
        cands += [f"[1,2,3].{m}({x})", f"[1,2,3].{m}(1, {x})", f"[1,2,3].{m}({x}, {x})"]
    for m in numm:
        cands += [f"(5.5).{m}({x})", f"({x}).{m}(2)", f"({x}).{m}()", f"({x}).{m}(0)", f"({x}).{m}(1)", f"({x}).{m}(16)"]
    for m in mathm:
        cands += [f"Math.{m}({x})", f"Math.{m}(2, {x})", f"Math.{m}({x}, 0.3333333333333333)", f"Math.{m}({x}, 1000)"]
    for t in tarr:
        cands += [f"new {t}({x})", f"new {t}([{x}])", f"new {t}(new ArrayBuffer(8), {x})", f"new {t}(new ArrayBuffer(8), 0, {x})", f"var t=new {t}(4); t[0]={x}; t[0]", f"new {t}(4).subarray({x})", f"new {t}(4).subarray(0,{x})", f"new {t}(4).set([1],{x})",
                  f"var b=new ArrayBuffer(16); var t=new {t}(b); t[0]={x}; t[0]"]
    cands += [f"parseInt('12', {x})", f"Number.parseInt('12', {x})", f"String.fromCharCode({x})", f"new Array({x})", f"new ArrayBuffer({x})", f"var a=[1,2]; a.length={x}; a", f"{x} ** {x}", f"0 ** {x}", f"2.5 ** {x}", f"{x} ** 0.5", f"{x} ** 5000",
              f"[3,1,2].sort(function(a,b){{return {x}}})", f"var s=Object.create(Object.getPrototypeOf([])).sort; s.call([3,1,2], function(a,b){{return {x}}})",
              f"({{}}).hasOwnProperty({x})", f"[1].hasOwnProperty({x})", f"Object.prototype.hasOwnProperty.call([1,2], {x})", f"{x} % 0", f"{x} | 0", f"Math.imul({x},{x})"]
cands = list(dict.fromkeys(cands))

class TO(Exception): pass
def alarm(*a): raise TO()
signal.signal(signal.SIGALRM, alarm)
hits = {}
kinds = {}
for c in cands:
    ctx = Context(time_limit=1.0)
    signal.alarm(5)
    try:
        ctx.eval(c)
    except JSError:
        pass
    except TO:
        pass
    except BaseException as e:
        tb = traceback.extract_tb(e.__traceback__)
        for fr in tb:
            if "/microjs/" in fr.filename:
                rel = "src/microjs/" + fr.filename.split("/microjs/")[1]
                hits.setdefault(f"{rel}:{fr.lineno}", (c, type(e).__name__ + ": " + str(e)[:80]))
    finally:
        signal.alarm(0)
vd, prop = sys.argv[1], sys.argv[2]
out = {}
missing = []
for fn in sorted(os.listdir(vd)):
    if not fn.startswith(prop + "-"):
        continue
    rec = json.load(open(os.path.join(vd, fn)))
    loc = rec["location"]
    if loc in hits:
        out[rec["rule"] + "|" + rec["key"]] = {"script": hits[loc][0], "observed": hits[loc][1], "location": loc}
    else:
        missing.append((rec["rule"], rec["key"], loc))
json.dump({"witnesses": out, "missing": missing}, sys.stdout, indent=1)
print(f"\n{len(out)} witnessed, {len(missing)} missing, {len(cands)} candidates", file=sys.stderr)
