#!/usr/bin/env python3
"""DEVELOPMENT TOOL — not part of any registered check; never run by a check.

Rebuilds /verif/known_findings.json from (a) the findings the static checks report on the
current tree and (b) a concrete failing input for each of them, which this tool RUNS against
the real engine to confirm that the reported construct is a genuine defect.  A finding for
which no witness reproduces is printed as UNCONFIRMED and is NOT written to the file (so the
check keeps reporting it as a VIOLATION until it is triaged: rule fixed, or witness found).

usage: /venv/bin/python tools/make_known.py [--dry]
"""
import importlib, json, os, re, signal, sys, traceback

HERE = os.path.dirname(os.path.dirname(os.path.abspath(__file__)))
sys.path.insert(0, HERE)
sys.path.insert(0, "/repo/src")
from sa.main import Ctx, PROPS
from sa.report import Report
from tools import witness_table as WT

from microjs import Context  # noqa: E402
from microjs.errors import JSError  # noqa: E402

FIXED = [
    ("C01", "f43d4ff", "eval('while(true){}') under time_limit raised JSError('EvalError: ...') that script try/catch could swallow; nested interpreters (eval, Function, Context._call_function) restarted or lacked the clock"),
    ("C02", "8e19afb", "break out of for-in/for-of/switch leaked the iterator/discriminant: `for(...5000x){for(k in o){break}}` hit MemoryLimitError"),
    ("C05", "8e19afb", "break targets were patched after the POP of the loop's iterator/discriminant (operand depth inconsistent at the join)"),
    ("C02", "5436677", "return from inside for-in left the iterator under the return value; a throw in mid-expression left pending operands after the catch; return out of try left a stale handler (`function f(){try{return 1}catch(e){}} f(); throw 2` -> host ValueError)"),
    ("C07", "5436677", "throw did not restore the operand depth of its try; return did not drop the handlers of the frame it left"),
    ("C03", "5436677", "`function f(){for(k in o){return 5}} g(f(),1)` called the leaked ForInIterator as a function"),
    ("C05", "aaef5d2", "closures in if/while/do/for tests, for initialisers, for-in objects and switch discriminants/cases did not make their variables cells: `function f(){var x=1; if((function(){x=2;return true})()){} return x}` returned 1"),
    ("C04", "8a900d1", "`[1].map(function(){return typeof zzz})` raised a host TypeError: the callback run loop did not decode TYPEOF_NAME's operand"),
    ("C14", "8a900d1", "decoder of the callback run loop disagreed with the encoder on TYPEOF_NAME"),
    ("C14", "fa4c630", "operands above 255 raised host ValueError from bytes(); jump targets above 65535 wrapped silently"),
    ("C04", "2b31166", "`break;` outside a loop raised Python's builtin SyntaxError"),
    ("C13", "8f183e7", "`var a = 1; /* unterminated` and `var a = /abc` were accepted"),
    ("C13", "3ef595d", "`1 = 2`, `x++ = 2`, `x + y = 3` were accepted and compiled to nothing; `1++`, `for (1 in o)` reached NotImplementedError"),
    ("C04", "3ef595d", "`1++` and `for (1 in {}) {}` raised host NotImplementedError"),
    ("C02", "3ef595d", "an assignment with a non-reference target compiled to nothing, leaving the operand stack one value short"),
    ("C07", "71a9920", "a return in a function defined inside try...finally inlined the outer finally (ran once per inner call)"),
    ("C05", "71a9920", "try_stack was shared across function boundaries"),
    ("C07", "42f8805", "errors thrown inside functions had lineNumber None (no per-function source map)"),
    ("C05", "a40f8ef", "`switch(2){default: r='d'; break; case 2: r='two'}` took the default: tests after a default clause were dead code"),
    ("C08", "626f07c", "`'x' in Object.create({x:1})` was false"),
    ("C02", "5a4e73f", "a cyclic prototype chain (setPrototypeOf) made every lookup recurse to RecursionError"),
    ("C06", "f9d2cce", "`NaN >= 1` and `NaN > 1` were true"),
    ("C06", "a819003", "`-5 % 3` was 1 (host floored modulo)"),
    ("C07", "cfcee1e", "toFixed/toString/toExponential/toPrecision/repeat threw ReferenceError instead of RangeError"),
    ("C16", "cfcee1e", "'a'.repeat(-1) threw ReferenceError"),
    ("C18", "cfcee1e", "(1).toFixed(101) threw ReferenceError"),
    ("C20", "3ce9469", "`var r=/a/y; r.test('aa'); r.lastIndex` was 0: test() ignored the sticky flag when updating lastIndex"),
    ("C17", "c9cb0c9", "`a.subarray(1)[0]` read a[0]: the view dropped its byte offset"),
    ("C03", "d7809fd", "`new Error('x').lineNumber === undefined` was false (property held Python None); raw None leaked from built-in constructors, host getters and host valueOf/toString"),
    ("C11", "d7809fd", "host None crossed the native boundary un-normalised at _new_object/_invoke_getter/_to_primitive"),
    ("C15", "36ec98f", "`new parseInt()` reported a message containing a host object address"),
    ("C06", "382816e", "`o.x += 2` assigned 2: member targets ignored the compound operator"),
    ("C07", "3b999da", "`try { eval('1+') } catch (e) {}` (also new Function('1+')) aborted the evaluation: a SyntaxError raised while running was not converted into a script exception"),
    ("C19", "3b999da", "`try { JSON.parse('{') } catch (e) {}` raised JSSyntaxError out of eval: script code could not catch it"),
    ("C10", "620e81d", "`new RegExp('(')`, `/(/` and 'a'.match('(') raised the regex engine's private RegExpError out of eval; `/(a|b)*c/.test('ab'.repeat(6000))` raised RegexStackOverflow"),
    ("C04", "620e81d", "RegExpError and RegexStackOverflow (host exception classes) escaped from Context.eval"),
    ("C10", "930c570", "`/(?=(a|a)*b)/.test('a'.repeat(40))` ran without bound: the lookahead and lookbehind sub-matchers had no step budget"),
    ("C07", "4d3e914", "`try{[1,2,3].forEach(function(x){if(x==2)throw 'E'})}catch(e){}`: the catch saw undefined and forEach kept iterating (a throw unwound the call stack under a running native); `id.call(null,x)` inside map ran the rest of the program inside the native"),
    ("C05", "4d3e914", "same defect: control flow after a throw crossing a native callback, and after Function.prototype.call/apply, continued in the wrong place"),
    ("C08", "4d3e914", "same defect: call/apply re-entered the full run loop"),
    ("C09", "c84fb53", "`/\\d/.test('\u0663')`, `/\\w/.test('\u00e9')`, `/\\s/.test('\\x1c')` were true: the matcher used str.isdigit/isalnum/isspace"),
    ("C19", "6825bf7", "JSON.stringify escaped non-ASCII text, printed NaN/Infinity and host float spellings, serialised functions as null and undefined as 'null'; JSON.parse accepted NaN"),
    ("C02", "6825bf7", "`var a=[]; a.push(a); JSON.stringify(a)` ended in RecursionError"),
    ("C02", "bca19a8", "`var o={}; for(var i=0;i<3000;i++){o=Object.create(o)} o.zzz` ended in RecursionError: property lookup recursed per prototype link"),
    ("C02", "bf51a07", "Context.set('x', l) with l=[1]; l.append(l), and eval('var a=[1]; a.push(a); a'), ended in RecursionError"),
    ("C11", "bf51a07", "cyclic values crossing the Python/JavaScript boundary overflowed the host stack instead of raising a JSError"),
    ("C03", "5bb4379", "`new Int8Array(4).buffer` was the Python None"),
    ("C11", "5bb4379", "`new Int8Array(4).buffer` was the Python None"),
    ("C06", "f49e8e4", "`0 ** -1` raised ZeroDivisionError, `(-8) ** (1/3)` was complex, `10 ** 400` an exact big integer"),
    ("C04", "e31721c", "`'abc'.charAt(NaN)`, `[1,2].slice(0, Infinity)`, `(1.5).toFixed(NaN)` and 35 more index/count/digit arguments raised ValueError/OverflowError out of eval"),
    ("C16", "e31721c", "string methods: int(NaN)/int(Infinity) escapes (charAt, indexOf, slice, substring, split, repeat, startsWith, endsWith, includes ...)"),
    ("C17", "e31721c", "array and typed-array methods: int(NaN)/int(Infinity) escapes (splice, slice, indexOf, lastIndexOf, includes, subarray, set); `a.length = -1` dropped the last element; sort treated a comparator result of 0.5 as equal"),
    ("C18", "e31721c", "number methods: toFixed/toString/toExponential/toPrecision with NaN, Infinity or undefined arguments, and subnormal receivers (ZeroDivisionError)"),
    ("C04", "9a4f555", "`new Array(NaN)`, `new Int8Array(-1)`, `Math.floor(Infinity)`, `Math.sin(Infinity)`, `Math.exp(1000)`, `parseInt('ff', NaN)`, `String.fromCharCode(-1)` raised host exceptions out of eval"),
    ("C17", "9a4f555", "Array/typed array/ArrayBuffer constructors with NaN, negative, fractional or infinite lengths and offsets"),
    ("C18", "9a4f555", "Math functions of NaN/Infinity, Math.imul/clz32 of NaN, parseInt radix handling"),
    ("C10", "822e975", "`new RegExp('a{99999999}')` compiled a hundred-million-instruction program and `(?:){999999999}` looped a billion times, with no bound and no deadline poll"),
    ("C17", "79da313", "`var a=[1,2]; a[5]=1` stored a string property '5' instead of throwing: out-of-bound writes are errors in the documented stricter mode"),
    ("C08", "6efef46", "`function F(){}; F.prototype={y:2}; new F().y` was undefined and `F.z=3; F.z` too: property writes on functions were dropped"),
    ("C08", "010a6d1", "`({})+1`, `var t=({}).toString; t()` raised a Python TypeError out of eval; this-taking natives used as callbacks, getters, setters or comparators received the wrong this"),
    ("C04", "010a6d1", "`({})+1` raised TypeError: JSBoundMethod.__call__() missing 1 required positional argument out of eval"),
    ("C18", "5130b9b", "`String(1e-7)` was '1e-07' and `Number('1_0')` was 10: number printing used repr() and parsing used int()/float() without the StringNumericLiteral grammar"),
    ("C05", "a2cdb8d", "closures created in for-in/for-of loops or catch clauses saw undefined or stale values; `for (k in o)` in a nested function assigned a global; typeof read a stale slot"),
    ("C05", "352e87d", "labelled break/continue across for-in, for-of or switch leaked an operand per execution; `continue` inside switch; `continue label` jumped to offset 0"),
    ("C02", "352e87d", "the same leaks made bounded loops grow the operand stack until MemoryLimitError; break/continue out of try left handler records behind"),
    ("C07", "352e87d", "break/continue out of a try block left its handler registered (a later throw landed in the stale catch); break ran the finally of a try that encloses the loop; a throw from a catch clause skipped finally"),
    ("C04", "352e87d", "`function f(){ try { return 1 } finally { return 2 } }` made the compiler recurse until RecursionError escaped eval"),
    ("C02", "850fde3", "`for(var i=0;i<3000;i++){ try { throw 1 } finally { continue } }` grew the operand stack by one slot per iteration until MemoryLimitError: the exception waiting to be rethrown was abandoned on the stack (found by obligation O13)"),
    ("C09", "7133da3", "`/(?=\\d)x/.test('ax')` was true and `(?=(a*)*b)` spun until the backtrack stack overflowed: the lookahead and lookbehind sub-matchers skipped every opcode they did not know (54 findings, one per opcode and sub-matcher)"),
    ("C10", "7133da3", "the lookaround sub-matchers ignored the zero-advance guards of * and +"),
    ("C13", "40ef38e", "`var a={b:1}; ((a).b)` was a syntax error: after an inner ')' the parser did not continue with member access, calls or ++/--"),
    ("C12", "35564e0", "a RegExp created by one eval and used by a later eval on the same context was judged against the first eval's clock: spurious TimeLimitError"),
    ("C02", "094d6a2", "`[1].map(function g(x){return [1].map(g)})` and `function f(){ return f.call(null) } f()` ended in a Python RecursionError instead of MemoryLimitError: script code nested through natives was not counted against any budget"),
    ("C04", "5541b57", "`a.reduce(function(acc,x){a.pop();return acc+x})` (and reduceRight) let a raw IndexError escape: the loop bound was computed before the callbacks ran"),
    ("C02", "3b8c2ec", "`for(i<200000){ try { for (k in o) { return k } } finally { continue } }` hit MemoryLimitError: the return kept the for-in iterator on the stack and the continue in the finally block dropped only the return value"),
    ("C08", "46bea00", "`f.bind({x:1},'a').bind({x:2},'b')('c')` ran f with this = {x:2} and arguments ('b','c'): bind wrapped a bound function without taking over its this/arguments and the call path unwraps one level"),
    ("C02", "5899f59", "`var f=Math.abs; for(i<5000) f=f.bind(null); f(1)` ended in a Python RecursionError: each bind of a host function nested one more Python closure"),
    ("C02", "8c4e172", "`var g=Math.abs; for(i<5000) g=g.call; g()` (same with apply, and with a script function) ended in a Python RecursionError: stacked call/apply wrappers called their captured function outside the host-depth budget"),
    ("C10", "bed597f", "`/a/i.test('\u00df')` and `new RegExp('\\c\u00df')` raised a Python TypeError: ord() of an upper-cased character whose mapping is two characters"),
    ("C04", "69320de", "`parseInt('1\u0130', 36)` raised a Python TypeError: ord() of the lower-cased U+0130 (two code points)"),
    ("C20", "dc5d38a", "`r=/a/g; r.lastIndex=1.5; r.test('aaa')` raised a Python TypeError, a negative lastIndex indexed from the end, and a non-global regex had a stored fraction/string replaced by an integer: lastIndex went to the matcher unconverted and was written back unconditionally"),
    ("C07", "60b29da", "`try { null.x } catch (e) { e instanceof Error }` was false (also for ReferenceError, RangeError ...): the derived error prototypes had no parent; errors had no toString"),
    ("C07", "a3da203", "`throw new RangeError('out of range')` reached Python as JSError('Error: out of range'): the uncaught object's name was dropped"),
    ("C15", "cceea8f", "a function with 300 variables was refused with `operand 286 of STORE_LOCAL exceeds 255` under PYTHONHASHSEED=1 and `operand 265 ...` under 2: slot numbers followed set iteration order and were printed in the message"),
    ("C08", "cd3a517", "`[1,2,3]['01']`, `['+1']`, `[' 1 ']`, `['1_0']`, `['\u0661']` all read element 1, `a['01']=9` could not be read back and hasOwnProperty('01') disagreed with `in`: key-to-index conversion with int() without comparing the spelling"),
    ("C04", "0f614d1", "`1\u00b2` let a Python ValueError escape eval, `\u0663 + 1` was 4, `/a{\u0663}/` a counted quantifier, `parseFloat('\u0663.5')` 3.5: digits selected with str.isdigit() and parsed by int()/float()"),
    ("C18", "481c111", "`(2**60).toString()` printed 1152921504606846976 (ECMAScript: 1152921504606847000), `(1e21).toString()` 22 digits, `(1e-7).toString()` the host spelling 1e-07: a private decimal path built on str()/int()"),
    ("C16", "7bdc03d", "`'abc'.startsWith('c', -1)` was true, `'abc'.includes('a', -1)` false, `'abc'.lastIndexOf('a', -5)` -1, `'abc'.indexOf('', 10)` -1: script positions used as Python slice bounds while negative / unclamped"),
    ("C06", "17cfa3c", "`9007199254740992 + 1` was 9007199254740993, the literal 9007199254740993 differed from 9007199254740992, `(9007199254740992 + 1) % 2` was 1: whole numbers held as unbounded host ints"),
    ("C06", "06107d4", "`1 / (-5 % 5)` was Infinity: the integer remainder path negated an int zero"),
    ("C16", "23541d6", "`'\ufeffa'.trim().length` was 2 and `'\x1ca'.trim().length` 1, `parseFloat('\x1c1.5')` 1.5: str.strip() with the host's white-space set"),
    ("C17", "d7ced48", "`[NaN].includes(NaN)` was false: includes compared with strict equality instead of SameValueZero"),
    ("C18", "d20b976", "`1/Math.ceil(-0.5)`, `1/Math.trunc(-0.5)`, `1/Math.round(-0.2)`, `1/Math.sign(-0)`, `1/parseInt('-0')` were Infinity, `Math.max(1, NaN)` 1, `1/Math.max(-0, 0)` -Infinity, `Math.round(0.49999999999999994)` 1: host ints without -0, host min()/max(), floor(x + 0.5)"),
    ("C18", "d0c0de9", "`(0.5).toString(2)` was '0.5' and `(255.5).toString(16)` '255.5': the radix was ignored for numbers with a fraction (host str())"),
    ("C17", "be9193d", "`var a=new Uint16Array(1); a[0]=NaN` raised a Python ValueError, `a[0]=Infinity` an OverflowError, `new Float32Array(1)[0]=1e40` an OverflowError, and `a[0]='7'` stored 0: element conversion by int()/struct.pack on isinstance-narrowed values without ToNumber"),
    ("C20", "612acbc", "`var r=/a*/g; r.exec('b'); r.lastIndex` was 1 (ECMAScript: 0, the end of the empty match): exec/test stepped over an empty match themselves"),
    ("C20", "b4f512e", "`'abc'.split(/x*/)` was ['', 'a', 'b', 'c', ''], `'abc'.split(/b*/)` ['', 'a', '', 'c', ''], `''.split(/x*/)` two pieces: empty matches at the previous end and at the end of the string taken for separators"),
    ("C17", "e8d1609", "`a.set(a.subarray(0, 3), 1)` on [1,2,3,4] over one buffer gave 1,1,1,1 (ECMAScript: 1,1,2,3): source elements overwritten before they were read"),
    ("C06", "7f919c3", "`var a=7; a **= 2` was a SyntaxError: the exponentiation operator had no compound-assignment token"),
    ("C17", "92e1ae4", "`[[1,2],[3]].join(';')` was '[object Object];[object Object]' and `[1,[2,3]] + ''` '1,[object Object]': array elements and ToPrimitive of arrays did not go through join; join(undefined) joined with 'undefined'"),
    ("C06", "5025912", "`true === 1` and `false === 0` were true ([1].indexOf(true) was 0): bool is a subclass of int for the host"),
    ("C06", "73d2d71", "`var x='5'; var y=x++` left y the string '5' (ECMAScript: the number 5); `true++`/`null++` likewise kept the old value unconverted"),
    ("C18", "89a82de", "`Math.log2(0)`, `Math.log10(0)`, `Math.log1p(-1)` were NaN (ECMAScript: -Infinity); `1/Math.cbrt(-0)` was +Infinity"),
    ("C16", "94dce16", "`'abc'.includes()`/startsWith()/endsWith() were true and indexOf() 0 (missing search string taken for ''), `'abc'.replace()` was 'undefinedabc', `'abc'.match(undefined)` null and search(undefined) -1"),
    ("C20", "94dce16", "`/undefined/.test()` was false (missing string taken for ''), `new RegExp(undefined)` was /undefined/ and `new RegExp('a', undefined)` rejected its flags"),
    ("C17", "94dce16", "`new Uint8Array([1,2]).join(undefined)` was '1undefined2'"),
    ("C08", "94dce16", "`({'undefined':1}).hasOwnProperty()` was false; Object.assign() made an object and Object.create() used null (both TypeError in ECMAScript)"),
    ("C17", "3b4bb62", "`new Float64Array([NaN, Infinity]).join()` was 'nan,inf': elements printed with the host's str()"),
    ("C18", "b952845", "`parseInt('0x10', 10)` was 16 (ECMAScript: 0): the 0x prefix switched to base 16 whatever radix was passed"),
    ("C17", "1c4bbcb", "`[[2],[1]].sort()` stayed [[2],[1]]: the default order compared every object as '[object Object]'"),
    ("C16", "5f9722b", "`'abc'.replace(/b/, '[$1]')` was 'a[]c' (ECMAScript: 'a[$1]c', the pattern has no capture 1), `$\u0060` and `$'` were not expanded, `$01` was not capture 1, text substituted for `$&` was read again for `$1`"),
    ("C20", "5f9722b", "`'aXbXc'.replaceAll('X', \"$'\")` kept the two characters `$'`; `'$1'.replace(/(\\$)1/, '[$&]')` expanded the `$1` inside the substituted match"),
    ("C20", "3750543", "`var r=/b/gu; r.test('\\u{1F600}b'); r.lastIndex` was 2 where exec leaves 3: test() had its own copy of the bookkeeping without the UTF-16 conversion of unicode mode"),
    ("C08", "0f27ed1", "`Object.create(p, {x: {value: 5}}).x` ran the getter of p (own data did not shadow an inherited accessor); `{get x(){return 2}, x: 1}.x` was 2; `delete o.x` kept an accessor; `'x' in {get x(){}}` was false"),
    ("C16", "b54eda3", "`'abc'.replace(/b/, function(m){return m.toUpperCase()})` was 'a[object Object]c': a function given as the replacement was converted to text instead of being called"),
    ("C04", "3bbbfc1", "`Math.abs(` nested 200 times, 50 nested function expressions or a sum of 20000 terms left eval as the host's RecursionError (parser and compiler recurse per nesting level)"),
    ("C14", "3bbbfc1", "big but flat programs (`1+1+...` with 20000 terms) ended in RecursionError instead of running or being refused with a JSError"),
    ("C01", "3bbbfc1", "3000 nested parentheses took 20 s whatever the time limit: the limit started with execution, and the arrow-function look-ahead re-reads nested parentheses at every level"),
    ("C04", "a4f92c0", "the string literal `\"\\u{FFFFFFFFFFFF}\"` left eval as OverflowError (chr() beyond the code point range; only ValueError was handled)"),
    ("C13", "a4f92c0", "`\"\\x+1\"` and `\"\\u{1_0}\"` were accepted: escape digits went through int(), which takes a sign and underscores"),
    ("C10", "729fe71", "`/\\u{+41}/u` and `/\\u{4_1}/u` were accepted as A: escape digits went through int()"),
    ("C04", "e7f3d77", "`var a=[]; a.length=1e9` left eval as the host's MemoryError: lengths up to 2**32-1 were allocated at once"),
    ("C17", "8c86225", "`var a=new Uint8Array(2); a.set([1,2,3], 1)` wrote what fitted and dropped the rest; a negative or too large offset was ignored (ECMAScript: RangeError, nothing written)"),
    ("C18", "3476877", "`1/Number('-0')`, `1/(+'-0')` and `1/JSON.parse('-0')` were +Infinity: the text went through int(), which has no negative zero"),
    ("C10", "910eb38", "`var r=/$/my; r.lastIndex=100; r.test('abc')` (also /\\b/y, /\\B/y) left eval as the host's IndexError: a sticky regex was run from a lastIndex beyond the string"),
    ("C20", "910eb38", "a sticky regex with lastIndex beyond the end of the string raised a host IndexError instead of failing and resetting lastIndex"),
    ("C01", "cc97ad1", "`/(?<=b)/.test('a'.repeat(20000))` ran 100 s under time_limit=0.5: each run of the matcher counted its steps from zero, and the runs per start position never reached the poll interval"),
    ("C10", "cc97ad1", "lookbehind and search over long subjects were never polled: unbounded work under any time limit"),
    ("C16", "7e34772", "`'a,b,c'.split(',', -Infinity)` returned 3 pieces and a limit of 2**32+1 all of them (ToUint32: 0 and 1); `'abcabc'.lastIndexOf('c', 'x')` was -1 (a NaN position means the end)"),
    ("C17", "7e34772", "`[1,2,1].lastIndexOf(1, undefined)` was 2 (a fromIndex that is present converts to 0: the answer is 0)"),
    ("C19", "bd55290", "`JSON.parse('9007199254740993') === 9007199254740992` was false and `JSON.parse('9007199254740993') % 2` was 1: integer tokens became host ints of unlimited precision; a token of 5000 digits was a SyntaxError instead of Infinity"),
    ("C06", "bd55290", "a Number made by JSON.parse from a long integer token kept digits no double has: results depended on the int representation"),
    ("C04", "bd55290", "a numeric literal, `Number('1' + '0'.repeat(5000))`, `+s`, `isNaN(s)`, `'abc'[s]`, `a[s]` with 5000 digits left eval as the host's ValueError (int() refuses more than 4300 digits)"),
    ("C18", "db59e6b", "`parseFloat('1e')`, `parseFloat('1.5e+')` and `parseFloat('1e5.5')` were NaN (the longest valid prefix is 1, 1.5, 100000); `Number.parseFloat('Infinity')` was NaN while `parseFloat('Infinity')` was Infinity"),
    ("C18", "964556a", "`parseInt('10', 4294967312)` was NaN (ToInt32 of the radix is 16) and `parseInt('10', Infinity)` was NaN (radix 0 means 10)"),
    ("C17", "3e4f355", "`var a=[1,2,3]; a.splice(); a.join()` was '' (splice without arguments removes nothing)"),
    ("C17", "a314334", "`var a=new Uint8Array([1,2,3,4]); a.subarray(1)[0]=9; a.join()` stayed 1,2,3,4: a subarray of an array made from a list or a length was a copy, and its `.buffer` was undefined"),
    ("C17", "2188f84", "`new Uint32Array(new ArrayBuffer(7))` built a 1-element view instead of raising RangeError"),
    ("C13", "bf4b913", "`-2 ** 2` evaluated to 4 (parsed as (-2) ** 2): a unary operator directly in front of ** is a SyntaxError"),
    ("C06", "0bf0637", "`NaN / 0` was -Infinity and `NaN / -0` was Infinity"),
    ("C06", "18d50b1", "`1/((-0) ** 3)`, `1/Math.pow(-0, 1)` and `1/((-1e-200) ** 3)` were +Infinity: the zero result of ** lost its sign in the int representation"),
    ("C04", "c20bcfc", "`var a=[3,2,1]; a.sort(function(x,y){a.push(1);return x-y})` left eval as the host's ValueError: list modified during sort"),
    ("C17", "1e3d431", "`var a=[1,2,3]; a.forEach(function(x){a.push(x)})` ran until the time limit (forEach, map, filter, some, every, find, findIndex iterated the live list): ECMAScript visits the indices present at the start, so a.length is 6"),
    ("C17", "14aa9e5", "`var a=[{toString:function(){a.push(this);return 'x'}}]; a.join()` ran until the time limit; join walks the indices of the start"),
    ("C17", "44efa6d", "the sort installed on the array prototype object sorted in place with a script comparator (the same ValueError as c20bcfc on that path)"),
    ("C08", "9be7359", "`function f(){var g=()=>this; return g()===this} f.call({})` was false and `[1].map(x=>this.v)` inside a method threw: an arrow function ran with the this of its own call"),
    ("C08", "4ee0b2a", "`var k='x'; var o={[k]:1}; o.x` was undefined: a computed key that is an identifier named the property 'k'"),
    ("C13", "1686d29", "`[1,,2].length` was 2 and `[,1].length` 1: elisions in array literals were dropped, shifting every later index"),
    ("C02", "bbcbe90", "`var a=[]; a.push(a.forEach); a.forEach(a.forEach)` ended in the host's RecursionError: a native used as the callback of a native was called outside the host-depth budget"),
    ("C05", "cbdbd11", "`h(); function h(){}` failed with ReferenceError and `function f(){ return g(); function g(){} }` with \"undefined is not a function\": function declarations were initialised where they stand instead of on entry to their scope"),
    ("C18", "606930f", "`(1.45).toFixed(1)` was 1.5, `(10.235).toFixed(2)` 10.24, `(123456789).toExponential(20)` ended in 88999999989009 and `(0.1+0.2).toExponential()` was 3e-1: the digits of the rounding formats came from float scaling by powers of ten instead of the exact value of the double"),
    ("C16", "d1e4721", "`\"\".repeat(1e300)` and `\"\".repeat(2**53)` raised RangeError: only a negative or an infinite count is invalid, and copies of the empty string are empty (found by the author of seed C16-g)"),
    ("C01", "dd9da4c", "`function g(d){ if(d>40) return 0; for(var i=0;i<30;i++) eval(\"g(\"+(d+1)+\")\"); return 0 } g(0)` was never stopped by time_limit=0.5: nested interpreters count instructions from zero and none reached the polling period (found by the author of seed C01-h)"),
    ("C13", "1214c41", "`[[1][0]]` was [[1], [0]], `[[] + 1]` was [[], 1] and `[1, [2].length]` a syntax error: the iterative parser of nested array literals stored an inner array as an element as soon as its bracket closed"),
    ("C01", "34b30a0", "after a host function called by the script had evaluated code on the same context, the outer evaluation had lost its interpreter (Context.eval cleared the pointer): later eval()/Function/RegExp started a clock of their own and the script ran 0.9 s at time_limit=0.5 (found by the author of seed C01-h)"),
    ("C05", "3bc9911", "`x = 5; var x; x` was undefined, `var t;` in a loop body reset t on every trip, and `ctx.set(\"x\", 5); ctx.eval(\"var x; x\")` lost the embedder's value: a var declaration without initialiser stored undefined (first reported by the author of seed C11-g)"),
    ("C13", "16b493c", "`1.e3` was undefined and `5..toString()` a syntax error (the decimal point was only taken when a digit followed), and `3in x`, `0x1g` were accepted (found by the author of seed C13-g)"),
    ("C13", "fbd50ce", "`new a.b()` was parsed as `(new a).b()` and failed with 'not a constructor': the callee of new was a primary expression only (found by the author of seed C13-g)"),
    ("C08", "da3ae7d", "`function A(){ return function(){} }; typeof new A()` was 'object': a function returned by a constructor was not counted as an object and the new instance was kept"),
    ("C09", "8d8b250", "`/[^A]/i.test(\"a\")` was true, the dot matched \\r, \\u2028 and \\u2029, `/^b/m` did not match in \"a\\rb\" and `\"a\\n\".replace(/^/mg, \">\")` was \">a\\n\" (found by the author of seed C09-h)"),
    ("C09", "45df918", "`/(?:(a)|b){2}/.exec(\"ab\")[1]` was \"a\" (no capture reset between unrolled copies), `/(?:(a)|b){1,2}/.exec(\"a\")[1]` was undefined (the reset sat in front of the branch point) and `/(a*)b\\1+/` did not match \"b\" (the empty check hit the mandatory repetition of +) (found by the author of seed C09-h)"),
    ("C13", "1671805", "a backslash-newline inside a string literal kept the line break in the value, `/=a/` was rejected (lexed as the /= operator), and a regex literal continued across a line break after a backslash (found by the author of seed C13-g)"),
    ("C16", "4239d14", "`\"abc\".startsWith(/a/)`, `endsWith(/c/)` and `includes(/b/)` searched for the source text of the regular expression instead of throwing a TypeError (found by the author of seed C16-g)"),
    ("C05", "4a2a34b", "`var f = () => { var g = function(){ return x; }; var x = 5; return g(); }; f()` threw ReferenceError and `(() => { x = 1; var x; })()` created a global x: the arrow compiler did not register the var declarations of the body before compiling it (found by the authors of seeds C15-h and C05-i)"),
    ("C07", "5f2ee5c", "`try { eval(\"throw 42\") } catch (e) { e }` was an Error object with message \"42\" and a thrown object lost its identity on the way out of eval(): the uncaught throw of the nested interpreter was re-made from its text (found by the author of seed C07-i)"),
    ("C17", "1be946b", "`[1,2,3].reduce(f, undefined)` started from the first element and `[].reduce(f, undefined)` threw; forEach/map/filter/find/findIndex/some/every ignored thisArg and returned quietly for a missing or non-callable callback (found by the author of seed C17-h)"),
    ("C07", "e46fd48", "`-{valueOf:function(){throw 7}}` threw nothing and `[5] - 0`, `[6] / [2]`, `-[5]` were NaN: -, /, %, ** and unary +/- applied the plain number conversion, so valueOf/toString of an object operand never ran (and / and % converted the right operand first) (found by the author of seed C18-g)"),
    ("C08", "1cb9be0", "`[1].map(f) instanceof Array`, `\"a,b\".split(\",\") instanceof Array` and `JSON.parse(\"[1]\") instanceof Array` were false and `Array.prototype` read as undefined: arrays built by natives and by the converters had no prototype link (found by the author of seed C17-h)"),
    ("C08", "37f567b", "`(function(){}) instanceof Function` and `instanceof Object` were false and `Object.getPrototypeOf(function(){})` was null: functions, kept in a class of their own, were treated as non-objects by instanceof and getPrototypeOf"),
    ("C08", "25d6360", "`function F(){}; new F() instanceof Object` was false and `Object.getPrototypeOf(F.prototype) === Object.prototype` too: the prototype object of a function had no prototype of its own (found by the author of seed C08-h)"),
    ("C17", "4e4ea31", "`new Uint8Array(new Uint8Array([1,2,3])).length` was 0: the typed array constructor had no branch for a typed array argument (found by the author of seed C17-h)"),
    ("C07", "fd57c28", "`if (c) throw new Error(\"a\"); throw new Error(\"b\")` on two lines stamped the first error with the line of the second statement: the source location was looked up from the already advanced instruction pointer (found by the author of seed C07-i)"),
    ("C08", "3c567ff", "`var o={a:1}; delete o.b` was false: delete of a property that does not exist must answer true (found by the author of seed C08-h)"),
    ("C12", "af64456", "a script function called through Context._call_function (comparator of the prototype sort) ran on a copy of the globals that was copied back only on normal return: its writes were lost when it threw (found by the author of seed C12-h)"),
    ("C20", "33cb6fa", "`'baa'.search(/a/y)` was 1, `'baa'.match(/a/y)` matched, `'aaba'.replace(/a/gy,'x')` was 'xxbx' (a sticky regex matches only where it starts); `var r=/a/g; r.lastIndex=1; 'aaaa'.match(r); r.lastIndex` stayed 1 and a failed global match or replace left lastIndex as it was (global match/replace start at 0 and leave 0); a sticky non-global match/replace did not advance or reset lastIndex"),
]


class TO(Exception):
    pass


def _alarm(*a):
    raise TO()


signal.signal(signal.SIGALRM, _alarm)


def observe(script=None, py=None, ctx=None):
    signal.alarm(25)
    try:
        if script is not None:
            c = Context(**(ctx or {}))
            return repr(c.eval(script)) if False else _fmt(c.eval(script))
        env = {"Context": Context}
        exec(py, env)
        return _fmt(env.get("result"))
    except TO:
        return "HANG (>25 s)"
    except BaseException as e:  # noqa
        return f"{type(e).__name__}: {str(e)[:90]}"
    finally:
        signal.alarm(0)


def _fmt(v):
    return repr(v) if not isinstance(v, str) else v


def collect_findings():
    ctx = Ctx("quick")
    out = []
    for p in PROPS:
        rep = Report(p, "quick")
        importlib.import_module(f"sa.props.{p.lower()}").run(ctx, rep)
        out.extend(rep.findings)
    return out


def implicit_hits():
    """(file:line) -> (script, observed) from the candidate sweep of tools/probe_witness.py."""
    import runpy, io, contextlib

    # reuse the candidate generator without its reporting part
    src = open(os.path.join(HERE, "tools", "probe_witness.py")).read()
    head = src.split("class TO(Exception)")[0]
    env = {}
    exec(compile(head, "probe_head", "exec"), env)
    cands = env["cands"]
    cands += ["var s=Object.create(Object.getPrototypeOf([])).sort; s.call([-3,-1], Math.sqrt)"]
    hits = {}
    for c in cands:
        cx = Context(time_limit=1.0)
        signal.alarm(5)
        try:
            cx.eval(c)
        except JSError:
            pass
        except TO:
            pass
        except BaseException as e:
            for fr in traceback.extract_tb(e.__traceback__):
                if "/microjs/" in fr.filename:
                    rel = "src/microjs/" + fr.filename.split("/microjs/")[1]
                    hits.setdefault(f"{rel}:{fr.lineno}", (c, f"{type(e).__name__}: {str(e)[:80]}"))
        finally:
            signal.alarm(0)
    return hits


def main():
    dry = "--dry" in sys.argv
    findings = collect_findings()
    print(f"{len(findings)} findings on the current tree", file=sys.stderr)
    hits = None
    entries = {}
    unconfirmed = []
    cache = {}
    for f in findings:
        wit = None
        # 1. manual table
        for w in WT.W:
            if any(re.search(rr, f.rule) and re.search(kr, f.key) for rr, kr in w["match"]):
                k = w["id"]
                if k not in cache:
                    obs = observe(w["script"], w["py"], w["ctx"])
                    ok = bool(re.search(w["bad"], obs)) if w["bad"] else obs != w["expected"]
                    cache[k] = (obs, ok)
                obs, ok = cache[k]
                wit = dict(id=w["id"], what=w["what"], script=w["script"], python=w["py"], context=w["ctx"], observed=obs, expected=w["expected"], confirmed=ok)
                break
        # 2. assertion sub-matchers, per opcode
        if wit is None and f.rule == "C09-R1":
            loop, op = f.key.rsplit(":", 1)
            la = "lookahead" in loop
            fam = ("/(?=[b])a/.test('a')", "False") if la else ("/(?<=[b])a/.test('ca')", "False")
            spec = WT.SUBMATCH.get(op)
            cand = None
            if spec and spec[0 if la else 1]:
                pat, fl, subj, exp = spec[0 if la else 1]
                cand = (f"/{pat}/{fl}.test('{subj}')", repr(exp))
            for script, exp in ([cand] if cand else []) + [fam]:
                obs = observe(script, None, {"time_limit": 2.0})
                if obs != exp:
                    what = (f"the {'lookahead' if la else 'lookbehind'} sub-matcher skips {op} as if it matched" if op != "catch-all" else f"the {'lookahead' if la else 'lookbehind'} sub-matcher skips every opcode it does not know")
                    wit = dict(id=f"D29-{'LA' if la else 'LB'}-{op}", what=what, script=script, python=None, context={}, observed=obs, expected=exp, confirmed=True, specific=(script != fam[0]))
                    break
        # 3. implicit host raisers: traceback line must be the reported line
        if wit is None and re.search(r"-R2$", f.rule):
            if hits is None:
                print("sweeping candidates for implicit raisers ...", file=sys.stderr)
                hits = implicit_hits()
            if f.loc in hits:
                sc, obs = hits[f.loc]
                wit = dict(id="D37", what=f"host exception escapes eval: {obs.split(':')[0]} from `{f.key.split(':', 2)[-1]}`", script=sc, python=None, context={}, observed=obs, expected="a JavaScript value or a JSError", confirmed=True)
        if wit is None or not wit["confirmed"]:
            unconfirmed.append((f, wit))
            continue
        entries[(f.prop, f.rule, f.key)] = dict(status="open", property=f.prop, rule=f.rule, key=f.key, defect=wit["id"], what=wit["what"], witness={k: wit[k] for k in ("script", "python", "context") if wit.get(k)}, observed=wit["observed"], expected=wit["expected"], location_when_recorded=f.loc)
    print(f"{len(entries)} confirmed, {len(unconfirmed)} unconfirmed", file=sys.stderr)
    for f, wit in unconfirmed:
        print("UNCONFIRMED", f.prop, f.rule, f.key, "|", (wit or {}).get("observed"), file=sys.stderr)
    if dry:
        return
    fixed = [dict(status="fixed", property=p, commit=c, what=f"fixed: property={p} {c} {w}") for p, c, w in FIXED]
    data = {
        "_comment": "Committed list of genuine defects of /repo that the static checks report. Never written at run time by a check (tools/make_known.py is a development tool that re-runs every witness against the engine). status=open entries suppress exactly the finding with the same (property, rule, key) and are printed as KNOWN-FINDING; status=fixed entries are a record only and suppress nothing.",
        "findings": fixed + [entries[k] for k in sorted(entries)],
    }
    with open(os.path.join(HERE, "known_findings.json"), "w") as fh:
        json.dump(data, fh, indent=1, ensure_ascii=False)
    print("written", len(data["findings"]), file=sys.stderr)


if __name__ == "__main__":
    main()
