#!/usr/bin/env python3
"""DEVELOPMENT TOOL: re-port the behaviour-preserving twin patches (selftest/patches/*.diff) that stopped applying
after a /repo repair: 3-way apply on a scratch worktree of HEAD; a clean merge that still passes the suite replaces
the patch, a conflict leaves the worktree for a manual resolution (then: tools/twin_port.py --finish <name>)."""
import glob, os, re, subprocess, sys

HERE = os.path.dirname(os.path.dirname(os.path.abspath(__file__)))


def sh(cmd, cwd=None, env=None):
    r = subprocess.run(cmd, shell=True, cwd=cwd, env=env, capture_output=True, text=True, timeout=1500)
    return r.returncode, r.stdout + r.stderr


def finish(name, wt):
    env = dict(os.environ, PYTHONPATH=os.path.join(wt, "src"))
    rc, out = sh("timeout 900 /venv/bin/python -m pytest -q -p no:cacheprovider -n 8 2>&1 | tail -1", cwd=wt, env=env)
    ok = re.search(r"\b\d+ passed", out) and not re.search(r"\b\d+ (failed|error)", out)
    print(f"  {name}: suite {out.strip()}")
    if ok:
        rc, diff = sh("git diff HEAD -- src", cwd=wt)
        open(f"{HERE}/selftest/patches/{name}.diff", "w").write(diff)
        sh(f"git -C /repo worktree remove --force {wt}")
        print(f"  {name}: replaced")


if len(sys.argv) > 2 and sys.argv[1] == "--finish":
    finish(sys.argv[2], f"/tmp/wt/twin-{sys.argv[2]}")
    sys.exit(0)
for p in sorted(glob.glob(f"{HERE}/selftest/patches/*.diff")):
    name = os.path.basename(p)[:-5]
    rc, _ = sh(f"git apply --check {p}", cwd="/repo")
    if rc == 0:
        continue
    wt = f"/tmp/wt/twin-{name}"
    sh(f"git -C /repo worktree remove --force {wt}")
    sh(f"git -C /repo worktree add -q --detach {wt} HEAD")
    rc, out = sh(f"git apply --3way {p}", cwd=wt)
    sh("git reset -q", cwd=wt)
    rc2, conf = sh("grep -rl '^<<<<<<< ' src || true", cwd=wt)
    if conf.strip():
        print(f"  {name}: conflicts in {conf.split()} — resolve in {wt}, then: tools/twin_port.py --finish {name}")
        continue
    finish(name, wt)
