"""DEVELOPMENT DATA — concrete failing inputs for the defects the static checks report on the
current tree.  Used only by tools/make_known.py (which re-runs every witness against the real
engine before writing known_findings.json).  Not imported by any registered check.

Each entry: id, what, match = list of (rule regex, key regex), script (JavaScript evaluated with
Context(**ctx).eval) or py (Python statements; `Context` is in scope; the result is the value of
`result` or the exception), expected (what ECMAScript / the property demands), and optionally
bad = regex the observed outcome must match for the witness to count as confirming the defect.
"""

W = []


def w(id, what, match, script=None, py=None, ctx=None, expected="", bad=None):
    W.append(dict(id=id, what=what, match=match, script=script, py=py, ctx=ctx or {}, expected=expected, bad=bad))


ML = {"memory_limit": 100000}
TL = {"time_limit": 1.0}

w("D01", "callback-mediated recursion through a native overflows the host stack instead of raising MemoryLimitError",
  [(r"C02-R3$", r"_call_callback:reentrant")],
  script="[1].map(function g(x){return [1].map(g)})", ctx=ML, expected="MemoryLimitError", bad=r"RecursionError")
w("D02", "recursion through Function.prototype.call re-enters the run loop in the host and overflows its stack",
  [(r"C02-R3$", r"_execute:reentrant")],
  script="function f(){ return f.call(null) } f()", ctx=ML, expected="MemoryLimitError", bad=r"RecursionError")
w("D03", "Context.set of a cyclic Python list recurses until RecursionError",
  [(r"C02-R3b|C11-R5", r"Context\._to_js:self-recursion")],
  py="l=[]; l.append(l); Context().set('x', l)", expected="a JSError-family error or a cyclic JS array", bad=r"RecursionError")
w("D04", "returning a cyclic array from eval recurses until RecursionError",
  [(r"C02-R3b|C11-R5", r"Context\._to_python:self-recursion")],
  script="var a=[]; a.push(a); a", expected="a JSError-family error or a cyclic Python list", bad=r"RecursionError")
w("D05", "JSON.stringify of a cyclic value recurses until RecursionError instead of throwing a catchable TypeError",
  [(r"C02-R3b|C19-R4", r"to_json_value:self-recursion")],
  script="var a=[]; a.push(a); var r='none'; try{JSON.stringify(a)}catch(e){r=e.name} r", expected="'TypeError'", bad=r"RecursionError")
w("D06a", "property lookup recurses once per prototype link: a long chain overflows the host stack",
  [(r"C02-R3b", r"JSObject\.get_getter:self-recursion")],
  script="var o={}; for(var i=0;i<3000;i++){o=Object.create(o)} o.zzz", expected="undefined", bad=r"RecursionError")
w("D06b", "inherited data-property lookup (ToPrimitive's valueOf lookup) recurses once per prototype link",
  [(r"C02-R3b", r"JSObject\.get:self-recursion")],
  script="var o={}; for(var i=0;i<3000;i++){o=Object.create(o)} Object.values(o); var g=o.toString; String(g)", expected="a string", bad=r"RecursionError")
w("D06c", "setter lookup on assignment recurses once per prototype link",
  [(r"C02-R3b", r"JSObject\.get_setter:self-recursion")],
  script="var o={}; for(var i=0;i<3000;i++){o=Object.create(o)} var r='ok'; try{o.x=1}catch(e){r=e.name} r", expected="'ok'", bad=r"RecursionError")
w("D07a", "a labelled break that leaves a for-in loop keeps the loop's iterator on the operand stack (one slot leaked per execution)",
  [(r"C02-R6|C05-R3", r"BreakStatement:crossing:for-in:labelled")],
  script="var n=0; for(var i=0;i<5000;i++){ lbl: { for(var k in {a:1}){ break lbl } } n++ } n", ctx=ML, expected="5000", bad=r"MemoryLimitError")
w("D07a2", "a labelled break that leaves a for-of loop keeps the loop's iterator on the operand stack",
  [(r"C02-R6|C05-R3", r"BreakStatement:crossing:for-of:labelled")],
  script="var n=0; for(var i=0;i<5000;i++){ lbl: { for(var k of [1]){ break lbl } } n++ } n", ctx=ML, expected="5000", bad=r"MemoryLimitError")
w("D07a3", "a labelled break that leaves a switch keeps the discriminant on the operand stack",
  [(r"C02-R6|C05-R3", r"BreakStatement:crossing:switch:labelled")],
  script="var n=0; for(var i=0;i<5000;i++){ lbl: { switch(1){ case 1: break lbl } } n++ } n", ctx=ML, expected="5000", bad=r"MemoryLimitError")
w("D07b", "continue inside a switch inside a loop keeps the switch discriminant on the operand stack",
  [(r"C02-R6|C05-R3", r"ContinueStatement:crossing:switch:unlabelled")],
  script="var n=0; for(var i=0;i<5000;i++){ switch(1){ case 1: n++; continue } } n", ctx=ML, expected="5000", bad=r"MemoryLimitError")
w("D08a", "break out of a try block leaves its handler registered; a later throw lands in the stale catch clause",
  [(r"C02-R8|C07-R2", r"BreakStatement:handler-stack")],
  script="var r='start'; var i=0; while(i<3){ i++; try{ break }catch(e){ r='stale:'+e } } if(r=='start') throw 'boom'; r", ctx=TL, expected="uncaught 'boom' (JSError)", bad=r"stale:boom")
w("D08b", "continue out of a try block leaves its handler registered; a later throw lands in the stale catch clause",
  [(r"C02-R8|C07-R2", r"ContinueStatement:handler-stack")],
  script="var r='start'; for(var i=0;i<1;i++){ try{ continue }catch(e){ r='stale:'+e } } if(r=='start') throw 'boom'; r", ctx=TL, expected="uncaught 'boom' (JSError)", bad=r"stale:boom")
w("D09", "a labelled continue jumps to bytecode offset 0 (its jump list is never patched): the program restarts forever",
  [(r"C02-R9|C05-R1c", r"LabeledStatement:ctx:continue_jumps")],
  script="var n=0; outer: for(var i=0;i<3;i++){ for(var j=0;j<3;j++){ n++; continue outer } } n", ctx=TL, expected="3", bad=r"TimeLimitError|^(?!3$)")
w("D10", "typeof reads the stale local slot of a captured variable",
  [(r"C05-R9", r"UnaryExpression:LOAD_LOCAL:ref")],
  script="function f(){var x; var g=function(){x=1}; g(); return typeof x} f()", expected="'number'", bad=r"undefined")
w("D11", "a for-in loop variable declared with var is never written to its closure cell",
  [(r"C05-R9", r"ForInStatement:STORE_LOCAL:decl")],
  script="function f(){var fs=[]; for(var k in {a:1,b:2}){fs.push(function(){return k})} return fs[0]()} f()", expected="'b'", bad=r"None|undefined")
w("D12", "a for-in loop assigning an existing captured local writes the slot, not the cell",
  [(r"C05-R9", r"ForInStatement:STORE_LOCAL:ref")],
  script="function f(){var k; var g=function(){return k}; for(k in {a:1}){} return g()} f()", expected="'a'", bad=r"None|undefined")
w("D13", "a for-in loop assigning a variable of an enclosing function writes a global instead",
  [(r"C05-R9", r"ForInStatement:STORE_NAME:ref")],
  script="function o(){var k='init'; function inner(){for(k in {zz:1}){}} inner(); return k} o()", expected="'zz'", bad=r"init")
w("D14", "a for-of loop variable declared with var is never written to its closure cell",
  [(r"C05-R9", r"ForOfStatement:STORE_LOCAL:decl")],
  script="function f(){var fs=[]; for(var k of [7,8]){fs.push(function(){return k})} return fs[0]()} f()", expected="8", bad=r"None|undefined")
w("D15", "a for-of loop assigning an existing captured local writes the slot, not the cell",
  [(r"C05-R9", r"ForOfStatement:STORE_LOCAL:ref")],
  script="function f(){var k; var g=function(){return k}; for(k of [5]){} return g()} f()", expected="5", bad=r"None|undefined")
w("D16", "a for-of loop assigning a variable of an enclosing function writes a global instead",
  [(r"C05-R9", r"ForOfStatement:STORE_NAME:ref")],
  script="function o(){var k='init'; function inner(){for(k of ['zz']){}} inner(); return k} o()", expected="'zz'", bad=r"init")
w("D17", "a catch parameter captured by a closure is copied by value, not shared",
  [(r"C05-R9", r"TryStatement:STORE_LOCAL:ref")],
  script="function f(){ try{throw 1}catch(e){ var g=function(){return e}; e=2; return g() } } f()", expected="2", bad=r"^1$")
w("D18", "a native that is running a callback does not notice that a throw unwound past it: it keeps iterating and the catch sees undefined",
  [(r"C05-R7|C07-R3|C08-R6", r"_call_callback:unwound-below")],
  script="var r=[]; try{[1,2,3].forEach(function(x){if(x==2)throw 'E'; r.push(x)})}catch(e){r.push('c'+e)} r", expected="[1, 'cE']", bad=r"cundefined|3")
w("D19", "Function.prototype.call/apply re-enter the main run loop, which runs the caller's remaining code before returning",
  [(r"C05-R7|C07-R3|C08-R6", r"_call_function_internal:reenters-full-loop")],
  script="var out=[]; function id(x){return x} var m=[1,2].map(function(x){return id.call(null,x)}); out.push('after'); [m,out]", expected="[[1, 2], ['after']]", bad=r"^(?!\[\[1, 2\], \['after'\]\]$)")
w("D21", "** is the host operator: 0 ** -1 raises ZeroDivisionError (also exact big integers and complex results)",
  [(r"C06-R7", r"POW:raw-host-operator")],
  script="0 ** -1", expected="Infinity", bad=r"ZeroDivisionError")
w("D22", "a syntax error inside eval() is re-labelled as an uncatchable JSError",
  [(r"C07-R5", r"eval_fn:raise JSError")],
  script="var r='none'; try{ eval('(') }catch(e){ r=e.name } r", expected="'SyntaxError'", bad=r"JSError")
w("D23", "a syntax error inside new Function() is an uncatchable JSError",
  [(r"C07-R5|C17-R3", r"function_constructor_fn:raise JSError")],
  script="var r='none'; try{ new Function('(') }catch(e){ r=e.name } r", expected="'SyntaxError'", bad=r"JSError")
w("D24", "JSON.parse raises the engine's JSSyntaxError, which script try/catch cannot catch",
  [(r"C07-R5|C19-R2", r"parse_fn:raise JSSyntaxError")],
  script="var r='none'; try{JSON.parse('{')}catch(e){r=e.name} r", expected="'SyntaxError'", bad=r"JSSyntaxError")
w("D25a", "break inlines every pending finally, including the one of a try that encloses the loop: it runs twice",
  [(r"C07-R4b", r"BreakStatement:finally-scope")],
  script="var n=0; try{for(;;){break}}finally{n++} n", expected="1", bad=r"^2$")
w("D25b", "continue inlines the finally of a try that encloses the loop on every iteration",
  [(r"C07-R4b", r"ContinueStatement:finally-scope")],
  script="var n=0; try{ for(var i=0;i<2;i++){ continue } }finally{ n++ } n", expected="1", bad=r"^3$")
w("D26", "an exception thrown by a catch clause skips the finally block of the same try",
  [(r"C07-R4$", r"throw-from-catch")],
  script="var n=0; try{ try{ throw 1 }catch(e){ throw 2 }finally{ n=5 } }catch(e2){} n", expected="5", bad=r"^0$")
w("D27", "property writes on function objects are silently dropped (F.prototype = {...} has no effect)",
  [(r"C08-R2", r"_set_property:JSFunction")],
  script="function F(){} F.prototype={m:function(){return 1}}; new F().m()", expected="1", bad=r"not a function")
w("D28a", "ToPrimitive calls a this-taking native (Object.prototype.valueOf) without this: host TypeError",
  [(r"C08-R5", r"_to_primitive:method")],
  script="({})+1", expected="'[object Object]1'", bad=r"TypeError")
w("D28b", "a plain call of a this-taking native passes no this: host TypeError",
  [(r"C08-R5", r"_call_function:callee")],
  script="var t=({}).toString; t()", expected="'[object Undefined]'", bad=r"TypeError")
w("D28c", "a this-taking native used as a callback receives the first argument as this",
  [(r"C08-R5", r"_call_callback:callback")],
  script="[{a:1}].map(({}).hasOwnProperty)[0]", expected="TypeError or false (this is undefined, key '[object Object]')", bad=r"^(?!False$)|False")
w("D28d", "a this-taking native used as a getter is called without this: host TypeError",
  [(r"C08-R5", r"_invoke_getter:getter")],
  script="var o={}; Object.defineProperty(o,'g',{get: ({}).toString}); o.g", expected="'[object Object]'", bad=r"TypeError")
w("D28e", "a this-taking native used as a setter receives the assigned value as this",
  [(r"C08-R5", r"_invoke_setter:setter")],
  script="var srt=Object.create(Object.getPrototypeOf([])).sort; var o={}; Object.defineProperty(o,'s',{set: srt}); var a=[3,1,2]; o.s=a; a", expected="[3, 1, 2] (sort runs with this = o)", bad=r"\[1, 2, 3\]")
w("D28f", "Array.prototype.sort calls a this-taking native comparator with the first element as this",
  [(r"C08-R5", r"array_sort\.compare_fn:comparator")],
  script="var srt=Object.create(Object.getPrototypeOf([])).sort; var r='no error'; try{ srt.call([{k:1},{k:2}], ({}).hasOwnProperty) }catch(e){ r=e.name } r", expected="'TypeError' (comparator called with this = undefined)", bad=r"no error")
w("D30a", r"\d accepts non-ASCII digits", [(r"C09-R3", r"_execute:str\.isdigit")], script=r"/^\d$/.test('٣')", expected="False", bad=r"True")
w("D30b", r"\w accepts non-ASCII letters", [(r"C09-R3", r"_execute:str\.isalnum")], script=r"/^\w$/.test('é')", expected="False", bad=r"True")
w("D30c", r"\s accepts U+001C..U+001F, which are not ECMAScript white space", [(r"C09-R3", r"_execute:str\.isspace")], script=r"/^\s$/.test('\x1c')", expected="False", bad=r"True")
w("D30d", r"\b treats non-ASCII letters as word characters", [(r"C09-R3", r"is_word_char:str\.isalnum")], script=r"/a\b/.test('aé')", expected="True", bad=r"False")
w("D30e", r"\d inside lookbehind accepts non-ASCII digits", [(r"C09-R3", r"_try_lookbehind_at:str\.isdigit")], script=r"/(?<=\d)a/.test('٣a')", expected="False", bad=r"True")
w("D30f", r"\w inside lookbehind accepts non-ASCII letters", [(r"C09-R3", r"_try_lookbehind_at:str\.isalnum")], script=r"/(?<=\w)a/.test('éa')", expected="False", bad=r"True")
w("D31a", "new RegExp with an invalid pattern raises the regex engine's private RegExpError out of eval",
  [(r"C10-R1$", r"regexp_constructor_fn:JSRegExp"), (r"C04-R1", r"RegExp\.__init__:raise RegExpError")],
  script="var r='none'; try{ new RegExp('(') }catch(e){ r=e.name } r", expected="'SyntaxError'", bad=r"RegExpError")
w("D31b", "an invalid regex literal raises RegExpError out of eval",
  [(r"C10-R1$", r"_execute_opcode:JSRegExp")], script="var r='none'; try{ /(/ }catch(e){ r=e.name } r", expected="'SyntaxError'", bad=r"RegExpError")
w("D31c", "String.prototype.match with an invalid pattern string raises RegExpError out of eval",
  [(r"C10-R1$", r"\.match:RegExp")], script="var r='none'; try{ 'a'.match('(') }catch(e){ r=e.name } r", expected="'SyntaxError'", bad=r"RegExpError")
w("D31d", "String.prototype.search with an invalid pattern string raises RegExpError out of eval",
  [(r"C10-R1$", r"\.search:RegExp")], script="var r='none'; try{ 'a'.search('(') }catch(e){ r=e.name } r", expected="'SyntaxError'", bad=r"RegExpError")
BIG = "'ab'.repeat(6000)"
w("D32a", "exhausting the backtrack-stack budget raises RegexStackOverflow out of eval (RegExp.test)",
  [(r"C10-R1b", r"test_fn:re\.test"), (r"C04-R1", r"RegexVM\._execute:raise RegexStackOverflow")], script=f"/(a|b)*c/.test({BIG})", expected="False (or a JSError)", bad=r"RegexStackOverflow")
w("D32b", "RegexStackOverflow escapes from RegExp.exec", [(r"C10-R1b", r"exec_fn:re\.exec")], script=f"/(a|b)*c/.exec({BIG})", expected="null (or a JSError)", bad=r"RegexStackOverflow")
w("D32c", "RegexStackOverflow escapes from String.search", [(r"C10-R1b", r"\.search:vm_regex\.search")], script=f"{BIG}.search(/(a|b)*c/)", expected="-1 (or a JSError)", bad=r"RegexStackOverflow")
w("D32d", "RegexStackOverflow escapes from String.match (global)", [(r"C10-R1b", r"\.match:vm_regex\.search\(s, pos\)")], script=f"{BIG}.match(/(a|b)*c/g)", expected="null (or a JSError)", bad=r"RegexStackOverflow")
w("D32e", "RegexStackOverflow escapes from String.match", [(r"C10-R1b", r"\.match:vm_regex\.search\(s, 0\)")], script=f"{BIG}.match(/(a|b)*c/)", expected="null (or a JSError)", bad=r"RegexStackOverflow")
w("D32f", "RegexStackOverflow escapes from String.replace", [(r"C10-R1b", r"\.replace:vm_regex\.search")], script=f"{BIG}.replace(/(a|b)*c/, 'x').length", expected="12000 (or a JSError)", bad=r"RegexStackOverflow")
w("D32g", "RegexStackOverflow escapes from String.split", [(r"C10-R1b", r"\.split:vm_regex\.search")], script=f"{BIG}.split(/(a|b)*c/).length", expected="1 (or a JSError)", bad=r"RegexStackOverflow")
w("D33a", "the lookahead sub-matcher has no step budget and ignores the zero-advance guard: (?=(a*)*b) spins until RegexStackOverflow",
  [(r"C10-R2", r"_execute_lookahead:matcher-loop:step-budget"), (r"C04-R1", r"_execute_lookahead:raise RegexStackOverflow")], script="/(?=(a*)*b)/.test('aaa')", expected="False", bad=r"RegexStackOverflow")
w("D33b", "the lookbehind sub-matcher has no step budget and ignores the zero-advance guard",
  [(r"C10-R2", r"_try_lookbehind_at:matcher-loop:step-budget"), (r"C04-R1", r"_try_lookbehind_at:raise RegexStackOverflow")], script="/(?<=(a*)*b)c/.test('aaac')", expected="False", bad=r"RegexStackOverflow")
w("D34", "counted quantifiers are unrolled with no upper bound: the compiled program grows with the number written in the pattern",
  [(r"C10-R3", r"range\(")],
  py="import microjs.regex as R; r=R.RegExp('a{300000}'); result=len(r._bytecode)", expected="refused with an error, or compiled in space independent of the count", bad=r"^3000\d\d$")
w("D35", "a RegExp keeps the deadline of the eval that created it: used in a later eval it times out spuriously",
  [(r"C12-R5", r"JSRegExp deadline")],
  py="import time; c=Context(time_limit=0.5); c.eval('var r=/a+b/; var q=new RegExp(\"a+b\")'); time.sleep(0.7); result=[]\ntry:\n    c.eval(\"r.test('a'.repeat(300))\")\n    result.append('literal ok')\nexcept Exception as e:\n    result.append('literal '+type(e).__name__)\ntry:\n    c.eval(\"q.test('a'.repeat(300))\")\n    result.append('ctor ok')\nexcept Exception as e:\n    result.append('ctor '+type(e).__name__)", expected="['literal ok', 'ctor ok']", bad=r"TimeLimitError")
w("D36", "redundant parentheses change the outcome: a parenthesised primary cannot be followed by a postfix operator inside parentheses",
  [(r"C13-R4", r"_continue_parsing_expression:postfix")],
  script="var a={b:1}; ((a).b)", expected="1", bad=r"JSSyntaxError")
w("D38", "writing past the end of an array is silently redirected to a string property instead of being an error",
  [(r"C17-R4", r"_set_property:except \(ValueError, IndexError\): pass")],
  script="var a=[]; var r='no error'; try{ a[5]=1 }catch(e){ r=e.name } [r, a.length]", expected="an error (documented stricter mode)", bad=r"no error")
w("D39a", "numbers are printed with the host repr: 1e-7 prints as 1e-07",
  [(r"C18-R4", r"to_string:repr\(float\)")], script="String(1e-7)", expected="'1e-7'", bad=r"1e-07")
w("D39b", "string-to-number conversion accepts the host's numeric grammar: '1_0' is 10",
  [(r"C18-R4", r"to_number:float\(str\)/int\(str\)")], script="Number('1_0')", expected="NaN", bad=r"^10$")
w("D40a", "JSON.parse accepts NaN", [(r"C19-R1", r"parse_fn:json\.loads")], script="var r='accepted'; try{ JSON.parse('[NaN]') }catch(e){ r='rejected' } r", expected="'rejected'", bad=r"accepted")
w("D40b", "JSON.stringify escapes non-ASCII characters", [(r"C19-R1", r"json\.dumps:ensure_ascii")], script="JSON.stringify(['é'])", expected="'[\"é\"]'", bad=r"u00e9")
w("D40c", "JSON.stringify prints Infinity", [(r"C19-R1", r"json\.dumps:allow_nan")], script="JSON.stringify([1/0])", expected="'[null]'", bad=r"Infinity")
w("D40d", "JSON.stringify prints host float spellings", [(r"C19-R1", r"to_json_value:number-branch")], script="JSON.stringify([1.5*2, 1e-7])", expected="'[3,1e-7]'", bad=r"3\.0|1e-07")
w("D40e", "JSON.stringify serialises function-valued properties as null instead of omitting them", [(r"C19-R5", r"object-omission")], script="JSON.stringify({f:function(){}, a:1})", expected="'{\"a\":1}'", bad=r"null")
w("D40f", "JSON.stringify(undefined) returns the string 'null'", [(r"C19-R5", r"stringify_fn:root")], script="JSON.stringify(undefined)", expected="undefined", bad=r"null")
w("D41", "typed arrays created without a buffer expose Python None as their buffer property",
  [(r"C03-R3|C11-R4b", r"getattr\(\.\., '_buffer'\)")],
  script="var b=new Float64Array(1).buffer; [typeof b, b === undefined]", expected="['object', False] (an ArrayBuffer)", bad=r"'undefined', False")

# per-opcode witnesses for the assertion sub-matchers: (opcode, lookahead (pattern, flags, subject, expected), lookbehind (...))
SUBMATCH = {
    "ANY": (("(?=.)a", "s", "a", True), ("(?<=.)a", "s", "a", False)),
    "RANGE": (("(?=[b])a", "", "a", False), ("(?<=[b])a", "", "ca", False)),
    "RANGE_NEG": (("(?=[^a])a", "", "a", False), ("(?<=[^c])a", "", "ca", False)),
    "DIGIT": (("(?=\\d)a", "", "a", False), None),
    "NOT_DIGIT": (("(?=\\D)1", "", "1", False), ("(?<=\\D)a", "", "1a", False)),
    "WORD": (("(?=\\w)-", "", "-", False), None),
    "NOT_WORD": (("(?=\\W)a", "", "a", False), ("(?<=\\W)a", "", "ba", False)),
    "SPACE": (("(?=\\s)a", "", "a", False), ("(?<=\\s)a", "", "ba", False)),
    "NOT_SPACE": (("(?=\\S) ", "", " ", False), ("(?<=\\S)a", "", " a", False)),
    "LINE_START": (("a(?=^)b", "", "ab", False), ("a(?<=^a)b", "", "aab", False)),
    "LINE_START_M": (("a(?=^)b", "m", "ab", False), ("a(?<=^a)b", "m", "aab", False)),
    "LINE_END": (("a(?=$)b", "", "ab", False), ("a(?<=a$)b", "", "ab", False)),
    "LINE_END_M": (("a(?=$)b", "m", "ab", False), ("a(?<=a$)b", "m", "ab", False)),
    "WORD_BOUNDARY": (("a(?=\\b)b", "", "ab", False), ("ab(?<=a\\bb)", "", "ab", False)),
    "NOT_WORD_BOUNDARY": (("a(?=\\B) ", "", "a ", False), ("a (?<=a\\B )", "", "a ", False)),
    "BACKREF": (("(a)(?=\\1)b", "", "ab", False), ("(a)b(?<=\\1b)", "", "ab", True)),
    "BACKREF_I": (("(a)(?=\\1)b", "i", "ab", False), ("(a)b(?<=\\1b)", "i", "ab", True)),
    "LOOKAHEAD_NEG": (("a(?=(?!b))b", "", "ab", False), ("ab(?<=a(?!b)b)", "", "ab", False)),
    "LOOKAHEAD": (("a(?=(?=c)b)b", "", "ab", False), ("ab(?<=a(?=c)b)", "", "ab", False)),
    "LOOKBEHIND": (("a(?=(?<=c)b)b", "", "ab", False), ("ab(?<=(?<=c)b)", "", "ab", False)),
    "LOOKBEHIND_NEG": (("a(?=(?<!a)b)b", "", "ab", False), ("ab(?<=(?<!a)b)", "", "ab", False)),
}
