#!/usr/bin/env python3
"""DEVELOPMENT TOOL: apply every seeded patch to a scratch copy of /repo/src and run all 20 property checks on
it (in-process, no engine code executed); prints which rules report something new.  Refreshes the
`checks_reporting`/`detected_by` fields of each seeded/<name>/meta.json."""
import importlib, json, os, shutil, sys, tempfile
from concurrent.futures import ProcessPoolExecutor

HERE = os.path.dirname(os.path.dirname(os.path.abspath(__file__)))
sys.path.insert(0, HERE)


def one(name):
    from sa.core import REPO, AnalysisError
    from sa.main import Ctx, PROPS
    from sa.report import Report, load_known
    from sa.selftest import _apply

    scratch = tempfile.mkdtemp(prefix="microjs-seed-")
    try:
        shutil.copytree(os.path.join(REPO, "src"), os.path.join(scratch, "src"))
        ok, why = _apply({"patch": f"seeded/{name}/patch.diff", "edits": []}, scratch)
        if not ok:
            return name, {"_apply": why}
        ctx = Ctx("quick", repo=scratch)
        res = {}
        for pid in PROPS:
            rep = Report(pid, "quick")
            try:
                importlib.import_module(f"sa.props.{pid.lower()}").run(ctx, rep)
                for rid, r in rep.rules.items():
                    if r["instances"] < r["floor"]:
                        raise AnalysisError(f"rule {rid} below its floor")
            except AnalysisError as e:
                res[pid] = {"exit": 2, "reports": [f"ANALYSIS-ERROR {e}"]}
                continue
            known = {f"{e['rule']}|{e['key']}" for e in load_known() if e.get("status") != "fixed" and e.get("property") == pid}
            new = [f for f in rep.findings if f.ident() not in known]
            if new:
                res[pid] = {"exit": 1, "reports": [f"{f.rule} {f.key}: {f.msg[:200]}" for f in new][:6]}
        return name, res
    finally:
        shutil.rmtree(scratch, ignore_errors=True)


if __name__ == "__main__":
    names = sorted(d for d in os.listdir(os.path.join(HERE, "seeded")) if os.path.exists(os.path.join(HERE, "seeded", d, "patch.diff")))
    if len(sys.argv) > 1:
        names = [n for n in names if n in sys.argv[1:]]
    with ProcessPoolExecutor(max_workers=12) as ex:
        for name, res in ex.map(one, names):
            mp = os.path.join(HERE, "seeded", name, "meta.json")
            meta = json.load(open(mp)) if os.path.exists(mp) else {}
            meta["checks_reporting"] = res
            meta["detected_by"] = sorted(k for k in res if not k.startswith("_"))
            json.dump(meta, open(mp, "w"), indent=1)
            tgt = meta.get("breaks_property")
            print(f"{name}: target={tgt} detected_by={meta['detected_by']}")
            for pid, r in res.items():
                for line in (r["reports"] if isinstance(r, dict) else [r]):
                    print(f"    {pid}: {line[:230]}")
