"""Self-test catalogue: mutants (each must be reported by the named rule) and twins
(behaviour-preserving edits that must stay silent).  Edits are exact-text replacements applied
to a scratch copy of /repo/src; an edit whose anchor text is gone is skipped (and counted).

M(id, props, file, old, new, expect=[(property, rule-regex, key-regex)], count=1)
T(id, props, file, old, new)            # twin: no new violation for the listed properties
"""

MUTANTS = []
TWINS = []


def M(id, props, file, old, new, expect, count=1, note="", more=()):
    MUTANTS.append(dict(id=id, props=props, edits=[(file, old, new, count)] + list(more), expect=expect, note=note))


def T(id, props, file, old, new, count=1, note="", more=()):
    TWINS.append(dict(id=id, props=props, edits=[(file, old, new, count)] + list(more), note=note))


def S(id, props, patch, expect, note="", silent=()):
    """A seeded change written by an independent author (kept under /verif/seeded/<name>/patch.diff).
    `silent`: properties the change does NOT break and whose checks must not react to it."""
    MUTANTS.append(dict(id=id, props=props, edits=[], patch=patch, expect=expect, note=note))
    if silent:
        TWINS.append(dict(id=id + "-silent", props=list(silent), edits=[], patch=patch, note=note))


def TP(id, props, patch, note=""):
    """A behaviour-preserving change kept as a patch file (selftest/patches/): every listed check stays silent."""
    TWINS.append(dict(id=id, props=list(props), edits=[], patch=patch, note=note))


VM = "src/microjs/vm.py"
CO = "src/microjs/compiler.py"
CX = "src/microjs/context.py"
VA = "src/microjs/values.py"
PA = "src/microjs/parser.py"
LX = "src/microjs/lexer.py"
RV = "src/microjs/regex/vm.py"
RR = "src/microjs/regex/regex.py"
RC = "src/microjs/regex/compiler.py"

# ------------------------------------------------------------------ C01 / C02-R1
M("c01-drop-poll-callback-loop", ["C01", "C02"], VM,
  "                while len(self.call_stack) > call_stack_len:\n                    self._check_limits()\n",
  "                while len(self.call_stack) > call_stack_len:\n",
  [("C01", "C01-R1", "_call_callback"), ("C02", "C02-R1a", "_call_callback")])
M("c01-poll-under-condition", ["C01"], VM,
  "        while self.call_stack:\n            self._check_limits()\n",
  "        while self.call_stack:\n            if self.memory_limit:\n                self._check_limits()\n",
  [("C01", "C01-R1", "_execute")])
M("c01-poll-period-huge", ["C01"], VM,
  "self.instruction_count % 1000 == 0", "self.instruction_count % 100000000 == 0",
  [("C01", "C01-R2", "raise TimeLimitError")])
M("c01-extra-guard", ["C01"], VM,
  "if self.time_limit and self.instruction_count % 1000 == 0:", "if self.time_limit and self.memory_limit and self.instruction_count % 1000 == 0:",
  [("C01", "C01-R2", "raise TimeLimitError")])
M("c01-compare-constant", ["C01"], VM,
  "if time.monotonic() - self.start_time > self.time_limit:\n                raise TimeLimitError", "if time.monotonic() - self.start_time > 3600:\n                raise TimeLimitError",
  [("C01", "C01-R2", "raise TimeLimitError")])
M("c01-main-poll-only-unanchored", ["C01"], RV,
  "            if self._steps_since_start % self.poll_interval == 0:\n                if self.poll_callback and self.poll_callback():\n                    raise RegexTimeoutError(\"Regex execution timed out\")\n\n            # Hard step limit",
  "            if self._steps_since_start % self.poll_interval == 0 and not anchored:\n                if self.poll_callback and self.poll_callback():\n                    raise RegexTimeoutError(\"Regex execution timed out\")\n\n            # Hard step limit",
  [("C01", "C01-R3", "RegexVM._run:"), ])
M("c01-regexp-ctor-no-callback", ["C01"], CX,
  "            return JSRegExp(pattern, flags, poll_callback)", "            return JSRegExp(pattern, flags)",
  [("C01", "C01-R4", "regexp_constructor_fn")])
M("c01-create-vm-drops-callback", ["C01"], RR,
  "            self.flags,\n            self._poll_callback,\n", "            self.flags,\n            None,\n",
  [("C01", "C01-R4", "RegexVM")])
M("c01-search-untranslated", ["C01", "C20"], VM,
  "                regex_internal.lastIndex = saved\n                return result.index if result else -1\n            except RegexTimeoutError:\n                raise TimeLimitError(\"Regex execution timeout\")\n            except RegexStackOverflow:\n                raise JSRangeError(\"Regular expression too complex\")",
  "                regex_internal.lastIndex = saved\n                return result.index if result else -1\n            except RegexStackOverflow:\n                raise JSRangeError(\"Regular expression too complex\")",
  [("C01", "C01-R5", r"search:regex_internal\.exec"), ("C20", "C20-R3a", r"search:regex_internal\.exec")])
M("c01-translate-to-jserror", ["C01"], VM,
  "            try:\n                return re.test(string)\n            except RegexTimeoutError:\n                raise TimeLimitError(\"Regex execution timeout\")",
  "            try:\n                return re.test(string)\n            except RegexTimeoutError:\n                raise JSError(\"Regex execution timeout\")",
  [("C01", "C01-R5", "test_fn")])
M("c01-widen-except-jserror", ["C01"], VM,
  "        except JSTypeError as e:\n            # Convert Python JSTypeError to JavaScript TypeError\n            self._handle_python_exception(\"TypeError\", str(e))",
  "        except (JSTypeError, JSError) as e:\n            # Convert Python errors to JavaScript TypeError\n            self._handle_python_exception(\"TypeError\", str(e))",
  [("C01", "C01-R6", r"VM\._run_opcode")])
M("c01-eval-swallows-limits-again", ["C01"], CX,
  "                return vm.run(bytecode_module)\n            except JSError:\n                # Syntax errors, uncaught script errors and limit errors keep their class\n                raise\n            except Exception as e:",
  "                return vm.run(bytecode_module)\n            except Exception as e:",
  [("C01", "C01-R6", "eval_fn")])
M("c01-eval-fresh-clock", ["C01"], CX,
  "                if ctx._current_vm is not None:\n                    # Share the running evaluation's deadline and host-stack budget\n                    vm.start_time = ctx._current_vm.start_time\n                    vm.host_depth = ctx._current_vm.host_depth\n                return vm.run(bytecode_module)",
  "                if ctx._current_vm is not None:\n                    vm.host_depth = ctx._current_vm.host_depth\n                return vm.run(bytecode_module)",
  [("C01", "C01-R7", "eval_fn")])
M("c01-run-restamps", ["C01"], VM,
  "        if self.start_time is None:\n            self.start_time = time.monotonic()\n        else:\n            self._poll_deadline()\n", "        self.start_time = time.monotonic()\n",
  [("C01", "C01-R7", "stamp start_time")])
M("c02-mem-drops-frames", ["C02"], VM,
  "mem_used = len(self.stack) * 100 + len(self.call_stack) * 200", "mem_used = len(self.stack) * 100",
  [("C02", "C02-R1$", "MemoryLimitError")])
M("c02-mem-under-period", ["C02"], VM,
  "        if self.memory_limit:\n            # Rough estimate", "        if self.memory_limit and self.instruction_count % 1000 == 0:\n            # Rough estimate",
  [("C02", "C02-R1$", "MemoryLimitError")])
M("c02-call-recurses-in-host", ["C02"], VM,
  "        if isinstance(callee, JSFunction):\n            self._invoke_js_function(callee, args, this_val or UNDEFINED)\n        elif callable(callee):",
  "        if isinstance(callee, JSFunction):\n            self.stack.append(self._call_callback(callee, args, this_val or UNDEFINED))\n        elif callable(callee):",
  [("C02", "C02-R2", "CALL")])

# ------------------------------------------------------------------ E3: C02 / C05 / C07
M("e3-exprstmt-no-pop", ["C02", "C05"], CO,
  "        if isinstance(node, ExpressionStatement):\n            self._compile_expression(node.expression)\n            self._emit(OpCode.POP)\n\n        elif isinstance(node, BlockStatement):",
  "        if isinstance(node, ExpressionStatement):\n            self._compile_expression(node.expression)\n\n        elif isinstance(node, BlockStatement):",
  [("C02", "C02-R4", "ExpressionStatement"), ("C05", "C05-R1$", "ExpressionStatement")])
M("e3-var-decl-no-pop", ["C02"], CO,
  "                    idx = self._add_name(name)\n                    self._emit(OpCode.STORE_NAME, idx)\n                self._emit(OpCode.POP)\n\n        elif isinstance(node, IfStatement):",
  "                    idx = self._add_name(name)\n                    self._emit(OpCode.STORE_NAME, idx)\n                    self._emit(OpCode.POP)\n\n        elif isinstance(node, IfStatement):",
  [("C02", "C02-R4", "VariableDeclaration")])
M("e3-forin-break-after-pop", ["C02", "C05"], CO,
  "            self._patch_jump(jump_done)\n            # Break jumps land here, while the iterator is still on the stack\n            for pos in loop_ctx.break_jumps:\n                self._patch_jump(pos)\n            self._emit(OpCode.POP)  # Pop iterator\n\n            # Patch continue jumps\n            for pos in loop_ctx.continue_jumps:\n                self._patch_jump(pos, loop_start)\n\n            self.loop_stack.pop()\n\n        elif isinstance(node, ForOfStatement):",
  "            self._patch_jump(jump_done)\n            self._emit(OpCode.POP)  # Pop iterator\n            for pos in loop_ctx.break_jumps:\n                self._patch_jump(pos)\n\n            # Patch continue jumps\n            for pos in loop_ctx.continue_jumps:\n                self._patch_jump(pos, loop_start)\n\n            self.loop_stack.pop()\n\n        elif isinstance(node, ForOfStatement):",
  [("C02", "C02-R5", "ForInStatement"), ("C05", "C05-R1$", "ForInStatement")])
M("e3-for-continue-skips-update", ["C05"], CO,
  "            for pos in loop_ctx.continue_jumps:\n                self._patch_jump(pos, continue_target)\n\n            self.loop_stack.pop()\n\n        elif isinstance(node, ForInStatement):",
  "            for pos in loop_ctx.continue_jumps:\n                self._patch_jump(pos, loop_start)\n\n            self.loop_stack.pop()\n\n        elif isinstance(node, ForInStatement):",
  [("C05", "C05-R2", "ForStatement:continue-target")])
M("e3-dowhile-continue-to-body", ["C05"], CO,
  "            for pos in loop_ctx.continue_jumps:\n                self._patch_jump(pos, continue_target)\n\n            self.loop_stack.pop()\n\n        elif isinstance(node, ForStatement):",
  "            for pos in loop_ctx.continue_jumps:\n                self._patch_jump(pos, loop_start)\n\n            self.loop_stack.pop()\n\n        elif isinstance(node, ForStatement):",
  [("C05", "C05-R2", "DoWhileStatement:continue-target")])
M("e3-while-break-never-patched", ["C02", "C05"], CO,
  "            # Patch break jumps\n            for pos in loop_ctx.break_jumps:\n                self._patch_jump(pos)\n            # Patch continue jumps\n            for pos in loop_ctx.continue_jumps:\n                self._patch_jump(pos, loop_start)\n\n            self.loop_stack.pop()\n\n        elif isinstance(node, DoWhileStatement):",
  "            # Patch continue jumps\n            for pos in loop_ctx.continue_jumps:\n                self._patch_jump(pos, loop_start)\n\n            self.loop_stack.pop()\n\n        elif isinstance(node, DoWhileStatement):",
  [("C02", "C02-R9", "WhileStatement:ctx:break_jumps"), ("C05", "C05-R1c", "WhileStatement:ctx:break_jumps")])
M("e3-if-else-unpatched", ["C05"], CO,
  "                jump_end = self._emit_jump(OpCode.JUMP)\n                self._patch_jump(jump_false)\n                self._compile_statement(node.alternate)\n                self._patch_jump(jump_end)\n            else:\n                self._patch_jump(jump_false)\n\n        elif isinstance(node, WhileStatement):",
  "                jump_end = self._emit_jump(OpCode.JUMP)\n                self._patch_jump(jump_false)\n                self._compile_statement(node.alternate)\n            else:\n                self._patch_jump(jump_false)\n\n        elif isinstance(node, WhileStatement):",
  [("C05", "C05-R1c", "IfStatement:unpatched")])
M("e3-logical-and-no-pop", ["C02", "C05"], CO,
  "                self._emit(OpCode.DUP)\n                jump_false = self._emit_jump(OpCode.JUMP_IF_FALSE)\n                self._emit(OpCode.POP)\n                self._compile_expression(node.right)\n                self._patch_jump(jump_false)",
  "                self._emit(OpCode.DUP)\n                jump_false = self._emit_jump(OpCode.JUMP_IF_FALSE)\n                self._compile_expression(node.right)\n                self._patch_jump(jump_false)",
  [("C05", "C05-R1$", "LogicalExpression")])
M("e3-try-end-dropped", ["C02", "C07"], CO,
  "            self._compile_statement(node.block)\n            self._emit(OpCode.TRY_END)\n", "            self._compile_statement(node.block)\n",
  [("C07", "C07-R4$", "try-end")])
M("e3-set-prop-no-push", ["C02", "C05"], VM,
  "            self._set_property(obj, key, value)\n            self.stack.append(value)\n", "            self._set_property(obj, key, value)\n",
  [("C05", "C05-R1$", "AssignmentExpression|UpdateExpression")])
M("e3-throw-no-depth-restore", ["C02", "C07"], VM,
  "            # Discard operands that were pending when the exception was thrown\n            del self.stack[stack_depth:]\n", "",
  [("C07", "C07-R1", "operand-depth"), ("C02", "C02-R7", "operand-depth")])
M("e3-return-no-truncate", ["C02", "C05"], VM,
  "        del self.stack[popped_frame.bp :]\n", "",
  [("C02", "C02-R6", "ReturnStatement:residues")])
M("e3-return-keeps-handlers", ["C07"], VM,
  "        while self.exception_handlers and self.exception_handlers[-1][0] >= len(\n            self.call_stack\n        ):\n            self.exception_handlers.pop()\n", "",
  [("C07", "C07-R2", "vm:RETURN:handler-records")])
M("e3-loopstack-shared-again", ["C05", "C07"], CO,
  "        self.loop_stack = []\n        self._pending_labels = []\n        self.source_map = {}\n        self._in_function = True\n\n        # Collect all var declarations to know the full locals set\n        local_vars_set = set(self.locals)\n        if isinstance(node.body, BlockStatement):",
  "        self._pending_labels = []\n        self.source_map = {}\n        self._in_function = True\n\n        # Collect all var declarations to know the full locals set\n        local_vars_set = set(self.locals)\n        if isinstance(node.body, BlockStatement):",
  [("C05", "C05-R5", "_compile_arrow_function:state:loop_stack"), ("C07", "C07-R4c", "_compile_arrow_function:state:loop_stack")])
M("e3-finalizer-popped-early", ["C07"], CO,
  "            self._patch_jump(try_start)\n            if node.handler:\n",
  "            self._patch_jump(try_start)\n            if node.handler and node.finalizer:\n                self.loop_stack.pop()\n                self.loop_stack.append(try_ctx)\n            if node.handler:\n",
  [], note="pop immediately followed by a push of the same context is behaviour-preserving: twin-like")
M("e3-try-context-not-pushed", ["C07", "C02"], CO,
  "            try_ctx = LoopContext(is_loop=False, is_try=True, finalizer=node.finalizer)\n            self.loop_stack.append(try_ctx)\n",
  "            try_ctx = LoopContext(is_loop=False, is_try=True, finalizer=node.finalizer)\n            self.loop_stack.append(LoopContext(is_loop=False, is_try=True))\n",
  [("C07", "C07-R(1b|4$)", "."), ("C02", "C02-R11", ".")])
M("e3-handler-flag-not-set", ["C07", "C02"], CO,
  "            try_start = self._emit_jump(OpCode.TRY_START)\n            try_ctx.handler_active = True\n",
  "            try_start = self._emit_jump(OpCode.TRY_START)\n",
  [("C07", "C07-R1b", "handler@node.block"), ("C02", "C02-R11", "handler@node.block")])
M("e3-handler-flag-stays-set", ["C07"], CO,
  "            self._emit(OpCode.TRY_END)\n            try_ctx.handler_active = False\n\n            # Jump past exception handler to normal finally",
  "            self._emit(OpCode.TRY_END)\n\n            # Jump past exception handler to normal finally",
  [("C07", "C07-R1b", "handler@node.handler.body")])
M("e3-forin-declares-no-operand", ["C02", "C05"], CO,
  "            loop_ctx = self._new_loop_context(stack_items=1)  # the iterator\n\n            # Compile object expression",
  "            loop_ctx = self._new_loop_context()\n\n            # Compile object expression",
  [("C02", "C02-R11", "operands@node.body"), ("C05", "C05-R3b", "operands@node.body")])
M("e3-switch-declares-no-operand", ["C02", "C05"], CO,
  "            loop_ctx = LoopContext(is_loop=False, stack_items=1)", "            loop_ctx = LoopContext(is_loop=False)",
  [("C02", "C02-R11", "operands@"), ("C05", "C05-R3b", "operands@")])
M("e3-leave-skips-try-end", ["C07", "C02"], CO,
  "                if ctx.handler_active:\n                    self._emit(OpCode.TRY_END)\n", "",
  [("C07", "C07-R2$", "handler-stack"), ("C02", "C02-R8", "handler-stack")])
M("e3-leave-pops-before-finally", ["C07"], CO,
  "            if ctx.is_try:\n                if ctx.handler_active:\n                    self._emit(OpCode.TRY_END)\n                if ctx.finalizer is not None:",
  "            if ctx.is_try:\n                if ctx.finalizer is not None:",
  [("C07", "C07-R2$", "handler-stack")])
M("e3-leave-finalizer-keeps-own-context", ["C07"], CO,
  "                    self.loop_stack = contexts[:i]\n", "                    self.loop_stack = contexts[: i + 1]\n",
  [("C07", "C07-R4b", "finally-scope")])
M("e3-leave-forgets-pending-return-value", ["C02", "C05"], CO,
  "                    if waiting:\n                        self.loop_stack.append(\n                            LoopContext(\n                                is_loop=False,\n                                is_try=True,\n                                stack_items=waiting,\n                            )\n                        )\n", "",
  [("C02", "C02-R6", "ReturnStatement:crossing"), ("C05", "C05-R3$", "ReturnStatement:crossing")])
M("e3-leave-forgets-operands-of-left-contexts", ["C02"], CO,
  "            else:\n                waiting += ctx.stack_items\n", "",
  [("C02", "C02-R6", "ReturnStatement:crossing")], note="fix 3b8c2ec reverted: return out of for-in through a finally with continue leaks the iterator")
M("e3-leave-stops-at-first-loop", ["C07", "C05"], CO,
  "            if ctx is target:\n                break\n            if ctx.is_try:",
  "            if ctx is target or (target is not None and ctx.is_loop and not ctx.stack_items):\n                break\n            if ctx.is_try:",
  [("C07", "C07-R4b", "finally-scope"), ("C05", "C05-R3$", "crossing")])
M("e3-break-may-target-try", ["C05"], CO,
  "            for loop_ctx in reversed(self.loop_stack):\n                if loop_ctx.is_try:\n                    continue\n                if target_label is not None:",
  "            for loop_ctx in reversed(self.loop_stack):\n                if target_label is not None:",
  [("C05", "C05-R3$", "target")])
M("e3-continue-accepts-label-of-block", ["C05", "C02"], CO,
  "                if not loop_ctx.is_loop:\n                    if target_label is not None and loop_ctx.has_label(target_label):\n                        raise self._syntax_error(\n                            f\"label '{target_label}' does not denote a loop\", node\n                        )\n                    continue\n",
  "                if not loop_ctx.is_loop and not (\n                    target_label is not None and loop_ctx.has_label(target_label)\n                ):\n                    continue\n",
  [("C05", "C05-R1c", "LabeledStatement:ctx:continue_jumps"), ("C02", "C02-R9", "LabeledStatement:ctx:continue_jumps")])
T("t-leave-loop-forwards", ["C02", "C05", "C07"], CO,
  "        for i in range(len(contexts) - 1, -1, -1):\n            ctx = contexts[i]\n            if ctx is target:",
  "        for i in reversed(range(len(contexts))):\n            ctx = contexts[i]\n            if ctx is target:")
M("e3-switch-default-early-jump", ["C05"], CO,
  "                else:\n                    default_index = i\n", "                else:\n                    default_index = i\n                    self._emit_jump(OpCode.JUMP)\n",
  [("C05", "C05-R1", "SwitchStatement")])
M("c05-capture-skip-if-test", ["C05"], CO,
  "            elif isinstance(node, BlockStatement):\n                for stmt in node.body:\n                    visit(stmt)\n            elif hasattr(node, \"__dict__\"):\n                # Every other statement",
  "            elif isinstance(node, BlockStatement):\n                for stmt in node.body:\n                    visit(stmt)\n            elif isinstance(node, IfStatement):\n                visit(node.consequent)\n                if node.alternate:\n                    visit(node.alternate)\n            elif hasattr(node, \"__dict__\"):\n                # Every other statement",
  [("C05", "C05-R4", r"IfStatement\.test")])
M("c05-typeof-order", ["C05"], CO,
  "                    cell_slot = self._get_cell_var(name)\n                    if cell_slot is not None:\n                        self._emit(OpCode.LOAD_CELL, cell_slot)\n                    else:\n                        slot = self._get_local(name)\n                        if slot is not None:\n                            self._emit(OpCode.LOAD_LOCAL, slot)\n                        else:\n                            closure_slot = self._get_free_var(name)\n                            if closure_slot is not None:\n                                self._emit(OpCode.LOAD_CLOSURE, closure_slot)\n                            else:\n                                idx = self._add_name(name)\n                                self._emit(OpCode.LOAD_NAME, idx)\n                    self._compile_expression(node.right)",
  "                    slot = self._get_local(name)\n                    if slot is not None:\n                        self._emit(OpCode.LOAD_LOCAL, slot)\n                    else:\n                        cell_slot = self._get_cell_var(name)\n                        if cell_slot is not None:\n                            self._emit(OpCode.LOAD_CELL, cell_slot)\n                        else:\n                            closure_slot = self._get_free_var(name)\n                            if closure_slot is not None:\n                                self._emit(OpCode.LOAD_CLOSURE, closure_slot)\n                            else:\n                                idx = self._add_name(name)\n                                self._emit(OpCode.LOAD_NAME, idx)\n                    self._compile_expression(node.right)",
  [("C05", "C05-R9", "AssignmentExpression:LOAD_LOCAL")])

# ------------------------------------------------------------------ C03
M("c03-getattr-fallback", ["C03"], VM,
  "            # Built-in Object methods as fallback\n            if key_str in (\"toString\", \"hasOwnProperty\"):\n                return self._make_object_method(obj, key_str)\n            return UNDEFINED",
  "            # Built-in Object methods as fallback\n            if key_str in (\"toString\", \"hasOwnProperty\"):\n                return self._make_object_method(obj, key_str)\n            return getattr(obj, key_str, UNDEFINED)",
  [("C03", "C03-R1", "getattr"), ("C03", "C03-R2", "key_str")])
M("c03-method-lookup-by-name", ["C03"], VM,
  "            if key_str in (\"bind\", \"call\", \"apply\", \"toString\"):\n                return self._make_function_method(obj, key_str)",
  "            if key_str in (\"bind\", \"call\", \"apply\", \"toString\"):\n                return self._make_function_method(obj, key_str)\n            if hasattr(obj, key_str):\n                return getattr(obj, key_str)",
  [("C03", "C03-R1", "attr")])
M("c03-setproto-unguarded", ["C03"], CX,
  "            if proto is NULL:\n                obj._prototype = None\n            elif isinstance(proto, JSObject):\n                obj._prototype = proto\n            else:\n                raise JSTypeError(\"Object prototype may only be an Object or null\")\n",
  "            if proto is NULL:\n                obj._prototype = None\n            else:\n                obj._prototype = proto\n",
  [("C03", "C03-R4", "create_fn")])
M("c03-callable-exposes-more", ["C03"], VM,
  "            if key_str in (\"call\", \"apply\", \"bind\"):\n                return self._make_callable_method(obj, key_str)\n            return UNDEFINED\n\n        return UNDEFINED",
  "            if key_str in (\"call\", \"apply\", \"bind\"):\n                return self._make_callable_method(obj, key_str)\n            if key_str == \"name\":\n                return obj.__name__\n            return UNDEFINED\n\n        return UNDEFINED",
  [("C03", "C03-R5", "callable-branch")])
M("c03-new-raw-result", ["C03", "C11"], VM,
  "            self.stack.append(result if result is not None else UNDEFINED)\n        else:\n            raise JSTypeError(f\"{to_string(constructor)} is not a constructor\")",
  "            self.stack.append(result)\n        else:\n            raise JSTypeError(f\"{to_string(constructor)} is not a constructor\")",
  [("C03", "C03-R3", "_new_object"), ("C11", "C11-R4b", "_new_object")])

# ------------------------------------------------------------------ C04 / C14
M("c04-native-raises-valueerror", ["C04"], VM,
  "            if count < 0 or (args and to_number(args[0]) == math.inf):\n                raise JSRangeError(\"Invalid count value\")", "            if count < 0 or (args and to_number(args[0]) == math.inf):\n                raise ValueError(\"Invalid count value\")",
  [("C04", "C04-R1", "repeat")])
M("c04-to-int32-unguarded", ["C04"], VM,
  "        n = to_number(value)\n        if math.isnan(n) or math.isinf(n) or n == 0:\n            return 0\n        n = int(n)\n        n = n & 0xFFFFFFFF\n        if n >= 0x80000000:",
  "        n = to_number(value)\n        if n == 0:\n            return 0\n        n = int(n)\n        n = n & 0xFFFFFFFF\n        if n >= 0x80000000:",
  [("C04", "C04-R2", "_to_int32")])
M("c04-decoder-misses-new", ["C04", "C14"], VM,
  "                        OpCode.CALL_METHOD,\n                        OpCode.NEW,\n                        OpCode.BUILD_ARRAY,\n                        OpCode.BUILD_OBJECT,\n                        OpCode.BUILD_REGEX,\n                        OpCode.MAKE_CLOSURE,\n                        OpCode.TYPEOF_NAME,\n                    ):\n                        arg = bytecode[frame.ip]\n                        frame.ip += 1\n\n                    self._run_opcode(op, arg, frame)",
  "                        OpCode.CALL_METHOD,\n                        OpCode.BUILD_ARRAY,\n                        OpCode.BUILD_OBJECT,\n                        OpCode.BUILD_REGEX,\n                        OpCode.MAKE_CLOSURE,\n                        OpCode.TYPEOF_NAME,\n                    ):\n                        arg = bytecode[frame.ip]\n                        frame.ip += 1\n\n                    self._run_opcode(op, arg, frame)",
  [("C04", "C04-R3", "NEW"), ("C14", "C14-R3", "NEW")])
M("c04-syntax-error-unpositioned", ["C04"], PA,
  "        return JSSyntaxError(message, self.current.line, self.current.column)", "        return JSSyntaxError(message)",
  [("C04", "C04-R4", "_error")])
M("c14-mask-without-check", ["C14"], CO,
  "                if not 0 <= arg <= 0xFF:\n                    raise JSError(\n                        f\"Function too large: operand {arg} of {opcode.name} exceeds 255 \"\n                        \"(too many constants, variables, arguments or literal elements)\"\n                    )\n                self.bytecode.append(arg)",
  "                self.bytecode.append(arg & 0xFF)",
  [("C14", "C14-R1", "_emit:arg")])
M("c14-patch-jump-unchecked", ["C14"], CO,
  "        if not 0 <= target <= 0xFFFF:\n            raise JSError(\n                f\"Function too large: jump target {target} exceeds the 65535-byte bytecode limit\"\n            )\n        self.bytecode[pos + 1]",
  "        self.bytecode[pos + 1]",
  [("C14", "C14-R1", "_patch_jump:target")])
M("c14-raw-bytecode-write", ["C14"], CO,
  "            self._emit(OpCode.LOAD_UNDEFINED)\n            self._emit(OpCode.RETURN)\n\n        return CompiledFunction(",
  "            self.bytecode.append(OpCode.LOAD_UNDEFINED)\n            self._emit(OpCode.RETURN)\n\n        return CompiledFunction(",
  [("C14", "C14-R2", "compile:writes-bytecode")])

# ------------------------------------------------------------------ C06 / C13
M("c06-plus-assign-sub", ["C06"], CO,
  "                        \">>\": OpCode.SHR,\n                        \">>>\": OpCode.USHR,\n                    }\n                    self._emit(op_map[op])\n\n                self._emit(OpCode.DUP)",
  "                        \">>\": OpCode.SHL,\n                        \">>>\": OpCode.USHR,\n                    }\n                    self._emit(op_map[op])\n\n                self._emit(OpCode.DUP)",
  [("C06", "C06-R1", "compound:>>=")])
M("c06-nan-compare-regress", ["C06"], VM,
  "        if math.isnan(a_num) or math.isnan(b_num):\n            return None", "        if math.isnan(a_num) or math.isnan(b_num):\n            return 1",
  [("C06", "C06-R6", "GT:NaN")])
M("c06-raw-modulo", ["C06"], VM,
  "                self.stack.append(math.fmod(a_num, b_num))", "                self.stack.append(a_num % b_num)",
  [("C06", "C06-R7", "MOD")])
M("c13-precedence-amp", ["C13"], PA, "    \"&\": 5,", "    \"&\": 3,", [("C13", "C13-R3", "PRECEDENCE:order")])
M("c13-minus-right-assoc", ["C13"], PA,
  "            if op == \"**\":\n                right = self._parse_binary_expression(precedence, exclude_in)\n            else:\n                right = self._parse_binary_expression(precedence + 1, exclude_in)\n\n            # Use LogicalExpression",
  "            if op in (\"**\", \"-\"):\n                right = self._parse_binary_expression(precedence, exclude_in)\n            else:\n                right = self._parse_binary_expression(precedence + 1, exclude_in)\n\n            # Use LogicalExpression",
  [("C13", "C13-R3|C13-R4", "associativity|binary-loop")])
M("c13-target-check-dropped", ["C13", "C04"], PA,
  "                # Postfix increment/decrement\n                self._check_reference_target(expr)\n", "                # Postfix increment/decrement\n",
  [("C13", "C13-R1", "_continue_postfix_expression")])
M("c13-comment-eof-accepted", ["C13"], LX,
  "                else:\n                    raise JSSyntaxError(\"Unterminated comment\", self.line, self.column)\n", "",
  [("C13", "C13-R2", "_skip_whitespace")])
M("c13-nonblock-misses-switch", ["C13"], PA,
  "        if self._match(TokenType.SWITCH):\n            return self._parse_switch_statement()\n\n        if self._match(TokenType.FUNCTION):\n            return self._parse_function_declaration()\n\n        # Check for labeled statement: IDENTIFIER COLON statement\n        if self._check(TokenType.IDENTIFIER):\n            if self._peek_next()",
  "        if self._match(TokenType.FUNCTION):\n            return self._parse_function_declaration()\n\n        # Check for labeled statement: IDENTIFIER COLON statement\n        if self._check(TokenType.IDENTIFIER):\n            if self._peek_next()",
  [("C13", "C13-R4", "statement-dispatch")])

# ------------------------------------------------------------------ C07 / C08 / C09 / C10
T("t-rangeerror-clause-folded-into-generic", ["C07"], VM,
  "        except JSRangeError as e:\n            # Convert Python JSRangeError to JavaScript RangeError\n            self._handle_python_exception(\"RangeError\", str(e))\n", "",
  note="the generic JSError clause converts a RangeError under its own name")
M("c07-wrong-constructor-name", ["C07"], VM,
  "self._handle_python_exception(\"ReferenceError\", str(e))", "self._handle_python_exception(\"TypeError\", str(e))",
  [("C07", "C07-R7", "JSReferenceError")])
M("c07-sourcemap-dropped", ["C07"], CO,
  "            cell_vars=self._cell_vars[:],\n            source_map=self.source_map,\n        )\n\n        # Pop outer scope if we pushed it\n        if old_in_function:\n            self._outer_locals.pop()\n\n        # Restore state\n        self.bytecode = old_bytecode\n        self.constants = old_constants\n        self.locals = old_locals\n        self.loop_stack = old_loop_stack\n        self._pending_labels = old_pending_labels\n        self.source_map = old_source_map\n        self._in_function = old_in_function\n        self._free_vars = old_free_vars\n        self._cell_vars = old_cell_vars\n\n        return func\n\n    # ---- Expressions ----",
  "            cell_vars=self._cell_vars[:],\n        )\n\n        # Pop outer scope if we pushed it\n        if old_in_function:\n            self._outer_locals.pop()\n\n        # Restore state\n        self.bytecode = old_bytecode\n        self.constants = old_constants\n        self.locals = old_locals\n        self.loop_stack = old_loop_stack\n        self._pending_labels = old_pending_labels\n        self.source_map = old_source_map\n        self._in_function = old_in_function\n        self._free_vars = old_free_vars\n        self._cell_vars = old_cell_vars\n\n        return func\n\n    # ---- Expressions ----",
  [("C07", "C07-R6", "_compile_function")])
M("c08-in-own-only", ["C08"], VM,
  "            found = False\n            current = obj\n            while isinstance(current, JSObject):\n                if (\n                    current.has(key_str)\n                    or key_str in current._getters\n                    or key_str in current._setters\n                ):\n                    found = True\n                    break\n                current = current._prototype\n            self.stack.append(found)",
  "            self.stack.append(obj.has(key_str))",
  [("C08", "C08-R1", "IN")])
M("c09-main-loop-drops-backref-i", ["C09", "C04"], RV,
  "            elif opcode == Op.BACKREF_I:\n                group_idx = instr[1]\n                if group_idx >= len(captures):\n                    if not stack:\n                        return None\n                    pc, sp, captures, registers = self._backtrack(stack)\n                    continue\n\n                start, end = captures[group_idx]\n                if start == -1 or end == -1:\n                    pc += 1\n                    continue\n\n                captured = string[start:end]\n                if sp + len(captured) > len(string):\n                    if not stack:\n                        return None\n                    pc, sp, captures, registers = self._backtrack(stack)\n                    continue\n\n                if string[sp : sp + len(captured)].lower() == captured.lower():\n                    sp += len(captured)\n                    pc += 1\n                else:\n                    if not stack:\n                        return None\n                    pc, sp, captures, registers = self._backtrack(stack)\n\n            elif opcode == Op.LOOKAHEAD:",
  "            elif opcode == Op.LOOKAHEAD:",
  [("C09", "C09-R1", r"RegexVM\._run:BACKREF_I"), ("C04", "C04-R1", "Unknown opcode")])
M("c10-main-step-limit-dropped", ["C10"], RV,
  "            # Hard step limit for ReDoS protection\n            if step_count > self.step_limit:\n                return None  # Fail gracefully on ReDoS\n", "",
  [("C10", "C10-R2$", r"RegexVM\._run:matcher-loop:step-budget")])
M("c10-star-no-advance-guard", ["C10"], RC,
  "    def _needs_advance_check(self, node: Node) -> bool:", "    def _needs_advance_check_unused(self, node: Node) -> bool:\n        return False\n\n    def _needs_advance_check(self, node: Node) -> bool:\n        if isinstance(node, Group):\n            return False\n        return self._needs_advance_check_impl(node)\n\n    def _needs_advance_check_impl(self, node: Node) -> bool:",
  [("C10", "C10-R4", "_needs_advance_check")])

# ------------------------------------------------------------------ C11 / C12 / C15
M("c11-to-python-aliases-elements", ["C11"], CX,
  "                return [self._to_python(elem, path) for elem in value._elements]", "                return value._elements",
  [("C11", "C11-R1", "_to_python")])
M("c11-to-python-array-branch-after-object", ["C11"], CX,
  "        if isinstance(value, JSArray):\n            path = [] if _path is None else _path\n            self._enter_container(path, value)\n            try:\n                return [self._to_python(elem, path) for elem in value._elements]\n            finally:\n                path.pop()\n        if isinstance(value, JSObject):\n            path = [] if _path is None else _path\n            self._enter_container(path, value)\n            try:\n                return {\n                    k: self._to_python(v, path) for k, v in value._properties.items()\n                }\n            finally:\n                path.pop()\n",
  "        if isinstance(value, JSObject):\n            path = [] if _path is None else _path\n            self._enter_container(path, value)\n            try:\n                return {\n                    k: self._to_python(v, path) for k, v in value._properties.items()\n                }\n            finally:\n                path.pop()\n        if isinstance(value, JSArray):\n            path = [] if _path is None else _path\n            self._enter_container(path, value)\n            try:\n                return [self._to_python(elem, path) for elem in value._elements]\n            finally:\n                path.pop()\n",
  [("C11", "C11-R3", "_to_python:dispatch-order")])
M("c11-args-reversed", ["C11"], VM,
  "        args = []\n        for _ in range(arg_count):\n            args.insert(0, self.stack.pop())\n        callee = self.stack.pop()\n\n        if isinstance(callee, JSFunction):",
  "        args = []\n        for _ in range(arg_count):\n            args.append(self.stack.pop())\n        callee = self.stack.pop()\n\n        if isinstance(callee, JSFunction):",
  [("C11", "C11-R4$", "_call_function")])
M("c12-module-level-cache", ["C12", "C15"], VA,
  "# Singleton instances\nUNDEFINED = JSUndefined()", "_TO_STRING_CACHE = {}\n\n# Singleton instances\nUNDEFINED = JSUndefined()",
  [("C12", "C12-R1", "_TO_STRING_CACHE"), ("C15", "C15-R4", "_TO_STRING_CACHE")])
M("c12-pointer-not-in-finally", ["C12"], CX,
  "        self._current_vm = vm\n        try:\n            result = vm.run(compiled)\n        finally:\n            self._current_vm = outer\n", "        self._current_vm = vm\n        result = vm.run(compiled)\n        self._current_vm = outer\n",
  [("C12", "C12-R3", "_current_vm")])
M("c12-eval-private-globals", ["C12"], CX,
  "                vm = VM(ctx.memory_limit, ctx.time_limit)\n                vm.globals = ctx._globals\n", "                vm = VM(ctx.memory_limit, ctx.time_limit)\n                vm.globals = dict(ctx._globals)\n",
  [("C12", "C12-R4", "eval_fn")])
M("c15-locals-positional", ["C15"], VM,
  "        if compiled.name and compiled.name in compiled.locals:\n            name_slot = compiled.locals.index(compiled.name)",
  "        if compiled.name and compiled.name == compiled.locals[len(compiled.params) + 1 : len(compiled.params) + 2][0:1]:\n            name_slot = compiled.locals.index(compiled.name)",
  [("C15", "C15-R1", "locals")],
  more=[(CO, "        for var in sorted(local_vars_set):", "        for var in local_vars_set:", 2)],
  note="positional use of the locals table, with the table back in set order (since fix cceea8f the table alone is sorted)")
M("c15-message-with-repr", ["C15"], VM,
  "raise JSTypeError(f\"{to_string(callee)} is not a function\")", "raise JSTypeError(f\"{callee} is not a function\")",
  [("C15", "C15-R2", "callee")])
M("c15-clock-in-error", ["C15"], CX,
  "            err.set(\"stack\", \"\")  # Stack trace placeholder", "            err.set(\"stack\", str(time.time()))  # Stack trace placeholder",
  [("C15", "C15-R3", "error_constructor")])

# ------------------------------------------------------------------ C16-C20
M("c16-method-listed-not-implemented", ["C16"], VM,
  "                \"search\",\n                \"toString\",\n            ]\n            if key_str in string_methods:", "                \"search\",\n                \"toString\",\n                \"padStart\",\n            ]\n            if key_str in string_methods:",
  [("C16", "C16-R1", "_make_string_method")])
M("c17-method-unreachable", ["C17"], VM,
  "                \"reverse\",\n                \"includes\",\n                \"sort\",\n            ]\n            if key_str in array_methods:", "                \"reverse\",\n                \"sort\",\n            ]\n            if key_str in array_methods:",
  [("C17", "C17-R1", "_make_array_method")])
M("c17-subarray-drops-offset", ["C17"], VM,
  "            result._byte_offset = arr._byte_offset + begin * arr._element_size\n", "",
  [("C17", "C17-R7", "subarray_fn")])
M("c18-new-unguarded-int", ["C18", "C04"], VM,
  "        def valueOf(*args):\n            return n\n", "        def valueOf(*args):\n            return n\n\n        def toInteger(*args):\n            return int(n)\n",
  [], note="a new native that is not registered in the method table is not script-reachable: the analysis correctly ignores it (twin-like)")
M("c19-loads-default", ["C19"], CX, "                    text, parse_constant=reject_constant, parse_int=decimal_integer\n", "                    text, parse_int=decimal_integer\n", [("C19", "C19-R1", "json.loads")])
M("c19-stringify-host-float-spelling", ["C19"], CX, "                    return to_string(v)\n                if isinstance(v, str):\n                    return json.dumps(v, ensure_ascii=False)", "                    return repr(v)\n                if isinstance(v, str):\n                    return json.dumps(v, ensure_ascii=False)", [("C19", "C19-R1", "number-branch")])
M("c19-stringify-ascii-escapes", ["C19"], CX, "                    return json.dumps(v, ensure_ascii=False)", "                    return json.dumps(v)", [("C19", "C19-R1", "ensure_ascii")])
M("c19-functions-not-omitted", ["C19"], CX, "                    or isinstance(v, (JSFunction, JSCallableObject))\n", "", [("C19", "C19-R5", "object-omission")])
M("c19-guard-pop-not-in-finally", ["C19", "C02"], CX,
  "                enter(v)\n                try:\n                    parts = []\n                    for k, val in v._properties.items():\n                        text = serialize(val)\n                        # properties without a JSON form are left out\n                        if text is not None:\n                            parts.append(json.dumps(k, ensure_ascii=False) + \":\" + text)\n                finally:\n                    path.pop()\n",
  "                parts = []\n                for k, val in v._properties.items():\n                    text = serialize(val)\n                    # properties without a JSON form are left out\n                    if text is not None:\n                        parts.append(json.dumps(k, ensure_ascii=False) + \":\" + text)\n",
  [("C19", "C19-R4$", "self-recursion"), ("C02", "C02-R3b", "serialize:self-recursion")])
T("t-to-integer-inlined", ["C04", "C16"], VM,
  "            idx = to_integer(args[0]) if args else 0\n            if 0 <= idx < len(s):\n                return s[idx]\n            return \"\"",
  "            n_ = to_number(args[0]) if args else 0\n            if n_ != n_ or math.isinf(n_):\n                return \"\" if n_ == n_ else s[:1]\n            idx = int(n_)\n            if 0 <= idx < len(s):\n                return s[idx]\n            return \"\"")
M("c16-charat-raw-int", ["C04", "C16"], VM,
  "            idx = to_integer(args[0]) if args else 0\n            if 0 <= idx < len(s):\n                return s[idx]\n            return \"\"",
  "            idx = int(to_number(args[0])) if args else 0\n            if 0 <= idx < len(s):\n                return s[idx]\n            return \"\"",
  [("C04", "C04-R2", "charAt"), ("C16", "C16-R2", "charAt")])
M("c18-floor-unguarded", ["C04", "C18"], CX,
  "            if x != x or math.isinf(x) or x == 0:\n                return x  # NaN, the infinities and both zeros are their own floor\n            return js_number(math.floor(x))\n", "            return js_number(math.floor(x))\n",
  [("C04", "C04-R2", "floor_fn"), ("C18", "C18-R2", "floor_fn")])
M("c17-array-length-unvalidated", ["C04", "C17"], CX,
  "                arr = JSArray(_array_length(args[0]))", "                arr = JSArray(int(args[0]))",
  [("C04", "C04-R2", "array_constructor"), ("C17", "C17-R2", "array_constructor")])
M("c20-exec-ignores-sticky", ["C20"], RR,
  "            if self._global or self._sticky:\n                self.lastIndex = 0\n            return None\n",
  "            if self._global:\n                self.lastIndex = 0\n            return None\n",
  [("C20", "C20-R8", "RegExp:y:reset")], note="the sticky failure exit no longer resets lastIndex")
M("c20-exec-no-copy-back", ["C20"], VA,
  "        result = self._internal.exec(string)\n        self._store_last_index()\n", "        result = self._internal.exec(string)\n",
  [("C20", "C20-R1", "JSRegExp.exec")])

M("c01-cycle-check-removed", ["C01"], CX,
  "                link = proto\n                while link is not None:\n                    if link is obj:\n                        raise JSTypeError(\"Cyclic __proto__ value\")\n                    link = link._prototype\n                obj._prototype = proto",
  "                obj._prototype = proto",
  [("C01", "C01-R8b", "set_prototype_of")])
M("c20-split-empty-match-spins", ["C20", "C01"], VM,
  "                        pos = last_end if result[0] else result.index + 1\n",
  "                        pos = last_end\n",
  [("C20", "C20-R3$", "split"), ("C01", "C01-R8$", "split")])
M("c01-in-walk-no-advance", ["C01"], VM,
  "                    found = True\n                    break\n                current = current._prototype\n            self.stack.append(found)",
  "                    found = True\n                    break\n                if current._prototype is not None:\n                    current = current._prototype\n            self.stack.append(found)",
  [("C01", "C01-R8$", "isinstance")])

# ------------------------------------------------------------------ twins (must stay silent)
T("t-rename-check-limits", ["C01", "C02"], VM, "_check_limits", "_poll_limits", count=3)
T("t-poll-via-helper", ["C01", "C02"], VM,
  "        while self.call_stack:\n            self._check_limits()\n",
  "        while self.call_stack:\n            self._before_step()\n",
  more=[(VM, "    def _execute(self) -> JSValue:\n", "    def _before_step(self) -> None:\n        self._check_limits()\n\n    def _execute(self) -> JSValue:\n", 1)])
T("t-poll-period-500", ["C01"], VM, "self.instruction_count % 1000 == 0", "self.instruction_count % 500 == 0")
T("t-clock-hoisted", ["C01"], VM,
  "            if time.monotonic() - self.start_time > self.time_limit:\n                raise TimeLimitError(\"Execution timeout\")",
  "            now = time.monotonic()\n            if now - self.start_time > self.time_limit:\n                raise TimeLimitError(\"Execution timeout\")")
T("t-mem-coefficients", ["C02"], VM, "len(self.stack) * 100 + len(self.call_stack) * 200", "len(self.stack) * 64 + len(self.call_stack) * 256")
T("t-reorder-emits-ifstmt", ["C02", "C05"], CO,
  "            self._compile_expression(node.test)\n            jump_false = self._emit_jump(OpCode.JUMP_IF_FALSE)\n\n            self._compile_statement(node.consequent)\n\n            if node.alternate:\n                jump_end = self._emit_jump(OpCode.JUMP)\n                self._patch_jump(jump_false)\n                self._compile_statement(node.alternate)\n                self._patch_jump(jump_end)\n            else:\n                self._patch_jump(jump_false)\n\n        elif isinstance(node, WhileStatement):",
  "            self._compile_expression(node.test)\n            else_jump = self._emit_jump(OpCode.JUMP_IF_FALSE)\n            self._compile_statement(node.consequent)\n            if not node.alternate:\n                self._patch_jump(else_jump)\n            else:\n                end_jump = self._emit_jump(OpCode.JUMP)\n                self._patch_jump(else_jump)\n                self._compile_statement(node.alternate)\n                self._patch_jump(end_jump)\n\n        elif isinstance(node, WhileStatement):")
T("t-void-extra-dup-pop", ["C02", "C05"], CO,
  "                self._compile_expression(node.argument)\n                self._emit(OpCode.POP)  # Discard the argument value\n                self._emit(OpCode.LOAD_UNDEFINED)",
  "                self._compile_expression(node.argument)\n                self._emit(OpCode.DUP)\n                self._emit(OpCode.POP)\n                self._emit(OpCode.POP)  # Discard the argument value\n                self._emit(OpCode.LOAD_UNDEFINED)")
T("t-new-native-guarded", ["C04", "C16"], VM,
  "        def toString(*args):\n            return s\n\n        methods = {\n            \"charAt\": charAt,",
  "        def toString(*args):\n            return s\n\n        def at(*args):\n            n = to_number(args[0]) if args else float(\"nan\")\n            if math.isinf(n):\n                return UNDEFINED\n            idx = 0 if math.isnan(n) else int(n)\n            if idx < 0:\n                idx += len(s)\n            if 0 <= idx < len(s):\n                return s[idx]\n            return UNDEFINED\n\n        methods = {\n            \"at\": at,\n            \"charAt\": charAt,",
  more=[(VM, "            string_methods = [\n                \"charAt\",", "            string_methods = [\n                \"at\",\n                \"charAt\",", 1)])
T("t-rename-local-in-to-python", ["C11"], CX,
  "                return [self._to_python(elem, path) for elem in value._elements]", "                return [self._to_python(item, path) for item in value._elements]")
T("t-literal-getattr", ["C03"], VM, "compiled = getattr(func, \"_compiled\", None)", "compiled = getattr(func, \"_compiled\", None) if hasattr(func, \"_compiled\") else None")
T("t-module-constant", ["C12", "C15"], VA, "# Singleton instances\nUNDEFINED = JSUndefined()", "MAX_SAFE_INTEGER = 9007199254740991\n_TYPE_NAMES = (\"undefined\", \"object\")\n\n# Singleton instances\nUNDEFINED = JSUndefined()")
T("t-precedence-renumbered", ["C13", "C06"], PA,
  "    \"<<\": 8,\n    \">>\": 8,\n    \">>>\": 8,\n    \"+\": 9,\n    \"-\": 9,\n    \"*\": 10,\n    \"/\": 10,\n    \"%\": 10,\n    \"**\": 11,",
  "    \"<<\": 8,\n    \">>\": 8,\n    \">>>\": 8,\n    \"+\": 20,\n    \"-\": 20,\n    \"*\": 30,\n    \"/\": 30,\n    \"%\": 30,\n    \"**\": 40,")
T("t-extra-opcode-comment", ["C14", "C04"], VM, "                # 16-bit little-endian argument for jumps\n", "                # jump targets: two bytes, low byte first\n")
T("t-sorted-set-iteration", ["C15"], CO, "        self._cell_vars = sorted(captured)", "        self._cell_vars = list(sorted(captured))", count=2)
T("t-regex-poll-interval-literal", ["C01", "C10"], RV, "    DEFAULT_POLL_INTERVAL = 100", "    DEFAULT_POLL_INTERVAL = 64")
T("t-translate-message", ["C01"], VM, "raise TimeLimitError(\"Regex execution timeout\")", "raise TimeLimitError(\"Regular expression timed out\")", count=6)

T("t-pop-args-helper", ["C02", "C05", "C07", "C11", "C15"], VM,
  "            args = []\n            for _ in range(arg):\n                args.insert(0, self.stack.pop())\n            method = self.stack.pop()",
  "            args = self._pop_args(arg)\n            method = self.stack.pop()",
  more=[(VM, "    def _call_function(self, arg_count: int, this_val: Optional[JSValue]) -> None:\n", "    def _pop_args(self, arg_count: int) -> List[JSValue]:\n        \"\"\"Pop the topmost arg_count operands, returned in call order.\"\"\"\n        if not arg_count:\n            return []\n        args = self.stack[-arg_count:]\n        del self.stack[-arg_count:]\n        return args\n\n    def _call_function(self, arg_count: int, this_val: Optional[JSValue]) -> None:\n", 1)])
T("t-new-opcode-nop", ["C02", "C04", "C05", "C14"], "src/microjs/opcodes.py",
  "    STORE_CELL = auto()  # Store to cell: arg = cell slot (for outer function)\n", "    STORE_CELL = auto()  # Store to cell: arg = cell slot (for outer function)\n    NOP = auto()  # No operation\n",
  more=[(VM, "        elif op == OpCode.CATCH:\n            # Exception is on stack\n            pass\n", "        elif op == OpCode.CATCH:\n            # Exception is on stack\n            pass\n\n        elif op == OpCode.NOP:\n            pass\n", 1)])
# ------------------------------------------------------------------ rules added after the seeded changes
M("c10-jsregexp-init-no-conversion", ["C10"], VA,
  "        try:\n            self._internal = InternalRegExp(pattern, flags, poll_callback)\n        except RegExpError as e:\n            raise JSSyntaxError(f\"Invalid regular expression: /{pattern}/: {e}\")\n",
  "        self._internal = InternalRegExp(pattern, flags, poll_callback)\n",
  [("C10", "C10-R1$", "regexp_constructor_fn")])
M("c10-test-no-overflow-translation", ["C10"], VM,
  "                return re.test(string)\n            except RegexTimeoutError:\n                raise TimeLimitError(\"Regex execution timeout\")\n            except RegexStackOverflow:\n                raise JSRangeError(\"Regular expression too complex\")\n",
  "                return re.test(string)\n            except RegexTimeoutError:\n                raise TimeLimitError(\"Regex execution timeout\")\n",
  [("C10", "C10-R1b", "test_fn")])
M("c07-generic-handler-swallows-limits", ["C01"], VM,
  "        except (TimeLimitError, MemoryLimitError):\n            raise\n        except JSError as e:",
  "        except JSError as e:",
  [("C01", "C01-R6", "_run_opcode")])
M("c07-syntax-error-not-converted", ["C07", "C19"], VM,
  "        except JSError as e:\n            # Any other engine error raised while running (a SyntaxError from\n            # eval, new Function, JSON.parse or new RegExp, an error from a\n            # nested evaluation) is catchable by an enclosing try/catch\n            if not self.exception_handlers:\n                raise\n            if hasattr(e, \"thrown\"):\n                # What a nested evaluation threw and did not catch: the value\n                # itself goes on to the handler, not an error made from its text\n                self._throw(e.thrown)\n            else:\n                self._handle_python_exception(e.name, e.message)\n",
  "",
  [("C07", "C07-R5", "JSSyntaxError"), ("C19", "C19-R2", "JSSyntaxError")])
M("c09-lookahead-shallow-snapshot", ["C09"], RV,
  "                    (alt_pc, sp, [c.copy() for c in captures], registers.copy())",
  "                    (alt_pc, sp, captures.copy(), registers.copy())",
  [("C09", "C09-R4", "snapshots")], count=1)
M("c09-registers-alias-snapshot", ["C09"], RV,
  "                    (pc + 1, sp, [c.copy() for c in captures], registers.copy())",
  "                    (pc + 1, sp, [c.copy() for c in captures], registers)",
  [("C09", "C09-R4", "snapshots")], count=1)
T("t-snapshot-list-ctor", ["C09"], RV,
  "                    (alt_pc, sp, [c.copy() for c in captures], registers.copy())",
  "                    (alt_pc, sp, [list(c) for c in captures], list(registers))", count=1)
M("c20-copy-in-constant-for-nonglobal", ["C20"], VA,
  "        self._internal.lastIndex = self.lastIndex\n        result = self._internal.test(string)",
  "        self._internal.lastIndex = self.lastIndex if self._internal.global_ else 0\n        result = self._internal.test(string)",
  [("C20", "C20-R1", "JSRegExp.test")],
  more=[(VA, "        if self._internal._global or self._internal._sticky:\n            self.lastIndex = self._internal.lastIndex", "        self.lastIndex = self._internal.lastIndex", 1)],
  note="a constant for non-global regexes is harmless only while the write-back is flag-guarded (see the twin below)")
T("t-copy-in-constant-with-guarded-writeback", ["C20"], VA,
  "        self._internal.lastIndex = self.lastIndex\n        result = self._internal.test(string)",
  "        self._internal.lastIndex = self.lastIndex if self._internal._global or self._internal._sticky else 0\n        result = self._internal.test(string)")
T("t-copy-in-clamped-for-global-only", ["C20"], VA,
  "        self._internal.lastIndex = self.lastIndex\n        result = self._internal.test(string)",
  "        if self._internal.global_ or self._internal.sticky:\n            self._internal.lastIndex = max(0, self.lastIndex) if self.lastIndex == self.lastIndex else 0\n        else:\n            self._internal.lastIndex = self.lastIndex\n        result = self._internal.test(string)")
M("c04-reduce-stale-bound", ["C04", "C17"], VM,
  "                if i >= len(arr._elements):\n                    break  # the callback shortened the array\n",
  "",
  [("C04", "C04-R6", "reduce_fn"), ("C17", "C17-R9", "reduce_fn")])
T("t-reduce-guard-wraps-body", ["C04", "C17"], VM,
  "                if i >= len(arr._elements):\n                    break  # the callback shortened the array\n                elem = arr._elements[i]\n                acc = vm._call_callback(callback, [acc, elem, i, arr])\n",
  "                if i < len(arr._elements):\n                    elem = arr._elements[i]\n                    acc = vm._call_callback(callback, [acc, elem, i, arr])\n")
M("c07-catch-handler-pops-record", ["C07"], VM,
  "        elif op == OpCode.CATCH:\n            # Exception is on stack\n            pass\n",
  "        elif op == OpCode.CATCH:\n            # Exception is on stack\n            if self.exception_handlers:\n                self.exception_handlers.pop()\n",
  [("C07", "C07-R2c", "CATCH")])
M("c17-cached-elements-alias", ["C17"], VM,
  "        def forEach_fn(*args):\n",
  "        elements = arr._elements\n\n        def forEach_fn(*args):\n",
  [("C17", "C17-R8", "field-alias")],
  more=[(VM, "            for i in range(len(arr._elements)):\n                if i < len(arr._elements):\n                    yield i, arr._elements[i]\n", "            for i in range(len(elements)):\n                if i < len(elements):\n                    yield i, elements[i]\n", 1)])
M("c02-arrow-forgets-loop-stack", ["C02", "C05", "C07"], CO,
  "        self.loop_stack = old_loop_stack\n        self._pending_labels = old_pending_labels\n        self.source_map = old_source_map\n        self._in_function = old_in_function\n        self._free_vars = old_free_vars",
  "        self._pending_labels = old_pending_labels\n        self.source_map = old_source_map\n        self._in_function = old_in_function\n        self._free_vars = old_free_vars",
  [("C02", "C02-R10", "loop_stack"), ("C05", "C05-R5", "loop_stack"), ("C07", "C07-R4c", "loop_stack")], count=2)

# ------------------------------------------------------------------ seeded changes (independent authors)
S("seed-C01-a", ["C01"], "seeded/C01-a/patch.diff", [("C01", "C01-R6", "_call_callback")])
S("seed-C01-b", ["C01"], "seeded/C01-b/patch.diff", [("C01", "C01-R9", "start_time")], silent=["C15"], note="C15 must stay silent: the helper only compares the clock")
S("seed-C02-a", ["C02"], "seeded/C02-a/patch.diff", [("C02", "C02-R13", "_throw")], note="the running frame-bytes total is now read as a companion counter of the call stack (C02-R1 accepts it); the unwinding pop that never gives bytes back is C02-R13")
S("seed-C02-b", ["C02"], "seeded/C02-b/patch.diff", [("C02", "C02-R10", "_has_pending_state")])
S("seed-C03-a", ["C03"], "seeded/C03-a/patch.diff", [("C03", "C03-R3b", "this_val")])
S("seed-C04-a", ["C04", "C14"], "seeded/C04-a/patch.diff", [("C04", "C04-R3", "decoder"), ("C14", "C14-R3", "decoder")])
S("seed-C05-a", ["C05"], "seeded/C05-a/patch.diff", [("C05", "C05-R3", "ContinueStatement:crossing")])
S("seed-C05-b", ["C05"], "seeded/C05-b/patch.diff", [("C05", "C05-R4", "conditional")])
S("seed-C06-a", ["C06"], "seeded/C06-a/patch.diff", [("C06", "C06-R4", "_to_u?int32")])
S("seed-C07-a", ["C07"], "seeded/C07-a/patch.diff", [("C07", "C07-R4b", "finally-scope")])
S("seed-C07-b", ["C07"], "seeded/C07-b/patch.diff", [("C07", "C07-R2c", "TRY_START")])
S("seed-C08-a", ["C08"], "seeded/C08-a/patch.diff", [("C08", "C08-R7", "_chain")])
S("seed-C10-a", ["C10"], "seeded/C10-a/patch.diff", [("C10", "C10-R2a", "matcher-loop")])
S("seed-C11-a", ["C11"], "seeded/C11-a/patch.diff", [("C11", "C11-R5b", "seen-set-scope")])
S("seed-C12-a", ["C12"], "seeded/C12-a/patch.diff", [("C12", "C12-R3", "_current_vm|_vm")])
S("seed-C13-a", ["C13"], "seeded/C13-a/patch.diff", [("C13", "C13-R10", "_skip_whitespace")], silent=["C04"], note="the search for */ starts inside the opener /*: /*/ is a complete comment")
M("c13-block-comment-opener-half-consumed", ["C13"], "src/microjs/lexer.py",
  "                self._advance()  # /\n                self._advance()  # *\n                while self.pos < self.length:",
  "                self._advance()  # /\n                while self.pos < self.length:",
  [("C13", "C13-R10", "_skip_whitespace")], note="the loop form of the same slip")
S("seed-C14-a", ["C14"], "seeded/C14-a/patch.diff", [("C14", "C14-R1", "16-bit")])
S("seed-C15-a", ["C05"], "seeded/C15-a/patch.diff", [("C05", "C05-R10", "num_locals")], silent=["C15"], note="obsolete as a C15 seed since fix cceea8f (sorted slot numbers): the positional fill now misbehaves identically under every hash seed, a C05 defect")
# seed-C16-a is obsolete: the three template expansions it merged were replaced by expand_replacement (fix 5f9722b)
M("c16-template-expanded-by-replace-passes", ["C16", "C20"], VM,
  "                    repl = replacement_for(replacer, replacement, search, [], idx)\n",
  "                    repl = replacement.replace(\"$$\", \"\\x00\").replace(\"$&\", search).replace(\"\\x00\", \"$\")\n",
  [("C16", "C16-R8", "replace"), ("C20", "C20-R7", "replace")], note="fix 5f9722b reverted for string patterns")
S("seed-C17-a", ["C17"], "seeded/C17-a/patch.diff", [("C17", "C17-R8", "field-alias")], silent=["C04"], note="C04 must stay silent")
S("seed-C18-a", ["C18"], "seeded/C18-a/patch.diff", [], note="documented gap: the exponent threshold is a numeric constant")
S("seed-C19-a", ["C19"], "seeded/C19-a/patch.diff", [("C19", "C19-R4b", "guard-state")])
S("seed-C20-a", ["C20"], "seeded/C20-a/patch.diff", [("C20", "C20-R1", "sync")], silent=["C04"], note="C04 must stay silent: the int() operand is guarded against NaN and both infinities")

# ------------------------------------------------------------------ throw across a native boundary (protocol of fix 4d3e914)
M("c07-boundary-not-published", ["C07", "C05"], VM,
  "            self._callback_depths.append(call_stack_len)\n", "            self._callback_depths.append(0)\n",
  [("C07", "C07-R3$", "unwound-below"), ("C05", "C05-R7", "unwound-below")])
M("c07-boundary-compare-inclusive", ["C07"], VM,
  "                and self.exception_handlers[-1][0] < self._callback_depths[-1]\n", "                and self.exception_handlers[-1][0] <= self._callback_depths[-1]\n",
  [("C07", "C07-R3$", "unwound-below")])
M("c07-call-reenters-full-loop-again", ["C07", "C08"], VM,
  "        # Run the function to completion (and only the function)\n        return self._call_callback(func, args, this_val)\n",
  "        self._invoke_js_function(func, args, this_val)\n        return self._execute()\n",
  [("C07", "C07-R3$", "reenters-full-loop"), ("C08", "C08-R6", "reenters-full-loop")])
M("c07-signal-swallowed-by-native", ["C07"], VM,
  "            for i, elem in visited_elements():\n                vm._call_callback(callback, [elem, i, arr], this_arg)\n            return UNDEFINED\n",
  "            for i, elem in visited_elements():\n                try:\n                    vm._call_callback(callback, [elem, i, arr], this_arg)\n                except Exception:\n                    break\n            return UNDEFINED\n",
  [("C07", "C07-R3c", "forEach_fn")])
M("c04-signal-not-caught-by-wrapper", ["C04", "C07"], VM,
  "        except _PendingThrow as pending:\n            # A callback run by a native threw past it: the native is unwound,\n            # look for the handler again from this run loop\n            self._throw(pending.value)\n",
  "",
  [("C04", "C04-R1", "_PendingThrow"), ("C07", "C07-R3c", "contained")])
M("c04-signal-pop-not-in-finally", ["C04", "C07"], VM,
  "                    self._run_opcode(op, arg, frame)\n            finally:\n                self._callback_depths.pop()\n                self.host_depth[0] -= 1\n",
  "                    self._run_opcode(op, arg, frame)\n            except JSError:\n                raise\n            self._callback_depths.pop()\n            self.host_depth[0] -= 1\n",
  [("C04", "C04-R1", "_PendingThrow"), ("C07", "C07-R3c", "contained")])
T("t-run-opcode-inlined-in-execute", ["C01", "C02", "C07"], VM,
  "            self._run_opcode(op, arg, frame)\n\n            # Check if frame was popped (return)",
  "            try:\n                self._execute_opcode(op, arg, frame)\n            except _PendingThrow as pending:\n                self._throw(pending.value)\n            except JSTypeError as e:\n                self._handle_python_exception(\"TypeError\", str(e))\n            except JSReferenceError as e:\n                self._handle_python_exception(\"ReferenceError\", str(e))\n            except JSRangeError as e:\n                self._handle_python_exception(\"RangeError\", str(e))\n            except (TimeLimitError, MemoryLimitError):\n                raise\n            except JSError as e:\n                if not self.exception_handlers:\n                    raise\n                if hasattr(e, \"thrown\"):\n                    self._throw(e.thrown)\n                else:\n                    self._handle_python_exception(e.name, e.message)\n\n            # Check if frame was popped (return)")

M("c10-compile-budget-dropped", ["C10"], RC,
  "        self.nodes_compiled += 1\n        if self.nodes_compiled > self.MAX_PROGRAM_SIZE:\n            raise RegExpError(\"Regular expression too large\")\n", "",
  [("C10", "C10-R3", "range")])
M("c10-compile-budget-reset-in-recursion", ["C10"], RC,
  "        \"\"\"Compile {n,} quantifier.\"\"\"\n", "        \"\"\"Compile {n,} quantifier.\"\"\"\n        self.nodes_compiled = 0\n",
  [("C10", "C10-R3", "range")])
T("t-compile-budget-constant", ["C10"], RC, "    MAX_PROGRAM_SIZE = 100000\n", "    MAX_PROGRAM_SIZE = 50000\n")

M("c03-new-links-unchecked-prototype", ["C03"], VM,
  "            proto = getattr(constructor, \"_prototype\", None)\n            if isinstance(proto, JSObject):\n                obj._prototype = proto\n",
  "            obj._prototype = constructor._prototype\n",
  [("C03", "C03-R4", "_new_object")])
M("c08-function-writes-dropped-again", ["C08"], VM,
  "            else:\n                obj._properties[key_str] = value\n\n    def _function_prototype", "            else:\n                pass\n\n    def _function_prototype",
  [("C08", "C08-R2", "JSFunction:every-path-writes")])

M("c18-to-number-without-grammar", ["C18", "C04"], VA,
  "        if not _DECIMAL_LITERAL.match(s):\n            return float(\"nan\")\n", "",
  [("C04", "C04-R2", "to_number"), ("C18", "C18-R4", "to_number")])
M("c18-to-string-host-repr", ["C18"], VA,
  "        return _float_to_string(value)\n", "        return repr(value)\n",
  [("C18", "C18-R4", "to_string")])

# ------------------------------------------------------------------ one matcher loop for patterns and lookaround bodies (fix 7133da3)
M("c09-lookahead-body-shares-captures", ["C09"], RV,
  "                inner = self._run(string, pc + 1, sp, [c.copy() for c in captures])\n                if inner is not None:\n                    captures = inner[1]",
  "                inner = self._run(string, pc + 1, sp, captures)\n                if inner is not None:\n                    captures = inner[1]",
  [("C09", "C09-R4", "snapshots")])
T("t-regex-poll-helper", ["C01", "C10"], RV,
  "            self._steps_since_start += 1\n            if self._steps_since_start % self.poll_interval == 0:\n                if self.poll_callback and self.poll_callback():\n                    raise RegexTimeoutError(\"Regex execution timed out\")\n",
  "            self._poll()\n",
  more=[(RV, "    def _backtrack(self, stack: List[Tuple]) -> Tuple:\n", "    def _poll(self) -> None:\n        self._steps_since_start += 1\n        if self._steps_since_start % self.poll_interval == 0:\n            if self.poll_callback and self.poll_callback():\n                raise RegexTimeoutError(\"Regex execution timed out\")\n\n    def _backtrack(self, stack: List[Tuple]) -> Tuple:\n", 1)],
  note="counting and polling moved into a helper that keeps the cross-run counter")
M("c10-lookbehind-accepts-any-end", ["C09"], RV,
  "                if must_end_at is not None and sp != must_end_at:\n", "                if False:\n",
  [], note="value-level: which end position a lookbehind accepts is matching semantics, not decided statically")
M("c09-lookbehind-attempts-share-captures", ["C09"], RV,
  "                string, start_pc, start_pos, [c.copy() for c in captures], end_pos\n",
  "                string, start_pc, start_pos, captures, end_pos\n",
  [("C09", "C09-R4", "_run_lookbehind:snapshots")])

# ------------------------------------------------------------------ regex deadlines belong to the running evaluation (fix 35564e0)
M("c12-test-does-not-adopt", ["C12"], VM,
  "            string = to_string(args[0]) if args else \"undefined\"\n            self._adopt_regex(re)\n            try:\n                return re.test(string)",
  "            string = to_string(args[0]) if args else \"undefined\"\n            try:\n                return re.test(string)",
  [("C12", "C12-R5", "test_fn|JSRegExp deadline")])
M("c12-replace-uses-stored-callback", ["C12"], VM,
  "            internal = self._adopt_regex(regex)\n", "            internal = regex._internal\n",
  [("C12", "C12-R5", "unadopted|JSRegExp deadline")])
M("c01-deadline-factory-ignores-limit", ["C01"], VM,
  "        def check_timeout() -> bool:\n            \"\"\"Return True if time limit exceeded (to abort regex).\"\"\"\n            return time.monotonic() - self.start_time > self.time_limit\n\n        return check_timeout\n",
  "        def check_timeout() -> bool:\n            \"\"\"Return True if time limit exceeded (to abort regex).\"\"\"\n            return False\n\n        return check_timeout\n",
  [("C01", "C01-R4", ".")])
M("c01-adopt-installs-nothing", ["C01", "C12"], VM,
  "        regex._internal.set_poll_callback(self._deadline_callback())\n", "        regex._internal.set_poll_callback(None)\n",
  [("C12", "C12-R5", "JSRegExp deadline"), ("C01", "C01-R4", "adopt")])
T("t-adopt-inline-assignment", ["C01", "C12"], VM,
  "        regex._internal.set_poll_callback(self._deadline_callback())\n", "        regex._internal._poll_callback = self._deadline_callback()\n")

# the cached-deadline refactoring of seed C01-b done RIGHT: nested interpreters refresh the cached deadline too
TWINS.append(dict(id="t-cached-deadline-kept-coherent", props=["C01", "C12", "C15"], patch="seeded/C01-b/patch.diff", note="seed C01-b plus the missing refresh of the cached deadline wherever start_time is inherited",
                  edits=[(CX, "                    vm.start_time = self._current_vm.start_time\n", "                    vm.start_time = self._current_vm.start_time\n                    vm.deadline = self._current_vm.deadline\n", 1),
                         (CX, "                    vm.start_time = ctx._current_vm.start_time\n", "                    vm.start_time = ctx._current_vm.start_time\n                    vm.deadline = ctx._current_vm.deadline\n", 1),
                         (CX, "            vm.start_time = self._current_vm.start_time\n            vm.host_depth = self._current_vm.host_depth\n            vm._poll_deadline()\n        else:\n            vm.start_time = time.monotonic()\n", "            vm.start_time = self._current_vm.start_time\n            vm.deadline = self._current_vm.deadline\n            vm.host_depth = self._current_vm.host_depth\n            vm._poll_deadline()\n        else:\n            vm._start_clock()\n", 1)]))

# ------------------------------------------------------------------ host-stack budget (fix 094d6a2)
M("c02-callback-not-counted", ["C02"], VM,
  "            self._enter_host_level()\n            self._callback_depths.append(call_stack_len)\n", "            self.host_depth[0] += 1\n            self._callback_depths.append(call_stack_len)\n",
  [("C02", "C02-R3$", "_call_callback:reentrant")])
M("c02-host-budget-never-released", ["C02"], VM,
  "        self._enter_host_level()\n        try:\n            return self._execute()\n        finally:\n            self.host_depth[0] -= 1\n",
  "        self._enter_host_level()\n        return self._execute()\n",
  [], note="a budget that is charged but not released: a VM runs once, so nothing observable follows; not decided")
# wave 3 (written against the repaired tree)
S("seed-C07-c", ["C07"], "seeded/C07-c/patch.diff", [("C07", "C07-R2$", "handler-stack")], note="return keeps the handler record of a try without finally")

# ---- front-end progress (C04-R5 / C10-R5) ----
RPA = "src/microjs/regex/parser.py"
M("fp-lexer-whitespace-no-advance", ["C04"], LX,
  "            if ch in \" \\t\\r\\n\":\n                self._advance()\n                continue\n",
  "            if ch in \" \\t\\r\\n\":\n                continue\n",
  [("C04", "C04-R5", "_skip_whitespace:while")], note="whitespace loop spins")
M("fp-lexer-operator-not-consumed", ["C04"], LX,
  "        # Operators and punctuation\n        self._advance()\n",
  "        # Operators and punctuation\n",
  [("C04", "C04-R5", "next_token:consumes-or-end-token")], note="next_token hands out an operator token without moving: every parser loop spins")
M("fp-parser-nested-array-no-advance", ["C04"], PA,
  "            elif self._check(TokenType.LBRACKET):\n                # Nested array - go deeper\n                self._advance()\n",
  "            elif self._check(TokenType.LBRACKET):\n                # Nested array - go deeper\n",
  [("C04", "C04-R5", "_parse_nested_arrays:while")])
M("fp-parser-paren-count-no-advance", ["C04"], PA,
  "                if self._is_arrow_function_params():\n                    break\n                self._advance()\n                paren_depth += 1\n",
  "                if self._is_arrow_function_params():\n                    break\n                paren_depth += 1\n",
  [("C04", "C04-R5", "_parse_primary_expression:while")])
M("fp-parser-left-recursion", ["C04"], PA,
  "        expr = self._parse_binary_expression(0, exclude_in)\n\n        if self._match(TokenType.QUESTION):",
  "        expr = self._parse_assignment_expression(exclude_in)\n\n        if self._match(TokenType.QUESTION):",
  [("C04", "C04-R5", "left-recursion")])
M("fp-regex-alternative-guard-continues", ["C04", "C10"], RPA,
  "                # Unknown character - skip to prevent infinite loop\n                break\n",
  "                # Unknown character - skip to prevent infinite loop\n                continue\n",
  [("C04", "C04-R5", "_parse_alternative:while"), ("C10", "C10-R5", "_parse_alternative:while")])
M("fp-regex-class-char-no-advance", ["C10"], RPA,
  "            # Literal escape\n            return escaped\n\n        self._advance()\n        return ch\n",
  "            # Literal escape\n            return escaped\n\n        return ch\n",
  [("C10", "C10-R5", "_parse_char_class:while")])
M("fp-regex-index-loop-stalls", ["C10"], RPA,
  "        while i < len(self.pattern) and _is_digit(self.pattern[i]):\n            i += 1\n        if i == self.pos + 1:",
  "        while i < len(self.pattern) and _is_digit(self.pattern[i]):\n            i += 0\n        if i == self.pos + 1:",
  [("C10", "C10-R5", "_is_quantifier_start:while")])
T("t-fp-lexer-length-spelled-out", ["C04"], LX,
  "        while self.pos < self.length:\n            ch = self._current()\n\n            # Whitespace",
  "        while self.pos < len(self.source):\n            ch = self._current()\n\n            # Whitespace")
T("t-fp-regex-advance-early-return", ["C04", "C10"], RPA,
  "        if self.pos < len(self.pattern):\n            ch = self.pattern[self.pos]\n            self.pos += 1\n            return ch\n        return None\n",
  "        if self.pos >= len(self.pattern):\n            return None\n        ch = self.pattern[self.pos]\n        self.pos += 1\n        return ch\n")
T("t-fp-parser-match-early-return", ["C04"], PA,
  "        if self._check(*types):\n            self._advance()\n            return True\n        return False\n",
  "        if not self._check(*types):\n            return False\n        self._advance()\n        return True\n")
T("t-fp-parser-paren-depth-truthiness", ["C04"], PA,
  "            if paren_depth == 0:\n                # The first paren was an arrow function",
  "            if not paren_depth:\n                # The first paren was an arrow function")
S("seed-C10-b", ["C10"], "seeded/C10-b/patch.diff", [("C10", "C10-R5", "_count_capture_groups:while")], silent=[], note="pre-scan loop adds 1 to a str.find result that may be -1")
S("seed-C17-b", ["C17"], "seeded/C17-b/patch.diff", [("C17", "C17-R10", "reduce_fn:alias-across-callback")], silent=["C04"], note="local alias of arr._elements kept across the callback")
# seed-C03-b (and C03-d, same idea) are obsolete: replace() calls replacer functions itself since fix b54eda3; the slip lives on as mutant c03-replacer-gets-raw-captures
S("seed-C08-b", ["C08"], "seeded/C08-b/patch.diff", [("C08", "C08-R8", "_execute_opcode:typeof")], note="typeof-based objectness test accepts null")
M("c15-cells-indexed-by-wrong-table", ["C05"], VM,
  "                            idx = frame.func.free_vars.index(var_name)\n                            closure_cells.append(frame.closure_cells[idx])",
  "                            idx = compiled_func.free_vars.index(var_name)\n                            closure_cells.append(frame.closure_cells[idx])",
  [("C05", "C05-R11", "index:frame.closure_cells")], note="position looked up in the child's table, used in the parent's cells")
M("c15-cell-storage-from-free-vars", ["C05"], VM,
  "            for var_name in compiled.cell_vars:\n                # Find the initial value from locals",
  "            for var_name in compiled.free_vars:\n                # Find the initial value from locals",
  [("C05", "C05-R11", "")], note="cell storage built from the wrong name table")
T("t-c15-bind-copies-cells-first", ["C15", "C05"], VM,
  "            # Copy compiled function reference\n            if hasattr(func, \"_compiled\"):\n                bound_func._compiled = func._compiled\n            # Copy closure cells\n            if hasattr(func, \"_closure_cells\"):\n                bound_func._closure_cells = func._closure_cells\n",
  "            # Copy closure cells\n            if hasattr(func, \"_closure_cells\"):\n                bound_func._closure_cells = func._closure_cells\n            # Copy compiled function reference\n            if hasattr(func, \"_compiled\"):\n                bound_func._compiled = func._compiled\n")
S("seed-C02-c", ["C02"], "seeded/C02-c/patch.diff", [("C02", "C02-R3c", "host_depth:binding")], note="host-depth counter turned into an int: nested interpreters copy the outermost value")
M("c02-nested-vm-does-not-adopt-depth", ["C02"], CX,
  "            vm.start_time = self._current_vm.start_time\n            vm.host_depth = self._current_vm.host_depth\n            vm._poll_deadline()\n        else:",
  "            vm.start_time = self._current_vm.start_time\n            vm._poll_deadline()\n        else:",
  [("C02", "C02-R3c", "adopts-host_depth")], note="host-driven call path no longer counts its nesting")

ALL_PROPS = ["C%02d" % i for i in range(1, 21)]
TP("t-context-vm-factory-refactor", ALL_PROPS, "selftest/patches/t-context-vm-factory-refactor.diff",
   note="interpreter creation moved into Context._new_vm, the current-VM pointer managed by a try/finally context manager (the repaired form of seed C12-b)")
S("seed-C12-b", ["C12"], "seeded/C12-b/patch.diff", [("C12", "C12-R3", "_running:_current_vm")], silent=["C01", "C04", "C07", "C02"], note="current-VM pointer restored by a context manager without try/finally")
S("seed-C19-b", ["C19"], "seeded/C19-b/patch.diff", [("C19", "C19-R4", "serialize")], note="array members serialised before the cycle guard is entered")
S("seed-C05-c", ["C05"], "seeded/C05-c/patch.diff", [("C05", "C05-R3", "")], note="")
S("seed-C09-b", ["C09"], "seeded/C09-b/patch.diff", [("C09", "C09-R4", "")], note="")
S("seed-C20-b", ["C20"], "seeded/C20-b/patch.diff", [("C20", "C20-R2", "")], note="")
M("c02-call-wrapper-uncounted", ["C02"], VM,
  "            self._enter_host_level()\n            try:\n                # JSBoundMethod expects this as first arg",
  "            try:\n                self.host_depth[0] += 1\n                # JSBoundMethod expects this as first arg",
  [("C02", "C02-R3d", "call_fn")], note="fix 8c4e172 reverted in spirit: the level is counted but never checked against the budget")
M("c02-bind-wraps-bound-host-function", ["C02"], VM,
  "            if isinstance(fn, _BoundHostFunction):\n",
  "            if False and isinstance(fn, _BoundHostFunction):\n",
  [("C02", "C02-R3d", "_BoundHostFunction.__call__")], note="bind no longer flattens: chains of bound host functions nest")
M("c08-bind-does-not-flatten", ["C08"], VM,
  "                target = func._original_func\n                bound_this = func._bound_this\n                bound_args = list(func._bound_args) + bound_args\n",
  "                pass\n",
  [("C08", "C08-R9", "bind-of-bound")], note="fix 46bea00 disabled")
M("c10-ord-of-upper", ["C10", "C04"], "src/microjs/regex/vm.py",
  "ch_upper = _case_code(ch, ch.upper())", "ch_upper = ord(ch.upper())",
  [("C10", "C10-R6", "ord"), ("C04", "C04-R2c", "ord")], count=2, note="fix bed597f reverted at the class handlers")
M("c04-parseint-any-letter", ["C04"], CX,
  "            elif ch.isascii() and ch.isalpha():\n                digit = ord(ch.lower())", "            elif ch.isalpha():\n                digit = ord(ch.lower())",
  [("C04", "C04-R2c", "_global_parseint")], note="fix 69320de reverted")
M("c20-lastindex-raw-into-engine", ["C20"], VA,
  "        return max(0, to_integer(self.get(\"lastIndex\")))", "        return self.get(\"lastIndex\") or 0",
  [("C20", "C20-R1", "engine-receives-a-position")], note="fix dc5d38a reverted (conversion)")
M("c20-writeback-unconditional", ["C20"], VA,
  "        if self._internal._global or self._internal._sticky:\n            self.lastIndex = self._internal.lastIndex", "        self.lastIndex = self._internal.lastIndex",
  [], note="unconditional write-back alone is harmless when the engine preserves lastIndex for non-global regexes (C20-R1 only objects in combination with a flag-dependent constant)")
T("t-c20-ord-guarded-by-length", ["C04", "C10"], "src/microjs/regex/vm.py",
  "    return ord(mapped) if len(mapped) == 1 else ord(ch)", "    if len(mapped) == 1:\n        return ord(mapped)\n    return ord(ch)")
M("c07-derived-error-without-parent", ["C07"], CX,
  "            self._globals[error_name] = self._create_error_constructor(\n                error_name, error_constructor.get(\"prototype\")\n            )",
  "            self._globals[error_name] = self._create_error_constructor(error_name)",
  [("C07", "C07-R8", "_setup_globals")], note="fix 60b29da reverted at the registrations")
M("c07-uncaught-name-dropped", ["C07"], VM,
  "                    name if isinstance(name, str) and name else \"Error\",\n", "",
  [("C07", "C07-R9", "uncaught-object")], note="fix a3da203 reverted")

M("c15-slots-in-set-order-again", ["C15"], CO,
  "        for var in sorted(local_vars_set):", "        for var in local_vars_set:",
  [("C15", "C15-R1d", "_emit:message")], count=2, note="fix cceea8f reverted for locals (both function compilers): the slot number printed by the too-large error depends on the hash seed again")
T("t-c15-sorted-with-key", ["C15", "C05"], CO,
  "        for var in sorted(local_vars_set):", "        for var in sorted(local_vars_set, key=str):", count=2)
M("c13-lexer-unicode-digits", ["C13", "C04"], LX,
  "        while self._current() and _is_digit(self._current()):\n            self._advance()\n\n        # Decimal point",
  "        while self._current() and self._current().isdigit():\n            self._advance()\n\n        # Decimal point",
  [("C13", "C13-R6", "_read_number"), ("C04", "C04-R7", "_read_number")], note="fix 0f614d1 reverted at one scanner loop")
M("c18-parsefloat-host-digit-class", ["C18"], VA,
  "_DECIMAL = r\"[+-]?(?:Infinity|(?:[0-9]+\\.?[0-9]*|\\.[0-9]+)(?:[eE][+-]?[0-9]+)?)\"", "_DECIMAL = r\"[+-]?(?:Infinity|(?:\\d+\\.?\\d*|\\.\\d+)(?:[eE][+-]?\\d+)?)\"",
  [("C18", "C18-R5", "_DECIMAL")], note="the decimal grammar written with the host's \\d, which is true for the digits of every script (the slip of 0f614d1 in the pattern that parseFloat and ToNumber now share)")
M("c08-index-by-int-only", ["C08", "C17"], VM,
  "        if isinstance(obj, str):\n            # String character access\n            idx = array_index(key_str)\n            if idx is not None and idx < len(obj):\n                return obj[idx]\n",
  "        if isinstance(obj, str):\n            # String character access\n            try:\n                idx = int(key_str)\n                if 0 <= idx < len(obj):\n                    return obj[idx]\n            except ValueError:\n                pass\n",
  [("C08", "C08-R10", "int"), ("C17", "C17-R11", "int")], note="fix cd3a517 reverted for string element reads")
T("t-c13-digit-helper-inline", ["C13", "C04", "C10"], LX,
  "    return len(ch) == 1 and \"0\" <= ch <= \"9\"", "    return len(ch) == 1 and ch in \"0123456789\"")
TP("t-parser-lookahead-contextmanager", ALL_PROPS, "selftest/patches/t-parser-lookahead-contextmanager.diff",
   note="the three look-ahead helpers share a try/finally context manager (the repaired form of seed C04-b)")
TP("t-parser-mark-reset", ALL_PROPS, "selftest/patches/t-parser-mark-reset.diff",
   note="look-ahead through _mark()/_reset(mark) helpers, restored on the handler path too (the repaired form of seed C13-b)")
TP("t-conversion-guard-contextmanager", ALL_PROPS, "selftest/patches/t-conversion-guard-contextmanager.diff",
   note="the cycle/depth guard of the boundary converters as a try/finally context manager over an identity-keyed dict (the repaired form of seed C11-b)")
TP("t-compiler-one-jump-emitter", ALL_PROPS, "selftest/patches/t-compiler-one-jump-emitter.diff",
   note="every jump (also the loops' back edges) goes through _emit_jump, which range-checks a known target (the repaired form of seed C14-b)")
# wave 4 (written against the tree of fix cceea8f)
S("seed-C01-c", ["C01"], "seeded/C01-c/patch.diff", [("C01", "C01-R2", "TimeLimitError")], note="instruction counter advanced by more than one: the modulo-gated clock poll can be skipped for ever")
S("seed-C04-b", ["C04"], "seeded/C04-b/patch.diff", [("C04", "C04-R8", "_lookahead")], note="look-ahead context manager restores after a bare yield")
S("seed-C06-b", ["C06"], "seeded/C06-b/patch.diff", [("C06", "C06-R8", "bool")], note="host bool() of a possibly-NaN float in the conditional jumps")
S("seed-C09-c", ["C09"], "seeded/C09-c/patch.diff", [("C09", "C09-R4", "")], note="choice points keep the live register list")
S("seed-C11-b", ["C11"], "seeded/C11-b/patch.diff", [("C11", "C11-R6", "_descend")], silent=["C15", "C02"], note="conversion guard as a context manager without try/finally")
S("seed-C13-b", ["C13"], "seeded/C13-b/patch.diff", [("C13", "C13-R7", "_is_arrow_function_params")], note="early return on the handler path skips the cursor restore")
S("seed-C14-b", ["C14"], "seeded/C14-b/patch.diff", [("C14", "C14-R1", "_emit_jump")], silent=["C02", "C05", "C04"], note="known jump targets written unchecked")
S("seed-C15-c", ["C15"], "seeded/C15-c/patch.diff", [("C15", "C15-R1", "own_keys")], note="accessor names listed in set order")
S("seed-C16-b", ["C16"], "seeded/C16-b/patch.diff", [("C16", "C16-R5", "charAt/charCodeAt")], note="charCodeAt clamps where charAt tests")
S("seed-C18-b", ["C18"], "seeded/C18-b/patch.diff", [("C18", "C18-R6", "to_string")], note="integral floats printed through int()")
M("c16-startswith-negative-slice", ["C16"], VM,
  "            pos = min(max(pos, 0), len(s))  # clamped, not relative to the end\n            return s[pos:].startswith(search)\n",
  "            return s[pos:].startswith(search)\n",
  [("C16", "C16-R4", "startsWith")], note="fix 7bdc03d reverted for startsWith")
M("c18-tostring-host-spelling", ["C18"], VM,
  "            if radix == 10:\n                return to_string(n)\n",
  "            if radix == 10:\n                if isinstance(n, float) and n.is_integer():\n                    return str(int(n))\n                return str(n)\n",
  [("C18", "C18-R6", "toString")], note="fix 481c111 reverted")
M("c01-counter-jumps", ["C01"], VM,
  "        self.instruction_count += 1\n", "        self.instruction_count += 1 + len(self.call_stack) // 64\n",
  [("C01", "C01-R2", "TimeLimitError")], note="non-unit step of the poll counter inside the limit check itself")
M("c18-ceil-loses-negative-zero", ["C18"], CX,
  "            result = math.ceil(x)\n            # Numbers in (-1, 0) round up to -0; a host int has no negative zero\n            return js_number(result) if result != 0 else -0.0\n",
  "            return math.ceil(x)\n",
  [("C18", "C18-R8", "ceil_fn")], note="fix d20b976 reverted for Math.ceil")
M("c18-max-delegates-to-host", ["C18"], CX,
  "            result = nums[0]\n            for n in nums:\n                if n != n:\n                    return n  # NaN if any argument is NaN\n                # +0 is larger than -0, which > and max() do not see\n                if n > result or (n == 0 and result == 0 and math.copysign(1, n) > 0):\n                    result = n\n            return result\n",
  "            return max(nums)\n",
  [("C18", "C18-R8", "max_fn")], note="fix d20b976 reverted for Math.max")
M("c06-add-not-normalised", ["C06"], VM,
  "        return js_number(to_number(a) + to_number(b))\n", "        return to_number(a) + to_number(b)\n",
  [("C06", "C06-R5", "_add")], note="fix 17cfa3c reverted for +")
M("c06-literal-not-normalised", ["C06"], LX,
  "                return js_number(int(hex_str, 16))", "                return int(hex_str, 16)",
  [("C06", "C06-R5", "_read_number")], note="fix 17cfa3c reverted for hex literals")
M("c16-trim-host-whitespace", ["C16"], VM,
  "            return s.strip(_JS_WHITESPACE)\n", "            return s.strip()\n",
  [("C16", "C16-R6", "trim")], note="fix 23541d6 reverted for trim")
M("c17-includes-strict-only", ["C17"], VM,
  "                if vm._strict_equals(elem, search) or (is_nan(elem) and is_nan(search)):\n", "                if vm._strict_equals(elem, search):\n",
  [("C17", "C17-R13", "includes_fn")], note="fix d7ced48 reverted")
T("t-c18-round-via-decimal-module-free", ["C18", "C04"], CX,
  "            result = math.floor(x)\n            if x - result >= 0.5:\n                result += 1\n",
  "            result = math.floor(x)\n            fraction = x - result\n            if fraction >= 0.5:\n                result = result + 1\n")
# wave 5 (written against the tree of fix d0c0de9) and the repaired forms of its refactorings
S("seed-C02-d", ["C02"], "seeded/C02-d/patch.diff", [("C02", "C02-R6", "finally-rethrow")], note="operands of the synthetic try contexts are no longer dropped by break/continue inside finally")
S("seed-C03-c", ["C03"], "seeded/C03-c/patch.diff", [("C03", "C03-R8", "revive")], note="JSON.parse stores scalar array members unconverted: None leaks")
S("seed-C05-d", ["C05"], "seeded/C05-d/patch.diff", [("C05", "C05-R12", "memo")], note="free-variable memo keyed by the node only")
S("seed-C07-d", ["C07"], "seeded/C07-d/patch.diff", [("C07", "C07-R10", "_call_callback")], note="call stack truncated in the finally of the callback boundary")
S("seed-C08-c", ["C08"], "seeded/C08-c/patch.diff", [("C08", "C08-R11", "_invoke_getter")], silent=["C03"], note="inherited getter run with the holder as this")
S("seed-C10-c", ["C10"], "seeded/C10-c/patch.diff", [("C10", "C10-R3", "_compile_repeated")], note="unrolling loop outside the compile-step budget")
S("seed-C12-c", ["C12"], "seeded/C12-c/patch.diff", [("C12", "C12-R7", "_get_property:bound")], note="interpreter-bound methods cached on arrays")
S("seed-C17-c", ["C17"], "seeded/C17-c/patch.diff", [("C17", "C17-R14", "set_fn")], note="typed-array set reads the private mirror instead of the buffer")
S("seed-C19-c", ["C19"], "seeded/C19-c/patch.diff", [("C19", "C19-R4c", "_json_text")], note="guard container dropped in the array branch of the recursion")
S("seed-C20-c", ["C20"], "seeded/C20-c/patch.diff", [("C20", "C20-R4", "_advance_last_index")], note="lastIndex stepped over an empty match, keyed on the g flag")
TP("t-json-text-method", ALL_PROPS, "selftest/patches/t-json-text-method.diff", note="JSON.stringify's serializer as a Context method sharing the boundary guard (repaired C19-c)")
# t-get-property-single-pass (repaired C08-c) became the repository's own code with fix 0f27ed1
TP("t-json-parse-revive", ALL_PROPS, "selftest/patches/t-json-parse-revive.diff", note="JSON.parse builds arrays/objects with prototypes through its own converter (repaired C03-c)")
TP("t-leave-try-helper", ALL_PROPS, "selftest/patches/t-leave-try-helper.diff", note="try handling of the leave code moved into a helper with try/finally (repaired C02-d)")
TP("t-free-vars-memo", ALL_PROPS, "selftest/patches/t-free-vars-memo.diff", note="free-variable analysis memoised per function node with an unfiltered cached set (repaired C05-d)")

M("c20-split-takes-empty-match-at-previous-end", ["C20"], VM,
  "                        if match_end == last_end:\n                            pos = result.index + 1\n                            continue\n", "",
  [("C20", "C20-R5", "empty-match-at-previous-end")], note="fix b4f512e reverted: empty pieces again")
M("c20-exec-steps-over-empty-match", ["C20"], "src/microjs/regex/regex.py",
  "                end_cp = result.index + len(result[0])\n", "                end_cp = result.index + len(result[0]) if result[0] else result.index + 1\n",
  [("C20", "C20-R4", "exec")], note="fix 612acbc reverted in exec")
M("c17-set-copies-in-place", ["C17"], VM,
  "                values = [source.get_index(i) for i in range(source.length)]\n                for i, value in enumerate(values):\n                    arr.set_index(offset + i, value)\n",
  "                for i in range(source.length):\n                    arr.set_index(offset + i, source.get_index(i))\n",
  [("C17", "C17-R15", "set_fn")], note="fix e8d1609 reverted")
M("c06-compound-form-missing", ["C06"], PA,
  "            TokenType.STAR_ASSIGN,\n            TokenType.STARSTAR_ASSIGN,\n", "            TokenType.STAR_ASSIGN,\n",
  [("C06", "C06-R1", "")], count=2, note="fix 7f919c3 reverted in the parser: **= is lexed but not accepted")

# ---- wave 6 ---------------------------------------------------------------------------------------------
S("seed-C16-c", ["C16"], "seeded/C16-c/patch.diff", [("C16", "C16-R7", "int_arg")], note="optional-position helper drops the default for an explicit undefined")
TP("t-string-int-arg-helper", ALL_PROPS, "selftest/patches/t-string-int-arg-helper.diff", note="optional integer arguments of the String methods through one helper that passes the default on (repaired C16-c)")
M("c16-missing-search-string-is-empty", ["C16"], VM,
  '            search = to_string(args[0]) if args else "undefined"\n            pos = to_integer(args[1]) if len(args) > 1 else 0\n            pos = min(max(pos, 0), len(s))  # clamped, not relative to the end\n            return search in s[pos:]\n',
  '            search = to_string(args[0]) if args else ""\n            pos = to_integer(args[1]) if len(args) > 1 else 0\n            pos = min(max(pos, 0), len(s))  # clamped, not relative to the end\n            return search in s[pos:]\n',
  [("C16", "C16-R7", "includes:search")], note="fix 94dce16 reverted for includes")
M("c20-match-undefined-is-not-missing", ["C20", "C16"], VM,
  "            pattern = args[0] if args else UNDEFINED\n            if pattern is UNDEFINED:\n                return 0",
  "            pattern = args[0] if args else None\n            if pattern is None:\n                return 0",
  [("C20", "C20-R6", "search:pattern"), ("C16", "C16-R7", "search:pattern")], note="fix 94dce16 reverted for search: sentinel None tested alone")
M("c17-typed-join-undefined-separator", ["C17"], VM,
  '            separator = "," if not args or args[0] is UNDEFINED else to_string(args[0])\n            return separator.join(',
  '            separator = to_string(args[0]) if args else ","\n            return separator.join(',
  [("C17", "C17-R16", "join_fn:separator")], note="fix 94dce16 reverted for typed-array join")
M("c08-hasownproperty-missing-key", ["C08"], VM,
  '            key = to_string(args[0]) if args else "undefined"\n', '            key = to_string(args[0]) if args else ""\n',
  [("C08", "C08-R12", "hasOwnProperty_fn:key")], note="fix 94dce16 reverted for hasOwnProperty")
M("c18-tostring-radix-default-dropped", ["C18"], VM,
  "            radix = to_integer(args[0], 10) if args else 10\n", "            radix = to_integer(args[0]) if args else 10\n",
  [("C18", "C18-R9", "radix")], note="toString(undefined) would use radix 0")
T("t-missing-arg-spelled-with-len", ["C16"], VM,
  '            search = to_string(args[0]) if args else "undefined"\n            pos = to_integer(args[1]) if len(args) > 1 else 0\n            pos = min(max(pos, 0), len(s))  # clamped, not relative to the end\n            return search in s[pos:]\n',
  '            search = "undefined" if len(args) < 1 else to_string(args[0])\n            pos = 0 if len(args) <= 1 else to_integer(args[1])\n            pos = min(max(pos, 0), len(s))  # clamped, not relative to the end\n            return search in s[pos:]\n',
  note="the same decisions with the absence test first")
M("c18-parseint-prefix-ignores-radix", ["C18"], CX,
  '        if hex_prefix and (s.startswith("0x") or s.startswith("0X")):\n            radix = 16\n', '        if s.startswith("0x") or s.startswith("0X"):\n            radix = 16\n',
  [("C18", "C18-R10", "_global_parseint:radix = 16")], note="fix b952845 reverted in the global parseInt")
M("c06-strict-equality-admits-bool", ["C06"], VM,
  "            if isinstance(a, bool) or isinstance(b, bool):\n                return False\n            if isinstance(a, (int, float)) and isinstance(b, (int, float)):\n                return a == b\n",
  "            if isinstance(a, (int, float)) and isinstance(b, (int, float)):\n                return a == b\n",
  [("C06", "C06-R4b", "_strict_equals")], note="fix 5025912 reverted: true === 1")
T("t-strict-equality-bool-excluded-in-test", ["C06"], VM,
  "            if isinstance(a, bool) or isinstance(b, bool):\n                return False\n            if isinstance(a, (int, float)) and isinstance(b, (int, float)):\n                return a == b\n",
  "            if isinstance(a, (int, float)) and isinstance(b, (int, float)) and not isinstance(a, bool) and not isinstance(b, bool):\n                return a == b\n",
  note="the exclusion inside the numeric test")
M("c06-postfix-result-not-converted", ["C06"], CO,
  "                        self._emit(OpCode.POS)\n                        self._emit(OpCode.DUP)\n                        self._emit(inc_op)\n                        self._emit(OpCode.STORE_CELL, cell_slot)",
  "                        self._emit(OpCode.DUP)\n                        self._emit(inc_op)\n                        self._emit(OpCode.STORE_CELL, cell_slot)",
  [("C06", "C06-R9", "LOAD_CELL")], note="fix 73d2d71 reverted for captured locals")
M("c18-log2-pole-is-nan", ["C18"], CX,
  '            if x == 0:\n                return float("-inf")\n            return math.log2(x) if x > 0 else float("nan")\n', '            return math.log2(x) if x > 0 else float("nan")\n',
  [("C18", "C18-R11", "log2_fn")], note="fix 89a82de reverted for log2")
T("t-log-pole-in-one-test", ["C18"], CX,
  '            if x == 0:\n                return float("-inf")\n            return math.log2(x) if x > 0 else float("nan")\n',
  '            if x <= 0:\n                return float("nan") if x != 0 else -math.inf\n            return math.log2(x)\n',
  note="the pole singled out inside the domain guard")
M("c17-typed-join-host-str", ["C17", "C18"], VM,
  "            return separator.join(\n                to_string(arr.get_index(i)) for i in range(arr.length)\n            )",
  "            return separator.join(str(arr.get_index(i)) for i in range(arr.length))",
  [("C17", "C17-R17", "join_fn"), ("C18", "C18-R6", "join_fn")], note="fix 3b4bb62 reverted: NaN elements print as nan")
M("c17-sort-default-order-plain-to-string", ["C17"], VM,
  "                str_a = value_to_string(a)\n                str_b = value_to_string(b)\n", "                str_a = to_string(a)\n                str_b = to_string(b)\n",
  [("C17", "C17-R18", "default_compare")], note="fix 1c4bbcb reverted")
M("c17-join-elements-plain-to-string", ["C17"], VM,
  "            if isinstance(value, JSObject):\n                return vm._object_to_string(value)\n            return to_string(value)\n", "            return to_string(value)\n",
  [("C17", "C17-R18", "value_to_string")], note="fix 92e1ae4 reverted: nested arrays print as [object Object]")
S("seed-C06-c", ["C06"], "seeded/C06-c/patch.diff", [("C06", "C06-R10", "_compile_expression")], note="negative literals folded into the constant pool, whose == lookup identifies -0.0 with 0")
TP("t-negative-literal-folded", ALL_PROPS, "selftest/patches/t-negative-literal-folded.diff", note="the same folding with a constant pool that compares type and sign of zero (repaired C06-c)")
S("seed-C09-d", ["C09"], "seeded/C09-d/patch.diff", [("C09", "C09-R5", "_run_lookbehind")], note="lookbehind start positions bounded by the body's width; the far bound can be negative")
TP("t-lookbehind-width-bounds", ALL_PROPS, "selftest/patches/t-lookbehind-width-bounds.diff", note="the same width-bounded lookbehind scan with the far bound clamped at 0 (repaired C09-d)")
M("c09-lookbehind-scans-past-start", ["C09"], "src/microjs/regex/vm.py",
  "        for start_pos in range(end_pos, -1, -1):\n", "        for start_pos in range(end_pos, -2, -1):\n",
  [("C09", "C09-R5", "_run_lookbehind")], note="the scan goes one position before the subject")
S("seed-C11-c", ["C11"], "seeded/C11-c/patch.diff", [("C11", "C11-R1", "update")], note="flat-container fast path copies a host dict's keys without str()")
TP("t-flat-container-fast-path", ALL_PROPS, "selftest/patches/t-flat-container-fast-path.diff", note="wholesale copies of containers of host scalars at the boundary, keys converted with str() (repaired C11-c)")
S("seed-C13-c", ["C13"], "seeded/C13-c/patch.diff", [("C13", "C13-R9", "_parse_for_statement")], note="`in` exclusion as parser state; the for-in/for-of returns leave it switched off")
TP("t-parser-allow-in-flag", ALL_PROPS, "selftest/patches/t-parser-allow-in-flag.diff", note="`in` exclusion as a parser flag restored in a finally, sub-parsers run through a callable-taking helper (repaired C13-c)")
S("seed-C14-c", ["C14", "C04"], "seeded/C14-c/patch.diff", [("C14", "C14-R3", "_call_callback"), ("C04", "C04-R3", "_call_callback")], note="wide constant-load opcode; the second decode loop does not know its operand width")
TP("t-wide-constant-load", ALL_PROPS, "selftest/patches/t-wide-constant-load.diff", note="LOAD_CONST_WIDE with a 16-bit operand known to both decode loops (repaired C14-c)")
S("seed-C15-d", ["C15", "C12"], "seeded/C15-d/patch.diff", [("C15", "C15-R4", "_PROGRAM_CACHE"), ("C12", "C12-R1", "_PROGRAM_CACHE")], note="process-wide cache of compiled regex programs keyed without the i flag")
TP("t-regex-program-cache", ALL_PROPS, "selftest/patches/t-regex-program-cache.diff", note="the same cache keyed by every flag the parser and compiler read (repaired C15-d)")
S("seed-C18-c", ["C18"], "seeded/C18-c/patch.diff", [("C18", "C18-R11", "unary")], note="Math natives through one wrapper that maps every ValueError to NaN: the logarithms lose -Infinity at their pole")
TP("t-math-unary-wrapper", ALL_PROPS, "selftest/patches/t-math-unary-wrapper.diff", note="the same wrapper with the pole passed in and answered before the host call (repaired C18-c)")
S("seed-C04-c", ["C04", "C01", "C10", "C20"], "seeded/C04-c/patch.diff", [("C04", "C04-R1", "RegexStackOverflow|RegexTimeoutError|_run"), ("C01", "C01-R5", "regexp_matches"), ("C10", "C10-R1b", "regexp_matches"), ("C20", "C20-R3a", "regexp_matches")], note="regex limit conversion folded into one wrapper; replaceAll reaches replace (and through it the matcher) without it", silent=("C16",))
TP("t-regex-limits-wrapper", ALL_PROPS, "selftest/patches/t-regex-limits-wrapper.diff", note="the same wrapper applied to every native that runs the matcher, replaceAll included (repaired C04-c)")
S("seed-C01-d", ["C01", "C02"], "seeded/C01-d/patch.diff", [("C01", "C01-R1", "loop"), ("C02", "C02-R1a", "loop")], note="limit check moved to safepoints; the do-while back edge (JUMP_IF_TRUE) has none")
TP("t-limit-check-at-safepoints", ALL_PROPS, "selftest/patches/t-limit-check-at-safepoints.diff", note="limit check at every backward jump the compiler can emit and at every frame push instead of per instruction (repaired C01-d)")
TP("t-lexer-comments-by-find", ALL_PROPS, "selftest/patches/t-lexer-comments-by-find.diff", note="comments skipped with str.find from behind the whole opener (repaired C13-a)")

# ---- wave 7 ---------------------------------------------------------------------------------------------
S("seed-C20-d", ["C20"], "seeded/C20-d/patch.diff", [("C20", "C20-R8", "RegExp:y:reset")], note="exec's merged failure exit resets lastIndex for g only; a sticky regex stays stuck")
TP("t-regexp-exec-one-exit", ALL_PROPS, "selftest/patches/t-regexp-exec-one-exit.diff", note="exec with start/end helpers, one failure exit and one success exit, both for g or y (repaired C20-d)")
M("c20-test-own-bookkeeping-without-unicode", ["C20"], "src/microjs/regex/regex.py",
  "        return self.exec(string) is not None\n",
  "        vm = self._create_vm()\n        result = vm.search(string, self.lastIndex if self._global else 0)\n        if result:\n            if self._global:\n                self.lastIndex = result.index + len(result[0])\n            return True\n        if self._global:\n            self.lastIndex = 0\n        return False\n",
  [("C20", "C20-R2", "")], note="test with its own copy of the bookkeeping (no sticky path, no unicode conversion)")
S("seed-C19-d", ["C19"], "seeded/C19-d/patch.diff", [("C19", "C19-R4b", "_create_json_object")], note="per-context path set; the depth test after the add leaks the refused container")
TP("t-json-path-set-per-context", ALL_PROPS, "selftest/patches/t-json-path-set-per-context.diff", note="the same per-context identity set with the depth test before the add (repaired C19-d)")
# seed-C08-d is obsolete: fix 0f27ed1 (prompted by it) makes data and accessor exclusive, after which its change alters nothing
M("c08-accessor-definition-keeps-data", ["C08"], VA,
  "        self._properties.pop(key, None)\n        self._getters[key] = getter\n", "        self._getters[key] = getter\n",
  [("C08", "C08-R13", "define_getter")], note="fix 0f27ed1 reverted in define_getter")
M("c08-delete-leaves-accessors", ["C08"], VA,
  "        if self._getters.pop(key, None) is not None:\n            found = True\n        if self._setters.pop(key, None) is not None:\n            found = True\n", "",
  [("C08", "C08-R13", "delete")], note="fix 0f27ed1 reverted in delete")
M("c08-chain-wide-getter-first", ["C08"], VM,
  "            holder: Optional[JSObject] = obj\n            while holder is not None:\n                getter = holder._getters.get(key_str)\n                if getter is not None:\n                    return self._invoke_getter(getter, obj)\n",
  "            getter = obj.get_getter(key_str)\n            if getter is not None:\n                return self._invoke_getter(getter, obj)\n            holder: Optional[JSObject] = obj\n            while holder is not None:\n",
  [("C08", "C08-R14", "_get_property")], note="fix 0f27ed1 reverted on the read path: inherited accessors answer before own data")
S("seed-C02-e", ["C02", "C05"], "seeded/C02-e/patch.diff", [("C02", "C02-R6", "finally-rethrow"), ("C05", "C05-R3", "finally-rethrow")], note="extract-method of the try handling in the leave code; `continue` skips the POPs of the pseudo-contexts that hold operands")
TP("t-leave-try-extracted", ALL_PROPS, "selftest/patches/t-leave-try-extracted.diff", note="the same extraction without the early continue (repaired C02-e)")
S("seed-C07-e", ["C07", "C02"], "seeded/C07-e/patch.diff", [("C07", "C07-R2", "ReturnStatement"), ("C02", "C02-R8", "ReturnStatement")], note="return emits TRY_END only for try statements with their own finally")
S("seed-C10-d", ["C10", "C09"], "seeded/C10-d/patch.diff", [("C10", "C10-R8", "_run_lookbehind"), ("C09", "C09-R5", "_run_lookbehind")], note="width-bounded lookbehind scan with an unclamped far bound (second author, same slip as C09-d)")
S("seed-C12-d", ["C12"], "seeded/C12-d/patch.diff", [("C12", "C12-R6", "_running"), ("C12", "C12-R3", "_running")], note="current-VM bookkeeping in a context manager that restores after a bare yield")
S("seed-C05-e", ["C05"], "seeded/C05-e/patch.diff", [("C05", "C05-R4b", "SwitchStatement.cases")], note="var-declaration pre-pass walks a table of compound statements that lacks SwitchCase")
TP("t-var-decls-statement-walk", ALL_PROPS, "selftest/patches/t-var-decls-statement-walk.diff", note="the same statement-only walk with SwitchCase in the table (repaired C05-e)")
S("seed-C17-d", ["C17"], "seeded/C17-d/patch.diff", [("C17", "C17-R19", "lastIndexOf_fn")], note="one clamping helper for every relative index, the backward search of lastIndexOf included", silent=("C16",))
TP("t-relative-index-helper", ALL_PROPS, "selftest/patches/t-relative-index-helper.diff", note="the same helper at the six forward positions; lastIndexOf keeps its unclamped start (repaired C17-d)")
M("c17-lastindexof-start-clamped", ["C17"], VM,
  "            if start < 0:\n                start = len(arr._elements) + start\n            for i in range(min(start, len(arr._elements) - 1), -1, -1):",
  "            if start < 0:\n                start = len(arr._elements) + start\n            start = max(0, start)\n            for i in range(min(start, len(arr._elements) - 1), -1, -1):",
  [("C17", "C17-R19", "lastIndexOf_fn")], note="the same slip without a helper")
M("c03-replacer-gets-raw-captures", ["C03"], VM,
  "            captures = [UNDEFINED if g is None else g for g in groups]\n", "            captures = list(groups)\n",
  [("C03", "C03-R7", "match_result")], note="the replacer function receives None for a group that did not participate (the slip of seeds C03-b and C03-d)")
M("c13-escape-digits-by-host-int", ["C13"], "src/microjs/lexer.py",
  "    for ch in digits:\n        if ch not in \"0123456789abcdefABCDEF\":\n            return None\n", "",
  [("C13", "C13-R11", "_hex_code_point")], note="fix a4f92c0 reverted: int() decides what hex digits are")
M("c10-regex-escape-digits-by-host-int", ["C10"], "src/microjs/regex/parser.py",
  "            for ch in hex_digits:\n                if ch not in \"0123456789abcdefABCDEF\":\n                    raise RegExpError(f\"Invalid unicode escape: {hex_digits}\")\n", "",
  [("C10", "C10-R9", "_parse_unicode_escape")], note="fix 729fe71 reverted")
M("c04-top-level-parse-recursion-unconverted", ["C04", "C14"], CX,
  "        except RecursionError:\n            raise JSSyntaxError(\"Program is nested too deeply\")\n", "        except ZeroDivisionError:\n            raise JSSyntaxError(\"Program is nested too deeply\")\n",
  [("C04", "C04-R10", "_compile_source"), ("C14", "C14-R4", "_compile_source")], note="fix 3bbbfc1 reverted: RecursionError leaves eval")
M("c01-parser-without-deadline", ["C01"], CX,
  "            ast = Parser(source, poll).parse()\n", "            ast = Parser(source).parse()\n",
  [("C01", "C01-R10", "_compile_source")], note="fix 3bbbfc1 reverted: the parse is outside the time limit")
M("c01-lexer-poll-dropped", ["C01"], "src/microjs/lexer.py",
  "            if self._poll():\n                raise TimeLimitError(\"Execution timeout\")\n", "            pass\n",
  [("C01", "C01-R10", "next_token")], note="the lexer no longer asks the deadline")

# ---- wave 8 ---------------------------------------------------------------------------------------------
S("seed-C15-e", ["C15"], "seeded/C15-e/patch.diff", [("C15", "C15-R1", "_compile_arrow_function")], note="var hoisting in block-bodied arrows fills the slot table from a set difference, unsorted")
TP("t-arrow-var-hoisting", ALL_PROPS, "selftest/patches/t-arrow-var-hoisting.diff", note="the same hoisting with the names sorted (repaired C15-e)")
S("seed-C06-d", ["C06"], "seeded/C06-d/patch.diff", [("C06", "C06-R4b", "identity-answers-true")], note="identity fast path in ===; NaN is one host object and not equal to itself")
TP("t-strict-equals-identity-fast-path", ALL_PROPS, "selftest/patches/t-strict-equals-identity-fast-path.diff", note="the same fast path with NaN excluded (repaired C06-d)")
S("seed-C11-d", ["C11"], "seeded/C11-d/patch.diff", [("C11", "C11-R8", "_to_python")], note="flat-array fast path returns between the push on the path and the try/finally that pops")
TP("t-flat-array-fast-path", ALL_PROPS, "selftest/patches/t-flat-array-fast-path.diff", note="the same fast path inside the try (repaired C11-d)")
S("seed-C04-d", ["C04"], "seeded/C04-d/patch.diff", [("C04", "C04-R11", "toPrecision")], note="toPrecision's zero branch moved above the range check of the precision it repeats a string by")
TP("t-toprecision-nonfinite-first", ALL_PROPS, "selftest/patches/t-toprecision-nonfinite-first.diff", note="NaN and the infinities answered before the range check, zero after it (repaired C04-d)")
M("c04-array-length-assignment-unbounded", ["C04"], VM,
  "                    or new_len != int(new_len)\n                    or new_len > MAX_ARRAY_LENGTH\n", "                    or new_len != int(new_len)\n",
  [("C04", "C04-R11", "length")], note="fix e7f3d77 reverted: a.length = 1e9 allocates")
S("seed-C16-d", ["C16"], "seeded/C16-d/patch.diff", [("C16", "C16-R9", "split:limit")], note="split applies the limit per separator kind; the undefined-separator branch forgets it", silent=("C20",))
TP("t-split-limit-early", ALL_PROPS, "selftest/patches/t-split-limit-early.diff", note="the same early-stopping split with the limit applied in every branch (repaired C16-d)")
M("c17-typed-set-offset-ignored-when-empty", ["C17"], VM,
  "            if offset < 0 or offset + count > arr.length:\n                raise JSRangeError(\"offset is out of bounds\")\n\n", "",
  [("C17", "C17-R20", "set_fn:offset")], note="fix 8c86225 reverted: the offset is not looked at for an empty source")
S("seed-C14-d", ["C14"], "seeded/C14-d/patch.diff", [("C14", "C14-R1", "_patch_jump|_emit")], note="jump range checks replaced by a length check when a unit is finished; arrow functions are finished without it")
TP("t-bytecode-length-checked-at-finish", ALL_PROPS, "selftest/patches/t-bytecode-length-checked-at-finish.diff", note="the same length check at all three places that finish a unit (repaired C14-d)")
S("seed-C18-d", ["C18"], "seeded/C18-d/patch.diff", [("C18", "C18-R12", "_RADIX_LITERAL")], note="to_number strips the sign before it decides the kind of literal: signed radix literals are accepted")
TP("t-to-number-sign-first", ALL_PROPS, "selftest/patches/t-to-number-sign-first.diff", note="the same sign-first conversion with the radix literal tested on the unsigned-by-grammar text first (repaired C18-d)")
M("c18-minus-zero-text-through-int", ["C18"], VA,
  "    if value == 0 and digits.startswith(\"-\"):\n        return -0.0\n", "",
  [("C18", "C18-R12", "negative-zero")], note="fix 3476877 reverted (now in decimal_integer, which to_number, the lexer and JSON.parse share)")
S("seed-C13-d", ["C13"], "seeded/C13-d/patch.diff", [("C13", "C13-R7", "_is_arrow_function_params")], note="mark/reset refactoring of the look-aheads; the handler's early return skips the reset (second author, the slip of C13-b)")
S("seed-C09-e", ["C09"], "seeded/C09-e/patch.diff", [("C09", "C09-R4", "snapshots")], note="captures made copy-on-write; RESET_IF_NO_ADV still writes in place")
TP("t-captures-copy-on-write", ALL_PROPS, "selftest/patches/t-captures-copy-on-write.diff", note="copy-on-write captures with every writer replacing the list first (repaired C09-e)")
S("seed-C01-e", ["C01"], "seeded/C01-e/patch.diff", [("C01", "C01-R1", "loop")], note="the clock is polled in a function of its own at safepoints; the do-while back edge has none (second author, the slip of C01-d)", silent=("C02",))
TP("t-clock-polled-at-safepoints", ALL_PROPS, "selftest/patches/t-clock-polled-at-safepoints.diff", note="time polled at safepoints by its own function with a bit-mask gate, memory still per instruction (repaired C01-e)")
M("c10-poll-counter-per-run", ["C10", "C01"], "src/microjs/regex/vm.py",
  "            self._steps_since_start += 1\n            if self._steps_since_start % self.poll_interval == 0:\n", "            if step_count % self.poll_interval == 0:\n",
  [("C10", "C10-R2a", "_run"), ("C01", "C01-R3", "_run")], note="the deadline poll gated on the per-run step count again")
M("c20-start-beyond-subject-unchecked", ["C20", "C10"], "src/microjs/regex/regex.py",
  "        if start_pos > len(string):\n", "        if False:\n",
  [("C20", "C20-R9", "exec"), ("C10", "C10-R10", "exec")], note="fix 910eb38 reverted")

# ---- wave 9 ---------------------------------------------------------------------------------------------
S("seed-C20-e", ["C20"], "seeded/C20-e/patch.diff", [("C20", "C20-R8", "RegExp:y:advance")], note="exec as one straight line with a local `uses_last_index`; the success exit advances lastIndex for g only")
TP("t-regexp-exec-straight-line", ALL_PROPS, "selftest/patches/t-regexp-exec-straight-line.diff", note="the same straight-line exec with all three lastIndex sites under the one condition (repaired C20-e)")
S("seed-C17-e", ["C17"], "seeded/C17-e/patch.diff", [("C17", "C17-R14", "set_fn")], note="same-class fast path of TypedArray.set block-copies the per-view cache instead of reading through the buffer")
S("seed-C19-e", ["C19"], "seeded/C19-e/patch.diff", [("C19", "C19-R6", "serialize:k")], note="arrays and objects written by one loop; `if not k` takes the key '' for no key")
TP("t-json-one-member-loop", ALL_PROPS, "selftest/patches/t-json-one-member-loop.diff", note="the same loop with `k is None` (repaired C19-e)")
S("seed-C08-e", ["C08"], "seeded/C08-e/patch.diff", [("C08", "C08-R15", "_invoke_js_function:this_val")], note="the default receiver applied once with `this_val or UNDEFINED`: falsy receivers become undefined")
TP("t-receiver-default-in-one-place", ALL_PROPS, "selftest/patches/t-receiver-default-in-one-place.diff", note="the same single place with `is None` (repaired C08-e)")
S("seed-C02-f", ["C02", "C05"], "seeded/C02-f/patch.diff", [("C02", "C02-R6", "finally-rethrow"), ("C05", "C05-R3", "finally-rethrow")], note="the extract-method slip of C02-e by a second author")
S("seed-C10-e", ["C10", "C09"], "seeded/C10-e/patch.diff", [("C10", "C10-R8", "_run_lookbehind"), ("C09", "C09-R5", "_run_lookbehind")], note="fixed-width lookbehind fast path starts at end_pos - width without a test against 0")
S("seed-C12-e", ["C12"], "seeded/C12-e/patch.diff", [("C12", "C12-R3", "eval")], note="_current_vm set before compiling; a syntax error leaves it pointing at an interpreter that never ran")
S("seed-C03-e", ["C03"], "seeded/C03-e/patch.diff", [("C03", "C03-R9", "_get_property")], note="the __proto__ accessor returns the prototype link, which is Python None at the end of a chain")
TP("t-proto-accessor", ALL_PROPS, "selftest/patches/t-proto-accessor.diff", note="the same accessor with None mapped to null (repaired C03-e)")
S("seed-C07-f", ["C07", "C05", "C02"], "seeded/C07-f/patch.diff", [("C07", "C07-R4c", "loop_stack"), ("C05", "C05-R5", "loop_stack"), ("C02", "C02-R10", "loop_stack")], note="per-function compiler state switched by a begin/end helper pair that saves and restores loop_stack but never clears it")
TP("t-function-state-record", ALL_PROPS, "selftest/patches/t-function-state-record.diff", note="the same helper pair with loop_stack cleared (repaired C07-f)")
S("seed-C05-f", ["C05", "C02"], "seeded/C05-f/patch.diff", [("C05", "C05-R3", "IfStatement"), ("C02", "C02-R6", "IfStatement")], note="peephole for `if (c) break/continue` that jumps straight to the target when no try is crossed, forgetting the operands of crossed for-in/for-of/switch")
TP("t-guarded-jump-peephole", ALL_PROPS, "selftest/patches/t-guarded-jump-peephole.diff", note="the same peephole, declined whenever a crossed context holds operands (repaired C05-f)")

# ---- wave 10 --------------------------------------------------------------------------------------------
M("c04-literal-through-int", ["C04"], LX,
  "        return decimal_integer(num_str)\n", "        return js_number(int(num_str))\n",
  [("C04", "C04-R12", "_read_number")], note="fix bd55290 reverted in the lexer: a literal of 5000 digits raises the host's ValueError")
M("c04-index-key-unbounded", ["C04"], VA,
  "        return int(key) if len(key) <= 20 else 10**20\n", "        return int(key)\n",
  [("C04", "C04-R12", "array_index")], note="fix bd55290 reverted for index-like keys")
M("c06-decimal-integer-exact", ["C06", "C19", "C04"], VA,
  "    return int(value) if abs(value) <= 2**53 else value\n", "    return int(digits)\n",
  [("C06", "C06-R5", "decimal_integer"), ("C19", "C19-R7", "decimal_integer"), ("C04", "C04-R12", "decimal_integer")], note="the shared digit reader returns the exact host int again")
M("c19-json-no-integer-hook", ["C19", "C06"], CX,
  "parse_constant=reject_constant, parse_int=decimal_integer", "parse_constant=reject_constant",
  [("C19", "C19-R7", "json.loads"), ("C06", "C06-R5", "json.loads")], note="JSON.parse lets the host parser build ints of unlimited precision")
M("c18-number-parsefloat-second-copy", ["C18"], CX,
  "        num_constructor.set(\"parseFloat\", self._global_parsefloat)\n",
  "        def parseFloat_fn(*args):\n            s = to_string(args[0]) if args else \"\"\n            s = s.strip(_JS_WHITESPACE)\n            if s.startswith(\"Infinity\"):\n                return float(\"nan\")\n            return parse_float(s)\n\n        num_constructor.set(\"parseFloat\", parseFloat_fn)\n",
  [("C18", "C18-R13", "parseFloat")], note="Number.parseFloat gets a copy of its own again, which disagrees on 'Infinity' (the defect fixed by db59e6b)")
T("t-number-parsefloat-same-statements", ["C18", "C16", "C04"], CX,
  "        num_constructor.set(\"parseFloat\", self._global_parsefloat)\n",
  "        def parseFloat_fn(*args):\n            return parse_float(to_string(args[0]) if args else \"\")\n\n        num_constructor.set(\"parseFloat\", parseFloat_fn)\n",
  note="a second function with the same statements is not a disagreement")
S("seed-C01-f", ["C01"], "seeded/C01-f/patch.diff", [("C01", "C01-R2", "_check_limits")], note="native calls charged as 9 steps: the counter jumps over the multiples of the polling period, which is tested with ==")
S("seed-C04-e", ["C04", "C16"], "seeded/C04-e/patch.diff", [("C04", "C04-R13", "_get_property"), ("C16", "C16-R11", "_get_property")], note="integer-key fast path of property reads indexes a host string with a one-sided range test", silent=("C03",))
TP("t-integer-key-fast-path", ALL_PROPS, "selftest/patches/t-integer-key-fast-path.diff", note="the same fast path with 0 <= key < len (repaired C04-e)")
S("seed-C06-e", ["C06"], "seeded/C06-e/patch.diff", [("C06", "C06-R4", "_to_int32")], note="ToInt32 fast path for host ints forgets that bool is one")
S("seed-C09-f", ["C09"], "seeded/C09-f/patch.diff", [("C09", "C09-R4", "_run_lookahead")], note="lookahead helper copies the captures for the positive form only: a failing negative lookahead body leaves its captures set")
S("seed-C11-e", ["C11", "C12"], "seeded/C11-e/patch.diff", [("C11", "C11-R9", "_enter_container"), ("C12", "C12-R8", "_enter_container")], note="conversion path kept on the context; the depth refusal comes after the push, outside the callers' try")
TP("t-conversion-path-on-context", ALL_PROPS, "selftest/patches/t-conversion-path-on-context.diff", note="the same context-held path with the refusal before the push (repaired C11-e)")
S("seed-C13-e", ["C13"], "seeded/C13-e/patch.diff", [("C13", "C13-R12", "_read_string")], note="string literals without a backslash taken as one slice up to the next quote: line breaks inside are accepted")
TP("t-string-literal-fast-path", ALL_PROPS, "selftest/patches/t-string-literal-fast-path.diff", note="the same fast path declined when the slice holds a line break (repaired C13-e)")
S("seed-C14-e", ["C14"], "seeded/C14-e/patch.diff", [("C14", "C14-R1", "case_positions")], note="jump targets range-checked where they are recorded (_here); the switch clause positions are recorded without it", silent=("C02", "C05", "C07"))
TP("t-jump-targets-checked-when-recorded", ALL_PROPS, "selftest/patches/t-jump-targets-checked-when-recorded.diff", note="the same refactoring with all eight recorders converted (repaired C14-e)")
S("seed-C15-f", ["C15"], "seeded/C15-f/patch.diff", [("C15", "C15-R1", "JSObject.keys")], note="accessor properties enumerated through the union of two key views, which is a set")
TP("t-accessors-enumerated", ALL_PROPS, "selftest/patches/t-accessors-enumerated.diff", note="accessors enumerated in definition order through a merged dict (repaired C15-f)")
S("seed-C16-e", ["C16"], "seeded/C16-e/patch.diff", [("C16", "C16-R10", "lastIndexOf")], note="one position helper for five string methods: lastIndexOf loses its NaN-means-end rule (the defect of 7e34772 again)")
TP("t-string-position-helper", ALL_PROPS, "selftest/patches/t-string-position-helper.diff", note="the same helper with a flag for the NaN rule (repaired C16-e)")
S("seed-C18-e", ["C18"], "seeded/C18-e/patch.diff", [("C18", "C18-R7", "pattern")], note="parseFloat's leading white space skipped by \\\\s inside the host pattern (ported onto db59e6b, which made the same clean-up without the slip)", silent=("C16",))
TP("t-parsefloat-whitespace-in-pattern", ALL_PROPS, "selftest/patches/t-parsefloat-whitespace-in-pattern.diff", note="white space skipped inside the pattern with the ECMAScript set (repaired C18-e)")
M("c16-lastindexof-nan-is-zero", ["C16"], VM,
  "            if len(args) > 1 and to_number(args[1]) != to_number(args[1]):\n                end = len(s)  # a position that is not a number means the end\n", "",
  [("C16", "C16-R10", "lastIndexOf")], note="fix 7e34772 reverted for String lastIndexOf")
M("c14-emit-check-dropped", ["C14"], CO,
  "                if not 0 <= arg <= 0xFFFF:\n", "                if False:\n",
  [("C14", "C14-R1", "_emit")], note="the range check of emitted jump targets disabled")

# ---- wave 11 --------------------------------------------------------------------------------------------
S("seed-C02-g", ["C02"], "seeded/C02-g/patch.diff", [("C02", "C02-R3c", "host_depth")], note="host_depth turned from a shared one-element list into a plain int: nested interpreters count on private copies")
S("seed-C03-f", ["C03"], "seeded/C03-f/patch.diff", [("C03", "C03-R10", "eval_fn")], note="the script's eval() and Function go through Context.eval, whose result is converted for the embedder", silent=("C01", "C07", "C15"))
TP("t-eval-reentrant", ALL_PROPS, "selftest/patches/t-eval-reentrant.diff", note="the same re-entrant evaluation with the raw completion value handed to the script (repaired C03-f)")
S("seed-C05-g", ["C05", "C02"], "seeded/C05-g/patch.diff", [("C05", "C05-R3", "switch"), ("C02", "C02-R6", "switch")], note="a labelled switch carries its labels itself; the unlabelled-break search still skips every labelled non-loop context")
TP("t-labelled-switch-context", ALL_PROPS, "selftest/patches/t-labelled-switch-context.diff", note="the same refactoring with an is_switch flag that the break search consults (repaired C05-g)")
S("seed-C07-g", ["C07"], "seeded/C07-g/patch.diff", [("C07", "C07-R4", "_compile_statement_for_value:TryStatement:catch.finally:throw-from-catch")], note="try statements get a completion value; the value compiler's copy of the lowering leaves out the second handler around the catch clause", silent=("C02", "C05"))
TP("t-try-completion-value", ALL_PROPS, "selftest/patches/t-try-completion-value.diff", note="the same feature with the guarded catch clause (repaired C07-g)")
S("seed-C08-f", ["C08"], "seeded/C08-f/patch.diff", [("C08", "C08-R16", "_get_local:_uses_arguments")], note="arguments object built only when _get_local saw the name; a captured `arguments` is resolved by _get_cell_var first")
TP("t-arguments-built-on-demand", ALL_PROPS, "selftest/patches/t-arguments-built-on-demand.diff", note="the same optimisation with both look-ups recording the use (repaired C08-f)")
S("seed-C10-f", ["C10", "C04"], "seeded/C10-f/patch.diff", [("C10", "C10-R5", "_parse_group_name"), ("C04", "C04-R5", "_parse_group_name")], note="named groups: the name scanner loops on `_peek() != '>'` without an end-of-pattern test")
S("seed-C12-f", ["C12"], "seeded/C12-f/patch.diff", [("C12", "C12-R7", "_get_property")], note="array methods bound once per array and kept on the array: closures over the interpreter of the eval that read them first", silent=("C03", "C05"))
S("seed-C17-f", ["C17"], "seeded/C17-f/patch.diff", [("C17", "C17-R14", "set_fn")], note="TypedArray.set snapshots the source from its per-view cache instead of reading through the buffer (second author, the slip of C17-e)")
S("seed-C19-f", ["C19"], "seeded/C19-f/patch.diff", [("C19", "C19-R8", "pattern")], note="own JSON string quoting with a nothing-to-escape fast path anchored with `$`: one trailing line feed is copied raw", silent=("C12", "C15", "C18"))
TP("t-json-quote-own", ALL_PROPS, "selftest/patches/t-json-quote-own.diff", note="the same quoting with the fast path anchored by \\\\Z (repaired C19-f)")
S("seed-C20-f", ["C20"], "seeded/C20-f/patch.diff", [("C20", "C20-R10", "search")], note="search through the regex's own exec with lastIndex saved and restored; the no-match exit returns before the restore")
M("c20-search-on-raw-matcher", ["C20"], VM,
  "                saved = regex_internal.lastIndex\n                regex_internal.lastIndex = 0\n                result = regex_internal.exec(s)\n                regex_internal.lastIndex = saved\n",
  "                result = regex_internal._create_vm().search(s, 0)\n",
  [("C20", "C20-R11", "search")], note="fix 33cb6fa reverted for search: the raw matcher ignores the sticky flag")
M("c20-search-restore-skipped", ["C20"], VM,
  "                result = regex_internal.exec(s)\n                regex_internal.lastIndex = saved\n                return result.index if result else -1\n",
  "                result = regex_internal.exec(s)\n                if result is None:\n                    return -1\n                regex_internal.lastIndex = saved\n                return result.index\n",
  [("C20", "C20-R10", "search")], note="the no-match exit of search returns before lastIndex is put back")
M("c17-splice-no-arguments-deletes-all", ["C17"], VM,
  "                delete_count = (\n                    0  # the number of arguments decides: splice() removes nothing\n                )\n", "                delete_count = len(arr._elements) - start\n",
  [("C17", "C17-R23", "splice_fn")], note="fix 3e4f355 reverted")
M("c17-subarray-copy-without-buffer", ["C17"], VM,
  "            result._buffer = arr.ensure_buffer()\n", "            result._buffer = arr._buffer\n",
  [("C17", "C17-R21", "subarray_fn")], note="fix a314334 reverted: a subarray of an array without a buffer is a copy")
M("c17-subarray-buffer-conditionally", ["C17"], VM,
  "            result._buffer = arr.ensure_buffer()\n            result._byte_offset = arr._byte_offset + begin * arr._element_size\n", "            if arr._buffer is not None:\n                result._buffer = arr._buffer\n                result._byte_offset = arr._byte_offset + begin * arr._element_size\n",
  [("C17", "C17-R21", "subarray_fn")], note="the buffer handed on only when there is one (the old shape)")
M("c17-buffer-remainder-ignored", ["C17"], CX,
  "                    if (buffer.byteLength - byte_offset) % element_size:\n", "                    if False:\n",
  [("C17", "C17-R22", "constructor_fn")], note="fix 2188f84 reverted")
M("c17-foreach-live-iteration", ["C17", "C04"], VM,
  "            for i, elem in visited_elements():\n                vm._call_callback(callback, [elem, i, arr], this_arg)\n            return UNDEFINED\n",
  "            for i, elem in enumerate(arr._elements):\n                vm._call_callback(callback, [elem, i, arr], this_arg)\n            return UNDEFINED\n",
  [("C17", "C17-R24", "forEach_fn"), ("C04", "C04-R14", "forEach_fn")], note="fix 1e3d431 reverted for forEach: the loop asks the live list for its next element")
M("c17-sort-in-place", ["C17", "C04"], VM,
  "            arr._elements[:] = sorted(arr._elements, key=cmp_to_key(compare_fn))\n", "            arr._elements.sort(key=cmp_to_key(compare_fn))\n",
  [("C17", "C17-R25", "sort_fn"), ("C04", "C04-R15", "sort_fn")], note="fix c20bcfc reverted: list.sort() raises ValueError when the comparator touches the array")
M("c06-nan-divided-by-zero", ["C06"], VM,
  "                if a_num == 0 or a_num != a_num:\n", "                if a_num == 0:\n",
  [("C06", "C06-R11", "DIV")], note="fix 0bf0637 reverted: NaN / 0 takes the sign decision's else arm")
M("c06-pow-zero-sign-lost", ["C06"], VA,
  "    if result == 0:\n        # the sign of a zero result counts ((-0) ** 3 and (-1e-200) ** 3 are -0),\n        # and a host int has no negative zero\n        return result if math.copysign(1, result) < 0 else 0\n", "",
  [("C06", "C06-R12", "js_pow")], note="fix 18d50b1 reverted")
M("c13-unary-before-exponent-accepted", ["C13"], PA,
  "            if self._check(TokenType.STARSTAR):\n                # -2 ** 2 is neither", "            if False:\n                # -2 ** 2 is neither",
  [("C13", "C13-R13", "unary-before-exponent")], note="fix bf4b913 reverted")

# ---- wave 12 --------------------------------------------------------------------------------------------
S("seed-C01-g", ["C01"], "seeded/C01-g/patch.diff", [("C01", "C01-R10", "_scan_ahead")], note="look-aheads read from a scratch lexer that is built without the deadline callback", silent=("C04", "C13", "C07"))
TP("t-lookahead-scratch-lexer", ALL_PROPS, "selftest/patches/t-lookahead-scratch-lexer.diff", note="the same scratch lexer with the poll handed on (repaired C01-g)")
S("seed-C04-f", ["C04", "C02"], "seeded/C04-f/patch.diff", [("C04", "C04-R16", "_call_callback"), ("C02", "C02-R12", "_call_callback")], note="host-level budget through a generator context manager whose acquisition sits inside the try", silent=("C05", "C08"))
TP("t-host-level-contextmanager", ALL_PROPS, "selftest/patches/t-host-level-contextmanager.diff", note="the same context manager with the acquisition before the try (repaired C04-f)")
S("seed-C06-f", ["C06", "C18", "C17"], "seeded/C06-f/patch.diff", [("C06", "C06-R13", "to_string"), ("C18", "C18-R6", "to_string"), ("C17", "C17-R17", "to_string")], note="whole doubles printed through int(): exact digits beyond 2**53")
S("seed-C09-g", ["C09"], "seeded/C09-g/patch.diff", [("C09", "C09-R4", "_run_lookbehind")], note="captures copied once per lookbehind assertion instead of once per start position")
S("seed-C11-f", ["C11"], "seeded/C11-f/patch.diff", [("C11", "C11-R10", "_to_js")], note="converted lists built through the script's Array constructor: a single number is a length", silent=("C03",))
TP("t-converted-values-get-prototypes", ALL_PROPS, "selftest/patches/t-converted-values-get-prototypes.diff", note="converted arrays and objects given their prototypes through the object model (repaired C11-f)")
S("seed-C13-f", ["C13"], "seeded/C13-f/patch.diff", [("C13", "C13-R12", "_read_string")], note="the string fast path of C13-e by a second author")
S("seed-C14-f", ["C14", "C04"], "seeded/C14-f/patch.diff", [("C14", "C14-R3", "_call_callback"), ("C04", "C04-R3", "_call_callback")], note="wide constant index chosen inside the encoder; the second decode loop does not know it")
TP("t-wide-constant-index", ALL_PROPS, "selftest/patches/t-wide-constant-index.diff", note="the same wide form decoded by both loops (repaired C14-f)")
S("seed-C15-g", ["C15"], "seeded/C15-g/patch.diff", [("C15", "C15-R1", "_compile_function")], note="locals laid out with sorted(set, key=<two-valued>): the stable sort keeps the hash order within each class")
TP("t-captured-locals-last", ALL_PROPS, "selftest/patches/t-captured-locals-last.diff", note="the same layout with the name as second sort key (repaired C15-g)")
S("seed-C16-f", ["C16"], "seeded/C16-f/patch.diff", [("C16", "C16-R11", "_get_property")], note="string index fast path entered with isinstance(key, int): booleans are ints for the host", silent=("C03", "C04"))
TP("t-string-index-fast-path", ALL_PROPS, "selftest/patches/t-string-index-fast-path.diff", note="the same fast path entered with type(key) is int (repaired C16-f)")
S("seed-C18-f", ["C18"], "seeded/C18-f/patch.diff", [("C18", "C18-R15", "_fraction_to_base")], note="fraction digits in a helper that takes the ulp of the fraction instead of the number")
TP("t-fraction-digits-helper", ALL_PROPS, "selftest/patches/t-fraction-digits-helper.diff", note="the same helper given the number's own spacing (repaired C18-f)")
M("c08-computed-identifier-key-as-name", ["C08"], CO,
  "                if isinstance(prop.key, Identifier) and not prop.computed:\n", "                if isinstance(prop.key, Identifier):\n",
  [("C08", "C08-R17", "prop.key")], note="fix 4ee0b2a reverted")
M("c08-arrow-this-not-used", ["C08"], VM,
  "        if hasattr(func, \"_lexical_this\"):\n            # An arrow function: call form, call/apply and bind do not matter\n            this_val = func._lexical_this\n", "",
  [("C08", "C08-R18", "arrow-this-used")], note="fix 9be7359 reverted at the call: the remembered this is never used")
M("c08-arrow-this-not-captured", ["C08"], VM,
  "                    js_func._lexical_this = frame.this_value\n", "                    pass\n",
  [("C08", "C08-R18", "this-captured")], note="fix 9be7359 reverted at closure creation")
M("c08-arrow-not-marked", ["C08"], CO,
  "            is_arrow=True,\n", "",
  [("C08", "C08-R18", "arrow:marked")], note="arrow code objects no longer marked")

# ---- wave 13 --------------------------------------------------------------------------------------------
S("seed-C03-g", ["C02", "C05"], "seeded/C03-g/patch.diff", [("C02", "C02-R6", "finally-rethrow"), ("C05", "C05-R3", "finally-rethrow")], note="the extract-method slip of C02-e/C02-f by a third author (written against C03: the leaked operand is a host iterator object)")
S("seed-C05-h", ["C05"], "seeded/C05-h/patch.diff", [("C05", "C05-R4b", "SwitchCase")], note="var collection restricted to a table of compound statements that lacks SwitchCase (second author, the slip of C05-e)")
TP("t-var-decls-compound-only", ALL_PROPS, "selftest/patches/t-var-decls-compound-only.diff", note="the same table with SwitchCase (repaired C05-h)")
S("seed-C07-h", ["C07", "C02", "C05"], "seeded/C07-h/patch.diff", [("C07", "C07-R4b", "finally-scope"), ("C02", "C02-R6", "crossing"), ("C05", "C05-R3", "crossing")], note="the jump target looked up with list.index: contexts are dataclasses, an enclosing loop with equal fields is found first")
TP("t-leave-contexts-slice", ALL_PROPS, "selftest/patches/t-leave-contexts-slice.diff", note="the same slice-based leave code with the target found by identity (repaired C07-h)")
S("seed-C08-g", ["C08"], "seeded/C08-g/patch.diff", [("C08", "C08-R19", "delete")], note="delete loops over the three dictionaries and returns at the first that holds the key: the setter of a get/set pair survives", silent=("C03",))
TP("t-own-property-helper", ALL_PROPS, "selftest/patches/t-own-property-helper.diff", note="the same has_own helper and loop, clearing every dictionary (repaired C08-g)")
S("seed-C10-g", ["C10"], "seeded/C10-g/patch.diff", [("C10", "C10-R11", "_run_lookbehind")], note="one step budget per attempt kept on the matcher; the lookbehind saves and refills it and restores it on one of its two exits")
TP("t-regex-budget-per-attempt", ALL_PROPS, "selftest/patches/t-regex-budget-per-attempt.diff", note="the same budget restored on both exits (repaired C10-g)")
S("seed-C12-g", ["C12"], "seeded/C12-g/patch.diff", [("C12", "C12-R7", "_make_array_method")], note="the array method table built once per array by a renamed builder and kept on the array (second author, the slip of C12-f)", silent=("C17",))
S("seed-C17-g", ["C17"], "seeded/C17-g/patch.diff", [("C17", "C17-R15", "set_fn")], note="TypedArray.set streams the source through a generator unless a memmove rule says otherwise; the rule ignores element widths")
TP("t-typed-set-streams-foreign-sources", ALL_PROPS, "selftest/patches/t-typed-set-streams-foreign-sources.diff", note="streaming kept for sources that share no memory with the receiver (repaired C17-g)")
S("seed-C19-g", ["C19", "C11"], "seeded/C19-g/patch.diff", [("C19", "C19-R9", "_to_js"), ("C11", "C11-R10", "_to_js")], note="host dict members stored through the object-literal initialiser, for which __proto__ is special", silent=("C01",))
TP("t-literal-member-initialiser", ALL_PROPS, "selftest/patches/t-literal-member-initialiser.diff", note="the initialiser kept for literals, members of converted dicts stored with set (repaired C19-g)")
S("seed-C20-g", ["C20"], "seeded/C20-g/patch.diff", [("C20", "C20-R12", "match_all")], note="match_all on one matcher; the step over an empty match is taken from the search start, not from the match")
TP("t-match-all-one-vm", ALL_PROPS, "selftest/patches/t-match-all-one-vm.diff", note="the same single-matcher scan stepping from the match (repaired C20-g)")
S("seed-C02-h", ["C02"], "seeded/C02-h/patch.diff", [("C02", "C02-R13", "_throw")], note="frames weighed in a running byte counter kept beside the call stack; the unwinding in _throw pops frames without giving their bytes back", silent=("C04", "C05", "C06", "C07", "C08"))
TP("t-frame-cost-accounting", ALL_PROPS, "selftest/patches/t-frame-cost-accounting.diff", note="the same counter given back by every pop (repaired C02-h)")
M("c02-native-callback-uncounted", ["C02"], VM,
  "            self._enter_host_level()\n            try:\n                return self._call_host(callback, this_val, args)\n            finally:\n                self.host_depth[0] -= 1\n", "            return self._call_host(callback, this_val, args)\n",
  [("C02", "C02-R14", "_call_callback")], note="fix bbcbe90 reverted: a native handed to a native as its callback runs uncharged")
M("c05-program-not-hoisted", ["C05"], CO,
  "        body = self._hoisted(node.body)\n", "        body = node.body\n",
  [("C05", "C05-R13", "compile:node.body")], note="fix cbdbd11 reverted for programs")
M("c05-function-body-not-hoisted", ["C05"], CO,
  "        for stmt in self._hoisted(body.body):\n", "        for stmt in body.body:\n",
  [("C05", "C05-R13", "_compile_function:body.body")], note="fix cbdbd11 reverted for function bodies")
M("c05-arrow-body-not-hoisted", ["C05"], CO,
  "            for stmt in self._hoisted(node.body.body):\n", "            for stmt in node.body.body:\n",
  [("C05", "C05-R13", "_compile_arrow_function:node.body.body")], note="fix cbdbd11 reverted for arrow block bodies")
M("c05-hoist-helper-keeps-order", ["C05"], CO,
  "        return declarations + [\n            s for s in body if not isinstance(s, FunctionDeclaration)\n        ]\n", "        return body\n",
  [("C05", "C05-R13", "declarations-first")], note="the hoisting helper returns the list as it is")
M("c05-hoist-helper-declarations-last", ["C05"], CO,
  "        return declarations + [\n            s for s in body if not isinstance(s, FunctionDeclaration)\n        ]\n", "        return [\n            s for s in body if not isinstance(s, FunctionDeclaration)\n        ] + declarations\n",
  [("C05", "C05-R13", "declarations-first")], note="declarations moved to the end")
M("c18-exponent-from-log10", ["C18"], VM,
  "    return Decimal(abs_n).adjusted()\n", "    return int(math.floor(math.log10(abs_n)))\n",
  [("C18", "C18-R16", "_decimal_exponent")], note="fix 606930f reverted in part: log10 of 999.9999999999999 is 3.0")
M("c18-nearest-by-float-scaling", ["C18"], VM,
  "        scaled = Decimal(abs_n).scaleb(-exponent)\n        return int(scaled.quantize(Decimal(1), rounding=ROUND_HALF_UP))\n", "        return int(math.floor(abs_n * 10 ** (-exponent) + 0.5))\n",
  [("C18", "C18-R16", "_nearest_multiple")], note="fix 606930f reverted in part: 1.45 * 10 is exactly 14.5")
M("c18-tofixed-host-format", ["C18"], VM,
  "            text = str(_nearest_multiple(abs(n), -digits)).rjust(digits + 1, \"0\")\n            if digits:\n                text = text[:-digits] + \".\" + text[-digits:]\n", "            text = f\"{abs(n):.{digits}f}\"\n",
  [("C18", "C18-R16", "toFixed")], note="the host's exact formatting breaks ties to even: (2.5).toFixed(0) would be 2")
M("c18-toprecision-round-builtin", ["C18"], VM,
  "            digits, exp = _rounded_digits(abs(n), precision)\n", "            digits, exp = _rounded_digits(round(abs(n), precision), precision)\n",
  [("C18", "C18-R16", "toPrecision")], note="a host round() before the exact digits")

# ---- wave 14 --------------------------------------------------------------------------------------------
S("seed-C04-g", ["C04"], "seeded/C04-g/patch.diff", [("C04", "C04-R17", "node.param.name")], note="optional catch binding: CatchClause.param becomes Optional, the compiler branch tests it, the var collector still reads node.param.name")
TP("t-optional-catch-binding", ALL_PROPS, "selftest/patches/t-optional-catch-binding.diff", note="the same feature with the collector testing the parameter (repaired C04-g)")
M("c04-handler-read-untested", ["C04"], CO,
  "            if node.handler:\n", "            if node.finalizer or True:\n",
  [("C04", "C04-R17", "node.handler")], note="the try branch reads into the optional handler without testing it")
M("c04-label-read-untested", ["C04"], CO,
  "            target_label = node.label.name if node.label else None\n", "            target_label = node.label.name\n",
  [("C04", "C04-R17", "node.label.name")], count=2, note="break/continue without a label have no label node")
# seed C01-h: obsolete since fix dd9da4c (a nested interpreter reads the clock on entry, so the skipped multiples no longer matter); kept under seeded/ with meta.obsolete
S("seed-C06-g", ["C06"], "seeded/C06-g/patch.diff", [("C06", "C06-R10", "_compile_expression")], note="-0 folded into the constant pool, which deduplicates with ==: 0 and -0 share a slot")
S("seed-C13-g", ["C13"], "seeded/C13-g/patch.diff", [("C13", "C13-R12", "_read_string")], note="escape-free string fast path that does not refuse a raw line break (third author, the slip of C13-e/f)")
S("seed-C14-g", ["C14"], "seeded/C14-g/patch.diff", [("C14", "C14-R1", "_emit|_patch_jump")], note="the 16-bit range check moved to a finishing helper that the arrow compiler does not call")
S("seed-C15-h", ["C15"], "seeded/C15-h/patch.diff", [("C15", "C15-R1d", "_emit")], note="arrow functions hoist their vars by iterating the bare set (the sibling sorts it)")
S("seed-C09-h", ["C09"], "seeded/C09-h/patch.diff", [("C09", "C09-R6", "_match_width")], note="lookbehind start window from a width analysis whose catch-all calls a back-reference one character wide")
TP("t-lookbehind-window", ALL_PROPS, "selftest/patches/t-lookbehind-window.diff", note="the same window with the back-reference named (0, unbounded) (repaired C09-h)")
S("seed-C11-g", ["C11", "C15"], "seeded/C11-g/patch.diff", [("C11", "C11-R11", "path.pop"), ("C15", "C15-R1e", "path.pop")], note="conversion path kept as a set of ids, left with set.pop(), which removes an arbitrary entry")
TP("t-path-as-id-set", ALL_PROPS, "selftest/patches/t-path-as-id-set.diff", note="the same set with discard(id(value)) on the way out (repaired C11-g)")
S("seed-C16-g", ["C16"], "seeded/C16-g/patch.diff", [("C16", "C16-R12", "repeat")], note="repeat: the early return for an empty result placed before the test for an infinite count (re-stated on d1e4721)")
M("c16-repeat-no-argument-test", ["C16"], VM,
  "            if count < 0 or (args and to_number(args[0]) == math.inf):\n                raise JSRangeError(\"Invalid count value\")\n", "",
  [("C16", "C16-R12", "repeat")], note="no RangeError test on the count at all")
M("c18-tofixed-nan-before-range", ["C18"], VM,
  "            if digits < 0 or digits > 100:\n                raise JSRangeError(\"toFixed() digits out of range\")\n            if n != n or math.isinf(n) or abs(n) >= 1e21:\n                return to_string(n)\n", "            if n != n or math.isinf(n) or abs(n) >= 1e21:\n                return to_string(n)\n            if digits < 0 or digits > 100:\n                raise JSRangeError(\"toFixed() digits out of range\")\n",
  [("C18", "C18-R17", "toFixed")], note="NaN.toFixed(101) must throw: the digit count is checked first")
S("seed-C18-g", ["C18", "C06"], "seeded/C18-g/patch.diff", [("C18", "C18-R18", "_is_odd_integer"), ("C06", "C06-R14", "_is_odd_integer")], note="parity of the exponent through math.fmod(x, 2) == 1: false for every negative odd exponent")
TP("t-odd-exponent-helper", ALL_PROPS, "selftest/patches/t-odd-exponent-helper.diff", note="the same helper on abs(x) (repaired C18-g)")
M("c01-run-no-entry-poll", ["C01"], VM,
  "        else:\n            self._poll_deadline()\n", "",
  [("C01", "C01-R11", "eval_fn|function_constructor_fn")], note="fix dd9da4c reverted for eval/Function: run() no longer reads the clock for an interpreter that joins an evaluation")
M("c01-comparator-vm-no-poll", ["C01"], CX,
  "            vm._poll_deadline()\n", "",
  [("C01", "C01-R11", "_call_function")], note="fix dd9da4c reverted for host-driven calls (sort comparator)")
M("c01-entry-poll-counted", ["C01"], VM,
  "        if self.time_limit and time.monotonic() - self.start_time > self.time_limit:\n            raise TimeLimitError(\"Execution timeout\")\n\n    def _check_limits", "        if self.time_limit and self.instruction_count % 1000 == 0 and time.monotonic() - self.start_time > self.time_limit:\n            raise TimeLimitError(\"Execution timeout\")\n\n    def _check_limits",
  [("C01", "C01-R11", "clock-read-on-entry")], note="the entry poll made periodic again: a fresh interpreter's counter is 0, so it would read the clock, but only by accident of the modulus; the rule wants a poll no counter guards")
M("c13-inner-array-stored-raw", ["C13"], PA,
  "                    element = self._continue_assignment_expression(\n                        self._continue_postfix_expression(array_expr)\n                    )\n                    array_stack[current_depth].append(element)\n", "                    array_stack[current_depth].append(array_expr)\n",
  [("C13", "C13-R14", "raw")], note="fix reverted: the inner array is appended as soon as it is closed")
M("c13-inner-array-no-postfix", ["C13"], PA,
  "                    element = self._continue_assignment_expression(\n                        self._continue_postfix_expression(array_expr)\n                    )\n", "                    element = self._continue_assignment_expression(array_expr)\n",
  [("C13", "C13-R14", "postfix")], note="[[1][0]] and [[].length]: member access after the inner array")
M("c13-inner-array-comma-operator", ["C13"], PA,
  "                    element = self._continue_assignment_expression(\n                        self._continue_postfix_expression(array_expr)\n                    )\n", "                    element = self._continue_parsing_expression(\n                        self._continue_postfix_expression(array_expr)\n                    )\n",
  [("C13", "C13-R14", "comma")], note="the full continuation applies the comma operator: [[1], 2] would be one element")
M("c12-running-pointer-cleared", ["C12", "C01"], CX,
  "            self._current_vm = outer\n", "            self._current_vm = None\n",
  [("C12", "C12-R9", "handed-back"), ("C01", "C01-R12", "handed-back")], note="fix 34b30a0 reverted: the pointer is cleared instead of handed back")
M("c01-reentrant-eval-own-clock", ["C01"], CX,
  "        started = time.monotonic() if outer is None else outer.start_time\n", "        started = time.monotonic()\n",
  [("C01", "C01-R12", "handed-back")], note="an evaluation nested through a host function starts a clock of its own")
M("c05-var-without-init-stores-local", ["C05"], CO,
  "                    self._add_local(name)\n                    continue\n", "                    self._add_local(name)\n                    self._emit(OpCode.LOAD_UNDEFINED)\n",
  [("C05", "C05-R14", "no-initialiser")], note="fix 3bc9911 reverted for locals: `var t;` falls through to the store with undefined")
M("c13-decimal-point-needs-digit", ["C13"], LX,
  "        if self._current() == \".\":\n            is_float = True\n", "        if self._current() == \".\" and _is_digit(self._peek()):\n            is_float = True\n",
  [("C13", "C13-R15", "decimal-point")], note="fix 16b493c reverted: 1.e3 is read as 1 followed by .e3")
M("c13-number-end-unchecked", ["C13"], LX,
  "        if ch and (ch.isalnum() or ch in \"_$\"):\n", "        if False:\n",
  [("C13", "C13-R15", "identifier-after-number")], note="3in x and 0x1g accepted again")
M("c13-new-callee-primary-only", ["C13"], PA,
  "            callee = self._continue_postfix_expression(\n                self._parse_new_expression(), members_only=True\n            )\n", "            callee = self._parse_new_expression()\n",
  [("C13", "C13-R16", "callee")], note="fix fbd50ce reverted")
M("c13-new-callee-takes-calls", ["C13"], PA,
  "            callee = self._continue_postfix_expression(\n                self._parse_new_expression(), members_only=True\n            )\n", "            callee = self._continue_postfix_expression(self._parse_new_expression())\n",
  [("C13", "C13-R16", "callee")], note="the callee continued over calls too: new a.b() would construct the result of a.b()")
M("c08-constructor-returns-function-dropped", ["C08"], VM,
  "                if not isinstance(result, (JSObject, JSFunction)):\n", "                if not isinstance(result, JSObject):\n",
  [("C08", "C08-R20", "constructor-result")], note="fix da3ae7d reverted")
M("c09-negated-class-one-case-form", ["C09"], RV,
  "                    if self.ignorecase:\n                        ch_upper = _case_code(ch, ch.upper())\n                        if start <= ch_upper <= end:\n                            matched = True\n                            break\n\n                if not matched:\n", "\n                if not matched:\n",
  [("C09", "C09-R7", "RANGE/RANGE_NEG")], note="fix 8d8b250 reverted for the negated class")
M("c09-dot-matches-cr", ["C09"], RV,
  "                if sp >= len(string) or string[sp] in _LINE_TERMINATORS:\n", "                if sp >= len(string) or string[sp] == \"\\n\":\n",
  [("C09", "C09-R8", "DOT")], note="fix 8d8b250 reverted for the dot")
M("c09-line-terminator-set-short", ["C09"], RV,
  "_LINE_TERMINATORS = frozenset(\"\\n\\r\\u2028\\u2029\")\n", "_LINE_TERMINATORS = frozenset(\"\\n\\r\")\n",
  [("C09", "C09-R8", "line-terminators")], note="LS and PS forgotten")
M("c09-multiline-start-refuses-end", ["C09"], RV,
  "                if sp != 0 and string[sp - 1] not in _LINE_TERMINATORS:\n", "                if sp != 0 and (sp >= len(string) or string[sp - 1] not in _LINE_TERMINATORS):\n",
  [("C09", "C09-R8", "LINE_START_M")], note="^ under m refused at the end of the subject again")
M("c09-optional-reset-before-split", ["C09"], RC,
  "            split_idx = self._emit(Op.SPLIT_FIRST, 0)\n            # The captures of the body start out undefined in the branch that\n", "            self._emit_capture_reset(capture_groups)\n            split_idx = self._emit(Op.SPLIT_FIRST, 0)\n            # The captures of the body start out undefined in the branch that\n",
  [("C09", "C09-R9", "_compile_optional")], note="fix 45df918 reverted for optional copies: a reset in front of the branch point")
M("c09-unrolled-copies-keep-captures", ["C09"], RC,
  "        for _ in range(min_count):\n            self._emit_capture_reset(capture_groups)\n            self._compile_node(body)\n\n        # Then emit * for the rest\n", "        for _ in range(min_count):\n            self._compile_node(body)\n\n        # Then emit * for the rest\n",
  [("C09", "C09-R9", "_compile_at_least:unrolled")], note="fix 45df918 reverted for {n,}")
M("c13-line-continuation-kept", ["C13"], LX,
  "                elif escape in (\"\\n\", \"\\u2028\", \"\\u2029\"):\n                    # A line continuation: backslash and line break are not\n                    # part of the value\n                    pass\n", "",
  [("C13", "C13-R17", "line-continuation")], note="fix 1671805 reverted for strings")
M("c13-regex-not-on-slash-assign", ["C13"], PA,
  "        if self._check(TokenType.SLASH, TokenType.SLASH_ASSIGN):\n", "        if self._check(TokenType.SLASH):\n",
  [("C13", "C13-R17", "regex-on-slash-assign")], note="fix 1671805 reverted for /=a/")
M("c16-includes-accepts-regexp", ["C16"], VM,
  "            if args and isinstance(args[0], JSRegExp):\n                raise JSTypeError(\n                    \"First argument to String.prototype.includes must not be a regular expression\"\n                )\n", "",
  [("C16", "C16-R13", "includes")], note="fix reverted for includes")
M("c05-arrow-vars-not-registered", ["C05"], CO,
  "        for var in sorted(local_vars_set):\n            if var not in self.locals:\n                self.locals.append(var)\n\n        # Nested functions look their outer variables up in this list\n", "        # Nested functions look their outer variables up in this list\n",
  [("C05", "C05-R15", "_compile_arrow_function")], note="fix 4a2a34b reverted: the arrow compiler collects the declared names but does not register them")

# ---- wave 15 --------------------------------------------------------------------------------------------
S("seed-C02-i", ["C02", "C05"], "seeded/C02-i/patch.diff", [("C02", "C02-R6", "finally-rethrow"), ("C05", "C05-R3", "finally-rethrow")], note="the operand bookkeeping of leaving contexts made the else of `if ctx.is_try`: the pseudo-contexts that are try contexts AND hold an operand are skipped")
S("seed-C05-i", ["C05", "C02"], "seeded/C05-i/patch.diff", [("C05", "C05-R3", "switch"), ("C02", "C02-R6", "switch")], note="a labelled switch built as a labelled non-loop context: the unlabelled-break search skips it")
S("seed-C07-i", ["C07"], "seeded/C07-i/patch.diff", [("C07", "C07-R10", "_call_callback")], note="frames of the callback deleted in the finally of the nested run loop: the error is stamped with the caller's location")
S("seed-C10-h", ["C10", "C09"], "seeded/C10-h/patch.diff", [("C10", "C10-R8", "_run_lookbehind"), ("C09", "C09-R5", "_run_lookbehind")], note="lookbehind window without the clamp at 0: the matcher is entered at a negative position")
S("seed-C17-h", ["C17"], "seeded/C17-h/patch.diff", [("C17", "C17-R10", "visited_elements")], note="the element generator binds arr._elements once: splice and length assignment replace the list under it")
S("seed-C20-h", ["C20"], "seeded/C20-h/patch.diff", [("C20", "C20-R13", "match_all")], note="match_all on one matcher: the early exit on a failed attempt no longer resets lastIndex")
TP("t-match-all-own-matcher", ALL_PROPS, "selftest/patches/t-match-all-own-matcher.diff", note="the same scan with lastIndex reset on the early exit (repaired C20-h)")
S("seed-C12-h", ["C12"], "seeded/C12-h/patch.diff", [("C12", "C12-R10", "begin_evaluation")], note="one interpreter per context, re-initialised for every top-level evaluation without clearing the handler records")
TP("t-context-keeps-one-interpreter", ALL_PROPS, "selftest/patches/t-context-keeps-one-interpreter.diff", note="the same design with the handler stack cleared (repaired C12-h)")
S("seed-C08-h", ["C08"], "seeded/C08-h/patch.diff", [("C08", "C08-R21", "hasOwnProperty|getOwnPropertyDescriptor")], note="has_own helper written on top of the chain-walking get_getter/get_setter")
TP("t-has-own-helper", ALL_PROPS, "selftest/patches/t-has-own-helper.diff", note="the same helper on the receiver's own tables (repaired C08-h)")
S("seed-C03-h", ["C03"], "seeded/C03-h/patch.diff", [("C03", "C03-R11", "_get_source_location")], note="location helper returns None on one exit and (None, None) on another; the caller's single test lets host Nones into lineNumber/columnNumber")
TP("t-thrown-values-arrive-unstamped", ALL_PROPS, "selftest/patches/t-thrown-values-arrive-unstamped.diff", note="the same change with one spelling of nothing (repaired C03-h)")
S("seed-C19-h", ["C19"], "seeded/C19-h/patch.diff", [("C19", "C19-R10", "_JSON_ESCAPES")], note="own JSON escape table: an update over all of range(0x20) overwrites the five short escapes", silent=("C12", "C15"))
TP("t-json-quote-table", ALL_PROPS, "selftest/patches/t-json-quote-table.diff", note="the same table built in the right order (repaired C19-h)")
M("c07-nested-throw-value-dropped", ["C07"], VM,
  "            error.thrown = exc\n", "",
  [("C07", "C07-R11", "carries-value")], note="fix 5f2ee5c reverted on the raising side")
M("c07-nested-throw-rebuilt", ["C07"], VM,
  "            if hasattr(e, \"thrown\"):\n                # What a nested evaluation threw and did not catch: the value\n                # itself goes on to the handler, not an error made from its text\n                self._throw(e.thrown)\n            else:\n                self._handle_python_exception(e.name, e.message)\n", "            self._handle_python_exception(e.name, e.message)\n",
  [("C07", "C07-R11", "rethrows-value")], note="fix 5f2ee5c reverted on the receiving side")
M("c17-reduce-initial-by-value", ["C17"], VM,
  "            no_initial = len(args) < 2\n", "            no_initial = len(args) < 2 or args[1] is UNDEFINED\n",
  [("C17", "C17-R26", "initial-value-by-count")], count=2, note="fix 1be946b reverted for reduce/reduceRight")
M("c17-iteration-this-dropped", ["C17"], VM,
  "vm._call_callback(callback, [elem, i, arr], this_arg)", "vm._call_callback(callback, [elem, i, arr])",
  [("C17", "C17-R26", "this-argument")], count=7, note="fix 1be946b reverted for thisArg")
M("c12-comparator-runs-on-copied-globals", ["C12"], CX,
  "        vm.globals = self._globals\n        if self._current_vm is not None:\n", "        vm.globals.update(self._globals)\n        if self._current_vm is not None:\n",
  [("C12", "C12-R4", "_call_function")], note="fix af64456 reverted half-way: copy-in without copy-back",
  more=[])
M("c08-delete-returns-found-flag", ["C08"], VM,
  "            obj.delete(key_str)\n            # true unless the property exists and cannot be deleted; objects\n            # have no such properties, and deleting one that is not there\n            # succeeds\n            return True\n", "            return obj.delete(key_str)\n",
  [("C08", "C08-R22", "_delete_property")], note="fix 3c567ff reverted")
M("c07-sub-plain-conversion", ["C07"], VM,
  "            a_num = self._to_number(a)\n            b_num = self._to_number(b)\n            self.stack.append(js_number(a_num - b_num))\n", "            self.stack.append(js_number(to_number(a) - to_number(b)))\n",
  [("C07", "C07-R12", "SUB")], note="fix e46fd48 reverted for -")
M("c07-pow-right-operand-first", ["C07"], VM,
  "            a_num = self._to_number(a)\n            b_num = self._to_number(b)\n            self.stack.append(js_pow(a_num, b_num))\n", "            b_num = self._to_number(b)\n            a_num = self._to_number(a)\n            self.stack.append(js_pow(a_num, b_num))\n",
  [("C07", "C07-R12", "POW")], note="operands converted right to left")

# ---- wave 16 --------------------------------------------------------------------------------------------
S("seed-C01-i", ["C01"], "seeded/C01-i/patch.diff", [("C01", "C01-R4", "_compile_string_pattern")], note="string patterns of match compiled through a process-wide cache without a poll callback; one call site forgets to adopt the regex")
S("seed-C04-h", ["C10", "C20"], "seeded/C04-h/patch.diff", [("C10", "C10-R10", "exec"), ("C20", "C20-R9", "exec")], note="written against C04: exec folded into one dispatch, the beyond-the-end test only on the search path - sticky regexes enter the matcher past the subject (host IndexError)")
S("seed-C06-h", ["C06"], "seeded/C06-h/patch.diff", [("C06", "C06-R5", "INC|DEC")], note="++/-- fast path for ints pushes a + 1 without the normaliser")
TP("t-inc-dec-int-fast-path", ALL_PROPS, "selftest/patches/t-inc-dec-int-fast-path.diff", note="the same fast path through js_number (repaired C06-h)")
S("seed-C09-i", ["C09"], "seeded/C09-i/patch.diff", [("C09", "C09-R10", "_run_lookbehind")], note="the lookbehind's scratch copy of the captures hoisted out of the loop over start positions")
S("seed-C11-h", ["C11"], "seeded/C11-h/patch.diff", [("C11", "C11-R8", "_to_python")], note="empty containers skip the bookkeeping; one branch returns after entering the path and before the try that pops it")
S("seed-C13-h", ["C13"], "seeded/C13-h/patch.diff", [("C13", "C13-R10", "_skip_whitespace")], note="block comments skipped with str.find from one character into the opener: /*/ is a complete comment")
S("seed-C14-h", ["C14"], "seeded/C14-h/patch.diff", [("C14", "C14-R1", "_emit|_patch_jump|_encode_jump_target")], note="jump encoding folded into a helper that _emit calls unchecked: the backward jump of do-while has no forward jump to carry the size check")
S("seed-C15-i", ["C15"], "seeded/C15-i/patch.diff", [("C15", "C15-R1f", "accessor_keys")], note="accessor keys listed through list(set(getters) | set(setters)): for-in and Object.keys follow the hash seed")
TP("t-accessor-keys-enumerated", ALL_PROPS, "selftest/patches/t-accessor-keys-enumerated.diff", note="the same feature with an insertion-ordered union (repaired C15-i)")
S("seed-C16-h", ["C16"], "seeded/C16-h/patch.diff", [("C16", "C16-R7", "position")], note="position helper uses its default only for a missing argument: endsWith(x, undefined) clamps to 0")
TP("t-string-position-default", ALL_PROPS, "selftest/patches/t-string-position-default.diff", note="the same helper handing its default to to_integer (repaired C16-h)")
S("seed-C18-h", ["C18"], "seeded/C18-h/patch.diff", [("C18", "C18-R19", "_global_parseint")], note="parseInt digit table looked up with ch.lower(): U+212A KELVIN SIGN becomes the digit k")
TP("t-parseint-digit-table", ALL_PROPS, "selftest/patches/t-parseint-digit-table.diff", note="the same table behind an isascii() test (repaired C18-h)")
M("c07-location-from-advanced-ip", ["C07"], VM,
  "            for ip in range(frame.ip - 1, -1, -1):\n", "            for ip in range(frame.ip, -1, -1):\n",
  [("C07", "C07-R13", "walk-from")], note="location lookup from the already advanced instruction pointer")
M("c08-converted-lists-unlinked", ["C08"], CX,
  "                arr = JSArray()\n                arr._prototype = self._array_prototype\n", "                arr = JSArray()\n",
  [("C08", "C08-R23", "_to_js")], note="fix 1cb9be0 reverted for converted lists")
M("c17-typed-array-from-typed-array-empty", ["C17"], CX,
  "            elif isinstance(arg, (JSArray, JSTypedArray)):\n", "            elif isinstance(arg, JSArray):\n",
  [("C17", "C17-R27", "typed array")], note="fix reverted: new Uint8Array(typedArray) is empty")
M("c08-function-prototype-unlinked", ["C08"], VM,
  "                    prototype._prototype = object_constructor._prototype\n", "                    pass\n",
  [("C08", "C08-R24", "inherits-Object.prototype")], note="fix reverted: F.prototype has no prototype")
M("c08-getprototypeof-function-null", ["C08"], CX,
  "            if isinstance(obj, JSFunction):\n                # Every function inherits from Function.prototype\n", "            if False:\n                # Every function inherits from Function.prototype\n",
  [("C08", "C08-R25", "get_prototype_of")], note="fix 37f567b reverted for getPrototypeOf")
