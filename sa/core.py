"""E0 FACTS: parsed-program model of /repo/src/microjs shared by all rules.

Nothing here imports or executes microjs: the package is only parsed with `ast`.
"""

from __future__ import annotations

import ast
import copy
import builtins
import hashlib
import os
import sys
from typing import Dict, Iterable, Iterator, List, Optional, Set, Tuple

REPO = os.environ.get("VERIF_REPO", "/repo")
PKG_REL = "src/microjs"


class AnalysisError(Exception):
    """The analyser could not do its job (vanished anchor, floor not met, ...)."""


def norm(node: ast.AST) -> str:
    """Normalised source text of a node (line/format independent)."""
    try:
        return ast.unparse(node)
    except Exception:  # pragma: no cover
        return ast.dump(node)


def short(node: ast.AST, n: int = 90) -> str:
    s = " ".join(norm(node).split())
    return s if len(s) <= n else s[: n - 3] + "..."


class Module:
    def __init__(self, name: str, path: str, rel: str, src: str, tree: ast.Module):
        self.name = name  # e.g. "vm", "regex.vm"
        self.path = path
        self.rel = rel  # src/microjs/vm.py
        self.src = src
        self.tree = tree
        self.imports: Dict[str, Tuple[str, Optional[str]]] = {}
        # local name -> (module name or external module, attr or None)
        self.classes: Dict[str, "ClassInfo"] = {}
        self.functions: Dict[str, "Func"] = {}  # module-level functions

    def __repr__(self):
        return f"<Module {self.name}>"


class ClassInfo:
    def __init__(self, module: Module, node: ast.ClassDef):
        self.module = module
        self.node = node
        self.name = node.name
        self.base_names: List[str] = [norm(b) for b in node.bases]
        self.methods: Dict[str, "Func"] = {}
        self.all_methods: List["Func"] = []  # including same-named defs (property getter/setter pairs)
        self.bases: List["ClassInfo"] = []  # resolved repo classes

    @property
    def qual(self) -> str:
        return f"{self.module.name}:{self.name}"

    def __repr__(self):
        return f"<Class {self.qual}>"


class Func:
    def __init__(
        self,
        module: Module,
        node: ast.AST,
        name: str,
        parent: Optional["Func"],
        cls: Optional[ClassInfo],
        is_method: bool,
    ):
        self.module = module
        self.node = node
        self.name = name
        self.parent = parent
        self.cls = cls  # class lexically enclosing (directly or via parent funcs)
        self.is_method = is_method
        self.children: Dict[str, "Func"] = {}
        self.lambdas: List["Func"] = []

    @property
    def qual(self) -> str:
        parts = [self.name]
        p = self.parent
        while p is not None:
            parts.append(p.name)
            p = p.parent
        if self.cls is not None:
            parts.append(self.cls.name)
        return f"{self.module.name}:" + ".".join(reversed(parts))

    @property
    def line(self) -> int:
        return getattr(self.node, "lineno", 0)

    @property
    def loc(self) -> str:
        return f"{self.module.rel}:{self.line}"

    def params(self) -> List[str]:
        a = self.node.args
        names = [x.arg for x in a.posonlyargs + a.args + a.kwonlyargs]
        if a.vararg:
            names.append(a.vararg.arg)
        if a.kwarg:
            names.append(a.kwarg.arg)
        return names

    def body(self) -> List[ast.stmt]:
        if isinstance(self.node, ast.Lambda):
            return [ast.Expr(self.node.body)]
        return self.node.body

    def __repr__(self):
        return f"<Func {self.qual}>"

    def own_nodes(self) -> List[ast.AST]:
        """All AST nodes of this function, excluding nested function/class bodies."""
        cached = getattr(self, "_own", None)
        if cached is not None:
            return cached
        out = []
        stack = list(ast.iter_child_nodes(self.node))
        while stack:
            n = stack.pop()
            out.append(n)
            if isinstance(n, (ast.FunctionDef, ast.AsyncFunctionDef, ast.Lambda, ast.ClassDef)):
                # the def node itself is listed, but not descended into
                continue
            stack.extend(ast.iter_child_nodes(n))
        out.sort(key=lambda n: (getattr(n, "lineno", 0), getattr(n, "col_offset", 0)))
        self._own = out
        return out


BUILTIN_EXC: Dict[str, Optional[str]] = {}
for _n in dir(builtins):
    _o = getattr(builtins, _n)
    if isinstance(_o, type) and issubclass(_o, BaseException):
        _b = _o.__mro__[1].__name__ if len(_o.__mro__) > 1 else None
        BUILTIN_EXC[_n] = None if _b == "object" else _b
# a few stdlib exception classes the repo mentions
BUILTIN_EXC["JSONDecodeError"] = "ValueError"
BUILTIN_EXC["json.JSONDecodeError"] = "ValueError"
BUILTIN_EXC["struct.error"] = "Exception"


# ---- `with self.<generator context manager>(..): BODY` read as the statements it stands for ---------------------
class _Subst(ast.NodeTransformer):
    def __init__(self, env: Dict[str, ast.AST]):
        self.env = env

    def visit_Name(self, node: ast.Name):
        if isinstance(node.ctx, ast.Load) and node.id in self.env:
            return ast.copy_location(copy.deepcopy(self.env[node.id]), node)
        return node


def _fold_none_tests(stmts: List[ast.stmt]) -> List[ast.stmt]:
    """`if None is not None: ...` and `if <literal> is None: ...` decided; everything else kept."""
    out: List[ast.stmt] = []
    for st in stmts:
        if isinstance(st, ast.If) and isinstance(st.test, ast.Compare) and len(st.test.ops) == 1 and isinstance(st.test.ops[0], (ast.Is, ast.IsNot)) and isinstance(st.test.left, ast.Constant) and isinstance(st.test.comparators[0], ast.Constant):
            same = st.test.left.value is st.test.comparators[0].value
            truth = same if isinstance(st.test.ops[0], ast.Is) else not same
            out += _fold_none_tests(st.body if truth else st.orelse)
        else:
            out.append(st)
    return out


def _cm_shape(fn: ast.FunctionDef):
    """(pre, inner_pre, post, guarded) for a generator context manager of one of the two shapes
           pre...; yield; post...                       (guarded False)
           pre...; try: inner_pre...; yield  finally: post...      (guarded True)
    or None."""
    body = [x for x in fn.body if not (isinstance(x, ast.Expr) and isinstance(x.value, ast.Constant))]

    def is_yield(x):
        return isinstance(x, ast.Expr) and isinstance(x.value, ast.Yield)

    if sum(1 for x in ast.walk(fn) if isinstance(x, (ast.Yield, ast.YieldFrom))) != 1:
        return None
    for i, st in enumerate(body):
        if is_yield(st):
            return body[:i], [], body[i + 1:], False
        if isinstance(st, ast.Try) and not st.handlers and not st.orelse and st.body and is_yield(st.body[-1]) and i == len(body) - 1:
            return body[:i], st.body[:-1], st.finalbody, True
        if any(isinstance(x, (ast.Yield, ast.YieldFrom)) for x in ast.walk(st)):
            return None
    return None


def inline_context_managers(tree: ast.Module) -> int:
    """Replace `with self.m(args): BODY` - where m is a @contextmanager generator method of the same class with one
    yield - by the statements it stands for, so that every analysis sees the acquire / try / finally it would see had
    the author written them out (line numbers: those of the with statement).  Returns the number of replacements."""
    n = 0
    for cls in [c for c in ast.walk(tree) if isinstance(c, ast.ClassDef)]:
        cms: Dict[str, Tuple[ast.FunctionDef, tuple]] = {}
        for m in cls.body:
            if isinstance(m, ast.FunctionDef) and any((isinstance(d, ast.Name) and d.id == "contextmanager") or (isinstance(d, ast.Attribute) and d.attr == "contextmanager") for d in m.decorator_list):
                sh = _cm_shape(m)
                if sh is not None:
                    cms[m.name] = (m, sh)
        if not cms:
            continue

        class _Inline(ast.NodeTransformer):
            def visit_With(self, node: ast.With):
                self.generic_visit(node)
                nonlocal n
                if len(node.items) != 1 or node.items[0].optional_vars is not None:
                    return node
                ce = node.items[0].context_expr
                if not (isinstance(ce, ast.Call) and isinstance(ce.func, ast.Attribute) and isinstance(ce.func.value, ast.Name) and ce.func.value.id == "self" and ce.func.attr in cms):
                    return node
                fn, (pre, inner, post, guarded) = cms[ce.func.attr]
                params = [a.arg for a in fn.args.args][1:]
                defaults = [None] * (len(params) - len(fn.args.defaults)) + list(fn.args.defaults)
                env: Dict[str, ast.AST] = {}
                for i, p_ in enumerate(params):
                    if i < len(ce.args):
                        env[p_] = ce.args[i]
                    elif defaults[i] is not None:
                        env[p_] = defaults[i]
                for kw in ce.keywords:
                    if kw.arg in params:
                        env[kw.arg] = kw.value
                if any(p_ not in env for p_ in params) or any(isinstance(a, ast.Starred) for a in ce.args):
                    return node

                # locals of the context manager keep out of the caller's way
                own = {t.id for st in pre + inner + post for x in ast.walk(st) if isinstance(x, (ast.Assign, ast.AugAssign, ast.AnnAssign)) for t in (x.targets if isinstance(x, ast.Assign) else [x.target]) if isinstance(t, ast.Name)}
                caller_names = {x.id for x in ast.walk(node) if isinstance(x, ast.Name)}
                ren = {v: f"{v}__{fn.name.strip('_')}" for v in own if v in caller_names}

                def inst(stmts, line):
                    out = []
                    for st in stmts:
                        c = _Subst(env).visit(copy.deepcopy(st))
                        for x in ast.walk(c):
                            if isinstance(x, ast.Name) and x.id in ren:
                                x.id = ren[x.id]
                            if hasattr(x, "lineno"):
                                x.lineno = line
                                x.end_lineno = line
                        out.append(c)
                    return _fold_none_tests(out)

                last = getattr(node, "end_lineno", node.lineno) or node.lineno
                tr = ast.Try(body=inst(inner, node.lineno) + node.body, handlers=[], orelse=[], finalbody=inst(post, last))
                ast.copy_location(tr, node)
                if not guarded:
                    # no try around the yield: what follows it runs only when the block ends normally (a return or an
                    # exception inside the block closes the generator at the yield)
                    repl = inst(pre, node.lineno) + node.body + inst(post, last)
                elif not tr.finalbody:
                    repl = inst(pre, node.lineno) + inst(inner, node.lineno) + node.body
                else:
                    repl = inst(pre, node.lineno) + [tr]
                n += 1
                current[0]._inlined_cms = getattr(current[0], "_inlined_cms", set()) | {fn.name}
                return repl

        current: List[ast.FunctionDef] = [None]  # type: ignore[list-item]
        for m in cls.body:
            if isinstance(m, ast.FunctionDef) and m.name not in cms:
                current[0] = m
                _Inline().visit(m)
        ast.fix_missing_locations(cls)
    return n


# ---- tiny helpers around the call stack read as the statements they stand for -------------------------------------
def inline_call_stack_helpers(tree: ast.Module) -> int:
    """`self._push_frame(f)` / `x = self._pop_frame()`: a method whose whole body is at most four simple statements
    (assignments and expression statements, an optional final return) and that appends to or pops self.call_stack is
    an accounting wrapper around the push or pop.  Its calls in statement position are replaced by its statements
    (parameters substituted, locals renamed apart), so every rule that reads pushes and pops of the call stack - and
    the one that asks whether whatever accompanies them accompanies ALL of them - sees them where they happen."""
    n = 0
    for cls in [c for c in ast.walk(tree) if isinstance(c, ast.ClassDef)]:
        helpers: Dict[str, ast.FunctionDef] = {}
        for m in cls.body:
            if not isinstance(m, ast.FunctionDef) or m.decorator_list or m.args.vararg or m.args.kwarg:
                continue
            body = [x for x in m.body if not (isinstance(x, ast.Expr) and isinstance(x.value, ast.Constant))]
            if not body or len(body) > 4:
                continue
            core = body[:-1] if isinstance(body[-1], ast.Return) else body
            if not all(isinstance(x, (ast.Assign, ast.AugAssign, ast.Expr)) for x in core):
                continue
            if any(isinstance(y, (ast.Yield, ast.YieldFrom, ast.Lambda)) for x in body for y in ast.walk(x)):
                continue
            touches = any(isinstance(y, ast.Call) and isinstance(y.func, ast.Attribute) and y.func.attr in ("append", "pop") and isinstance(y.func.value, ast.Attribute) and y.func.value.attr == "call_stack" for x in body for y in ast.walk(x))
            if touches:
                helpers[m.name] = m
        if not helpers:
            continue

        def expand(call: ast.Call, target: Optional[ast.AST], line: int) -> Optional[List[ast.stmt]]:
            fn = helpers[call.func.attr]
            params = [a.arg for a in fn.args.args][1:]
            if len(call.args) != len(params) or call.keywords or any(isinstance(a, ast.Starred) for a in call.args):
                return None
            env = dict(zip(params, call.args))
            body = [x for x in fn.body if not (isinstance(x, ast.Expr) and isinstance(x.value, ast.Constant))]
            own = {t.id for st in body for x in ast.walk(st) if isinstance(x, ast.Assign) for t in x.targets if isinstance(t, ast.Name)}
            ren = {v: f"{v}__{fn.name.strip('_')}" for v in own}
            out: List[ast.stmt] = []
            for st in body:
                c = _Subst(env).visit(copy.deepcopy(st))
                for x in ast.walk(c):
                    if isinstance(x, ast.Name) and x.id in ren:
                        x.id = ren[x.id]
                    if hasattr(x, "lineno"):
                        x.lineno = line
                        x.end_lineno = line
                if isinstance(c, ast.Return):
                    if target is not None and c.value is not None:
                        a = ast.Assign(targets=[copy.deepcopy(target)], value=c.value)
                        ast.copy_location(a, c)
                        out.append(a)
                    elif c.value is not None:
                        e = ast.Expr(value=c.value)
                        ast.copy_location(e, c)
                        out.append(e)
                else:
                    out.append(c)
            return out

        class _Inline(ast.NodeTransformer):
            def _is_helper_call(self, v):
                return isinstance(v, ast.Call) and isinstance(v.func, ast.Attribute) and isinstance(v.func.value, ast.Name) and v.func.value.id == "self" and v.func.attr in helpers

            def visit_Expr(self, node: ast.Expr):
                nonlocal n
                if self._is_helper_call(node.value):
                    r = expand(node.value, None, node.lineno)
                    if r is not None:
                        n += 1
                        return r
                return node

            def visit_Assign(self, node: ast.Assign):
                nonlocal n
                if len(node.targets) == 1 and self._is_helper_call(node.value):
                    r = expand(node.value, node.targets[0], node.lineno)
                    if r is not None:
                        n += 1
                        return r
                return node

        for m in cls.body:
            if isinstance(m, ast.FunctionDef) and m.name not in helpers:
                _Inline().visit(m)
        ast.fix_missing_locations(cls)
    return n


class Tree:
    """All modules of the package, indexed."""

    def __init__(self, repo: str = REPO):
        self.repo = repo
        self.pkg_dir = os.path.join(repo, PKG_REL)
        if not os.path.isdir(self.pkg_dir):
            raise AnalysisError(f"package directory not found: {self.pkg_dir}")
        self.modules: Dict[str, Module] = {}
        self.funcs: List[Func] = []
        self.func_of_node: Dict[int, Func] = {}  # id(def node) -> Func
        self.classes: Dict[str, List[ClassInfo]] = {}
        self._load()
        self._index()
        self._resolve_bases()

    # ------------------------------------------------------------------ loading
    def _load(self) -> None:
        h = hashlib.sha256()
        for root, dirs, files in os.walk(self.pkg_dir):
            dirs[:] = sorted(d for d in dirs if d != "__pycache__")
            for f in sorted(files):
                if not f.endswith(".py"):
                    continue
                path = os.path.join(root, f)
                rel = os.path.relpath(path, self.repo)
                modrel = os.path.relpath(path, self.pkg_dir)[:-3].replace(os.sep, ".")
                if modrel.endswith("__init__"):
                    modrel = modrel[: -len("__init__")].rstrip(".") or "__init__"
                with open(path, "r", encoding="utf-8") as fh:
                    src = fh.read()
                h.update(rel.encode())
                h.update(src.encode())
                try:
                    tree = ast.parse(src, filename=path)
                except SyntaxError as e:
                    raise AnalysisError(f"cannot parse {rel}: {e}")
                if os.environ.get("VERIF_NO_DESUGAR") != "1":
                    inline_context_managers(tree)
                    inline_call_stack_helpers(tree)
                self.modules[modrel] = Module(modrel, path, rel, src, tree)
        self.digest = h.hexdigest()
        if len(self.modules) < 10:
            raise AnalysisError(f"only {len(self.modules)} modules found under {self.pkg_dir}")

    def mod(self, name: str) -> Module:
        if name not in self.modules:
            raise AnalysisError(f"module {name} not found (anchor vanished)")
        return self.modules[name]

    # ----------------------------------------------------------------- indexing
    def _index(self) -> None:
        for m in self.modules.values():
            for n in ast.walk(m.tree):
                for c in ast.iter_child_nodes(n):
                    c._parent = n  # type: ignore[attr-defined]
            m.tree._parent = None  # type: ignore[attr-defined]
            self._index_imports(m)
            self._index_scope(m, m.tree.body, None, None, top=True)
        # map every node to its enclosing Func
        for f in self.funcs:
            for n in f.own_nodes():
                n._func = f  # type: ignore[attr-defined]
            f.node._deffunc = f  # type: ignore[attr-defined]

    def _index_imports(self, m: Module) -> None:
        for n in ast.walk(m.tree):
            if isinstance(n, ast.ImportFrom):
                if n.level > 0:
                    base = m.name.split(".")[:-1] if m.name != "__init__" else []
                    if m.path.endswith("__init__.py") and m.name != "__init__":
                        base = m.name.split(".")
                    for _ in range(n.level - 1):
                        base = base[:-1]
                    target = ".".join(base + ([n.module] if n.module else []))
                    for a in n.names:
                        m.imports[a.asname or a.name] = ("repo:" + target, a.name)
                else:
                    for a in n.names:
                        m.imports[a.asname or a.name] = ("ext:" + (n.module or ""), a.name)
            elif isinstance(n, ast.Import):
                for a in n.names:
                    m.imports[a.asname or a.name.split(".")[0]] = ("ext:" + a.name, None)

    def _index_scope(self, m: Module, body, parent: Optional[Func], cls: Optional[ClassInfo], top=False):
        """Index defs found (at any statement depth, not through nested defs) in body."""
        stack = list(reversed(body))  # popped in source order
        while stack:
            n = stack.pop()
            if isinstance(n, (ast.FunctionDef, ast.AsyncFunctionDef)):
                is_method = parent is None and cls is not None and getattr(n, "_parent", None) is cls.node
                f = Func(m, n, n.name, parent, cls, is_method)
                self.funcs.append(f)
                self.func_of_node[id(n)] = f
                if parent is not None:
                    parent.children[n.name] = f
                elif cls is not None and is_method:
                    cls.methods[n.name] = f  # the later def wins, as in Python
                    cls.all_methods.append(f)
                elif cls is None:
                    m.functions[n.name] = f
                self._index_scope(m, n.body, f, cls)
                # lambdas inside defaults/decorators are rare; ignore
            elif isinstance(n, ast.ClassDef):
                ci = ClassInfo(m, n)
                if parent is None and cls is None:
                    m.classes[n.name] = ci
                self.classes.setdefault(n.name, []).append(ci)
                self._index_scope(m, n.body, None, ci)
            elif isinstance(n, ast.Lambda):
                owner = parent
                f = Func(m, n, f"<lambda@{n.lineno}>", parent, cls, False)
                self.funcs.append(f)
                self.func_of_node[id(n)] = f
                if owner is not None:
                    owner.lambdas.append(f)
                self._index_scope(m, [n.body], f, cls)
            else:
                stack.extend(reversed(list(ast.iter_child_nodes(n))))

    def _resolve_bases(self) -> None:
        for lst in self.classes.values():
            for ci in lst:
                for b in ci.base_names:
                    r = self.resolve_class_name(ci.module, b)
                    if r is not None:
                        ci.bases.append(r)

    # --------------------------------------------------------------- resolution
    def resolve_class_name(self, m: Module, name: str) -> Optional[ClassInfo]:
        """Resolve a (possibly imported/aliased) class name as seen from module m."""
        name = name.split("[")[0]
        if "." in name:
            name = name.split(".")[-1]
        if name in m.classes:
            return m.classes[name]
        imp = m.imports.get(name)
        if imp and imp[0].startswith("repo:"):
            return self._resolve_export(imp[0][5:], imp[1], set())
        return None

    def _resolve_export(self, modname: str, attr: Optional[str], seen: Set) -> Optional[ClassInfo]:
        if (modname, attr) in seen or attr is None:
            return None
        seen.add((modname, attr))
        mod = self.modules.get(modname)
        if mod is None:
            return None
        if attr in mod.classes:
            return mod.classes[attr]
        imp = mod.imports.get(attr)
        if imp and imp[0].startswith("repo:"):
            return self._resolve_export(imp[0][5:], imp[1], seen)
        return None

    def resolve_function_name(self, m: Module, name: str) -> Optional[Func]:
        if name in m.functions:
            return m.functions[name]
        imp = m.imports.get(name)
        if imp and imp[0].startswith("repo:"):
            mod = self.modules.get(imp[0][5:])
            seen = set()
            attr = imp[1]
            while mod is not None and attr is not None and (mod.name, attr) not in seen:
                seen.add((mod.name, attr))
                if attr in mod.functions:
                    return mod.functions[attr]
                imp2 = mod.imports.get(attr)
                if imp2 and imp2[0].startswith("repo:"):
                    mod = self.modules.get(imp2[0][5:])
                    attr = imp2[1]
                else:
                    break
        return None

    def mro(self, ci: ClassInfo) -> List[ClassInfo]:
        out, seen = [], set()
        stack = [ci]
        while stack:
            c = stack.pop(0)
            if id(c) in seen:
                continue
            seen.add(id(c))
            out.append(c)
            stack.extend(c.bases)
        return out

    def find_method(self, ci: ClassInfo, name: str) -> Optional[Func]:
        for c in self.mro(ci):
            if name in c.methods:
                return c.methods[name]
        return None

    def class_named(self, name: str) -> ClassInfo:
        lst = self.classes.get(name) or []
        if len(lst) != 1:
            raise AnalysisError(f"expected exactly one class named {name}, found {len(lst)}")
        return lst[0]

    def func(self, qual: str) -> Func:
        for f in self.funcs:
            if f.qual == qual:
                return f
        raise AnalysisError(f"function {qual} not found (anchor vanished)")

    def funcs_named(self, name: str) -> List[Func]:
        return [f for f in self.funcs if f.name == name]

    def method(self, cls: str, name: str) -> Func:
        ci = self.class_named(cls)
        f = self.find_method(ci, name)
        if f is None:
            raise AnalysisError(f"method {cls}.{name} not found (anchor vanished)")
        return f

    # --------------------------------------------------- exception hierarchy
    def exc_ancestors(self, m: Module, name: str) -> List[str]:
        """Names of all ancestors (inclusive) of exception class `name` as seen from m.

        Repo classes are followed through their bases into the builtin hierarchy.
        """
        out: List[str] = []
        ci = self.resolve_class_name(m, name)
        if ci is not None:
            for c in self.mro(ci):
                out.append(c.name)
                for b in c.base_names:
                    if self.resolve_class_name(c.module, b) is None:
                        out.extend(self._builtin_chain(b))
            return list(dict.fromkeys(out))
        return self._builtin_chain(name)

    @staticmethod
    def _builtin_chain(name: str) -> List[str]:
        base = name.split(".")[-1] if name not in BUILTIN_EXC else name
        out = []
        cur: Optional[str] = base
        while cur is not None and cur not in out:
            out.append(cur)
            cur = BUILTIN_EXC.get(cur)
        if out == [base] and base not in BUILTIN_EXC:
            out.append("Exception?")  # unknown class: assume Exception subclass
            out.extend(["Exception", "BaseException"])
        return out

    def handler_catches(self, m: Module, handler: ast.ExceptHandler, exc_name: str, exc_mod: Optional[Module] = None) -> bool:
        """Does `except <handler.type>` catch an exception of class exc_name?"""
        if handler.type is None:
            return True
        anc = set(self.exc_ancestors(exc_mod or m, exc_name))
        types = handler.type.elts if isinstance(handler.type, ast.Tuple) else [handler.type]
        for t in types:
            tn = norm(t).split(".")[-1]
            if tn in anc:
                return True
            # handler names a repo class: compare resolved identity by name
        return False


# ---------------------------------------------------------------------- helpers
def enclosing_func(node: ast.AST) -> Optional[Func]:
    return getattr(node, "_func", None)


def parents(node: ast.AST) -> Iterator[ast.AST]:
    p = getattr(node, "_parent", None)
    while p is not None:
        yield p
        p = getattr(p, "_parent", None)


def enclosing_stmt(node: ast.AST) -> ast.stmt:
    n = node
    while not isinstance(n, ast.stmt):
        n = n._parent  # type: ignore[attr-defined]
    return n


def is_call_to(node: ast.AST, *names: str) -> bool:
    """node is a Call whose func's last component is one of names."""
    if not isinstance(node, ast.Call):
        return False
    f = node.func
    if isinstance(f, ast.Name):
        return f.id in names
    if isinstance(f, ast.Attribute):
        return f.attr in names
    return False


def call_name(node: ast.Call) -> str:
    f = node.func
    if isinstance(f, ast.Name):
        return f.id
    if isinstance(f, ast.Attribute):
        return f.attr
    return norm(f)


def dotted(node: ast.AST) -> Optional[str]:
    """a.b.c -> 'a.b.c' for Name/Attribute chains, else None."""
    parts = []
    while isinstance(node, ast.Attribute):
        parts.append(node.attr)
        node = node.value
    if isinstance(node, ast.Name):
        parts.append(node.id)
        return ".".join(reversed(parts))
    return None


def walk_no_nested(node: ast.AST) -> Iterator[ast.AST]:
    """Walk a statement/expression without entering nested defs/lambdas/classes."""
    stack = [node]
    first = True
    while stack:
        n = stack.pop()
        if not first and isinstance(n, (ast.FunctionDef, ast.AsyncFunctionDef, ast.Lambda, ast.ClassDef)):
            yield n
            continue
        first = False
        yield n
        stack.extend(ast.iter_child_nodes(n))


def const_str(node: ast.AST) -> Optional[str]:
    if isinstance(node, ast.Constant) and isinstance(node.value, str):
        return node.value
    return None


def opcode_member(node: ast.AST, enum_names=("OpCode", "Op", "RegexOpCode")) -> Optional[str]:
    """OpCode.X -> 'X'."""
    if isinstance(node, ast.Attribute) and isinstance(node.value, ast.Name) and node.value.id in enum_names:
        return node.attr
    return None
