"""Anchors discovered by shape (not by line number) and shared by several rules."""

from __future__ import annotations

import ast
from typing import Dict, List, Optional, Set, Tuple

from .cfg import CFG
from .core import AnalysisError, Func, Tree, call_name, norm, opcode_member, walk_no_nested


def _cmp_members(test: ast.AST, var: str, enums=("OpCode", "Op", "RegexOpCode")) -> List[str]:
    """Members X such that test contains `var == Enum.X` (possibly or-ed) or `var in (Enum.X, ...)`."""
    out: List[str] = []
    for n in ast.walk(test):
        if isinstance(n, ast.Compare) and isinstance(n.left, ast.Name) and n.left.id == var and len(n.ops) == 1:
            c = n.comparators[0]
            if isinstance(n.ops[0], ast.Eq):
                m = opcode_member(c, enums)
                if m:
                    out.append(m)
            elif isinstance(n.ops[0], ast.In) and isinstance(c, (ast.Tuple, ast.List, ast.Set)):
                for e in c.elts:
                    m = opcode_member(e, enums)
                    if m:
                        out.append(m)
    return out


class DispatchChain:
    """An if/elif chain comparing one variable against enum members."""

    def __init__(self, func: Func, var: str, first_if: ast.If):
        self.func = func
        self.var = var
        self.first_if = first_if
        self.branches: List[Tuple[List[str], List[ast.stmt], ast.If]] = []
        self.default: Optional[List[ast.stmt]] = None
        node = first_if
        while True:
            mem = _cmp_members(node.test, var)
            self.branches.append((mem, node.body, node))
            if len(node.orelse) == 1 and isinstance(node.orelse[0], ast.If) and _cmp_members(node.orelse[0].test, var):
                node = node.orelse[0]
            else:
                self.default = node.orelse or None
                break

    def handled(self) -> Set[str]:
        s: Set[str] = set()
        for mem, _, _ in self.branches:
            s.update(mem)
        return s

    def body_of(self, member: str) -> Optional[List[ast.stmt]]:
        for mem, body, _ in self.branches:
            if member in mem:
                return body
        return None


def find_chains(func: Func, min_branches: int = 1) -> List[DispatchChain]:
    """All enum-dispatch if/elif chains directly in func (not nested defs)."""
    chains: List[DispatchChain] = []
    seen: Set[int] = set()
    for n in func.own_nodes():
        if isinstance(n, ast.If) and id(n) not in seen:
            # is it the head of a chain? (its parent is not an If whose orelse is [n])
            p = getattr(n, "_parent", None)
            if isinstance(p, ast.If) and len(p.orelse) == 1 and p.orelse[0] is n:
                vars_p = {v for v in _vars_compared(p.test)}
                if vars_p & set(_vars_compared(n.test)):
                    continue
            vs = _vars_compared(n.test)
            for v in vs:
                ch = DispatchChain(func, v, n)
                if len(ch.branches) >= min_branches:
                    chains.append(ch)
                    k = n
                    for _, _, node in ch.branches:
                        seen.add(id(node))
                break
    return chains


def _vars_compared(test: ast.AST) -> List[str]:
    out = []
    for n in ast.walk(test):
        if isinstance(n, ast.Compare) and isinstance(n.left, ast.Name) and len(n.ops) == 1:
            c = n.comparators[0]
            if isinstance(n.ops[0], ast.Eq) and opcode_member(c):
                out.append(n.left.id)
            elif isinstance(n.ops[0], ast.In) and isinstance(c, (ast.Tuple, ast.List, ast.Set)) and c.elts and all(opcode_member(e) for e in c.elts):
                out.append(n.left.id)
    return list(dict.fromkeys(out))


class Facts:
    def __init__(self, ctx):
        self.ctx = ctx
        self.t: Tree = ctx.tree
        self._cfgs: Dict[int, CFG] = {}
        self._dispatchers = None
        self._loops = None
        self._limit_check = None
        self._enum_members: Dict[str, List[str]] = {}
        # cached-deadline attributes of the interpreter class (util.elapsed_compare accepts comparisons with them)
        try:
            from .util import derived_deadline_attrs

            derived_deadline_attrs(self.t, self.vm_dispatcher()[0].cls)
        except AnalysisError:
            pass

    def cfg(self, f: Func) -> CFG:
        if id(f) not in self._cfgs:
            self._cfgs[id(f)] = CFG(f.body())
        return self._cfgs[id(f)]

    # ----------------------------------------------------------------- enums
    def enum_members(self, cls: str) -> List[str]:
        if cls not in self._enum_members:
            ci = self.t.class_named(cls)
            mem = []
            for s in ci.node.body:
                if isinstance(s, ast.Assign) and len(s.targets) == 1 and isinstance(s.targets[0], ast.Name):
                    mem.append(s.targets[0].id)
            self._enum_members[cls] = mem
        return self._enum_members[cls]

    # ----------------------------------------------------------- dispatchers
    def dispatchers(self) -> List[Tuple[Func, DispatchChain]]:
        """Functions holding a big `op == OpCode.X` chain over the JS bytecode enum."""
        if self._dispatchers is None:
            out = []
            for f in self.t.funcs:
                if f.module.name.startswith("regex"):
                    continue
                for ch in find_chains(f, 20):
                    if len(ch.handled()) >= 20 and ch.var in f.params():
                        out.append((f, ch))
            if not out:
                raise AnalysisError("no opcode dispatcher found (anchor vanished)")
            self._dispatchers = out
        return self._dispatchers

    # characteristic method names of the built-in families whose tables the interpreter builds
    _FAMILY_MARKS = {"_make_array_method": ("push", "pop", "splice"), "_make_string_method": ("charAt", "indexOf"), "_make_number_method": ("toFixed",), "_make_typed_array_method": ("subarray",), "_make_regexp_method": ("exec", "test")}

    def family_methods(self) -> Dict[str, str]:
        """canonical family name -> name of the interpreter method that builds that family's method table today (found
        by shape: it holds a dict display whose keys include the family's characteristic method names)."""
        got = getattr(self, "_family_methods", None)
        if got is not None:
            return got
        vmcls = self.vm_dispatcher()[0].cls
        out: Dict[str, str] = {}
        for canon, marks in self._FAMILY_MARKS.items():
            for m in vmcls.all_methods:
                if isinstance(m.node, ast.Lambda):
                    continue
                for d in m.own_nodes():
                    if isinstance(d, ast.Dict) and set(marks) <= {k.value for k in d.keys if isinstance(k, ast.Constant)}:
                        out[canon] = m.name
            out.setdefault(canon, canon)
        self._family_methods = out
        return out

    def canon_qual(self, qual: str) -> str:
        """A qualified name with today's family builder names replaced by the canonical ones (keys of tables in the rules)."""
        for canon, actual in self.family_methods().items():
            if actual != canon:
                qual = qual.replace(f".{actual}.", f".{canon}.").replace(f".{actual}:", f".{canon}:")
                if qual.endswith("." + actual):
                    qual = qual[: -len(actual)] + canon
        return qual

    def vm_dispatcher(self) -> Tuple[Func, DispatchChain]:
        d = self.dispatchers()
        return max(d, key=lambda x: len(x[1].handled()))

    def dispatch_wrappers(self) -> List[Func]:
        """Methods that only forward their own parameters to a dispatcher (e.g. a `_run_opcode(op, arg, frame)`
        that wraps the dispatcher call in the error-conversion try).  A wrapper stands for the dispatcher in
        every rule about run loops."""
        if getattr(self, "_wrappers", None) is None:
            disp = {id(f) for f, _ in self.dispatchers()}
            cg = self.ctx.cg
            out = []
            for f in self.t.funcs:
                if id(f) in disp or f.cls is None:
                    continue
                ps = set(f.params())
                for cs in cg.sites_of.get(id(f), []):
                    if any(id(tg) in disp for tg in cs.targets) and cs.call.args and all(isinstance(a, ast.Name) and a.id in ps for a in cs.call.args):
                        # not itself a loop around the call
                        if not any(isinstance(p, (ast.While, ast.For)) for p in _parents(cs.call)):
                            out.append(f)
                            break
            self._wrappers = out
        return self._wrappers

    def dispatch_entry_ids(self) -> Set[int]:
        return {id(f) for f, _ in self.dispatchers()} | {id(f) for f in self.dispatch_wrappers()}

    def dispatch_loops(self) -> List[Tuple[Func, ast.stmt]]:
        """Loops (in any function) whose body calls a dispatcher directly or through a wrapper."""
        if self._loops is None:
            disp = self.dispatch_entry_ids()
            cg = self.ctx.cg
            out = []
            for f in self.t.funcs:
                for n in f.own_nodes():
                    if isinstance(n, (ast.While, ast.For)):
                        hit = False
                        for s in n.body:
                            for c in walk_no_nested(s):
                                if isinstance(c, ast.Call):
                                    cs = cg.site_of_call.get(id(c))
                                    if cs and any(id(tg) in disp for tg in cs.targets):
                                        hit = True
                        if hit:
                            out.append((f, n))
            self._loops = out
        return self._loops

    def limit_check(self) -> Func:
        """The method (of the dispatcher's class) that raises TimeLimitError outside a handler."""
        if self._limit_check is None:
            df, _ = self.vm_dispatcher()
            cands = []
            if df.cls is None:
                raise AnalysisError("dispatcher is not a method")
            for c in self.t.mro(df.cls):
                for m in c.methods.values():
                    for n in m.own_nodes():
                        if isinstance(n, ast.Raise) and n.exc is not None and "TimeLimitError" in norm(n.exc):
                            if not any(isinstance(p, ast.ExceptHandler) for p in _parents(n)):
                                cands.append(m)
                                break
            cands = list({id(c): c for c in cands}.values())
            if len(cands) > 1:
                # the periodic check is the one the run loops call; a one-off poll (entry of a nested interpreter) is not
                # (reached from a run loop through methods of the interpreter class only - not through natives)
                seen = {id(f): f for f, _ in self.dispatch_loops()}
                q = list(seen.values())
                while q:
                    g = q.pop()
                    for cs in self.ctx.cg.sites_of.get(id(g), []):
                        for t in cs.targets:
                            if id(t) not in seen and t.cls is not None and t.cls in self.t.mro(df.cls) and cs.kind == "resolved":
                                seen[id(t)] = t
                                q.append(t)
                called = [c for c in cands if id(c) in seen]
                if len(called) == 1:
                    cands = called
            if len(cands) != 1:
                raise AnalysisError(f"expected exactly one limit-check method, found {[c.qual for c in cands]}")
            self._limit_check = cands[0]
        return self._limit_check

    def memory_check(self) -> Func:
        """The method (of the dispatcher's class) that raises MemoryLimitError under a comparison with
        self.memory_limit (the stack estimate; the host-depth budget raises the same class under its own bound)."""
        if getattr(self, "_memory_check", None) is None:
            df, _ = self.vm_dispatcher()
            cands = []
            for c in self.t.mro(df.cls):
                for m in c.methods.values():
                    for n in m.own_nodes():
                        if isinstance(n, ast.Raise) and n.exc is not None and "MemoryLimitError" in norm(n.exc) and not any(isinstance(p, ast.ExceptHandler) for p in _parents(n)):
                            if any(isinstance(p, ast.If) and "memory_limit" in norm(p.test) for p in _parents(n)):
                                cands.append(m)
            cands = list({id(c): c for c in cands}.values())
            if len(cands) != 1:
                # fall back to the time check's function (the classic combined check)
                self._memory_check = self.limit_check()
            else:
                self._memory_check = cands[0]
        return self._memory_check

    def script_reachable(self) -> Set[int]:
        """ids of functions reachable from running script code (dispatchers, run loops, natives)."""
        if getattr(self, "_sr", None) is None:
            roots = [f for f, _ in self.dispatchers()] + [f for f, _ in self.dispatch_loops()]
            roots += [v[0] for v in self.ctx.cg.natives.values()]
            self._sr = set(self.ctx.cg.reach(roots).keys())
        return self._sr

    # ------------------------------------------------------------ regex loops
    def matcher_loops(self) -> List[Tuple[Func, ast.While]]:
        """Unbounded loops that interpret regex bytecode: body indexes self.bytecode[pc]."""
        out = []
        for f in self.t.funcs:
            if not f.module.name.startswith("regex"):
                continue
            for n in f.own_nodes():
                if isinstance(n, ast.While):
                    idx = False
                    for c in walk_no_nested(n):
                        if isinstance(c, ast.Subscript) and norm(c.value) == "self.bytecode":
                            idx = True
                    if idx and not any(isinstance(p, ast.While) for p in _parents_within(n, f)):
                        out.append((f, n))
        return out

    def regex_vm_class(self):
        loops = self.matcher_loops()
        if not loops:
            raise AnalysisError("no regex matcher loop found (anchor vanished)")
        return loops[0][0].cls


def _parents(n):
    p = getattr(n, "_parent", None)
    while p is not None:
        yield p
        p = getattr(p, "_parent", None)


def _parents_within(n, f: Func):
    for p in _parents(n):
        if p is f.node:
            return
        yield p
