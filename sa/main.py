"""Entry point: ./check <property|all> --tier quick|thorough  |  ./check --replay <path>"""

from __future__ import annotations

import argparse
import importlib
import json
import os
import sys
import traceback

from .core import AnalysisError, Tree
from .report import Report

PROPS = [f"C{i:02d}" for i in range(1, 21)]


class Ctx:
    """Shared, lazily built engines."""

    def __init__(self, tier: str, repo: str = None):
        self.tier = tier
        self.repo = repo
        self._tree = None
        self._cg = None
        self._facts = None

    @property
    def tree(self) -> Tree:
        if self._tree is None:
            self._tree = Tree(self.repo) if self.repo else Tree()
        return self._tree

    @property
    def cg(self):
        if self._cg is None:
            from .callgraph import CallGraph

            self._cg = CallGraph(self.tree)
        return self._cg

    @property
    def facts(self):
        if self._facts is None:
            from .facts import Facts

            self._facts = Facts(self)
        return self._facts


def run_property(pid: str, tier: str, ctx: Ctx = None) -> int:
    seed = int(os.environ.get("VERIF_SEED", "0") or 0)
    rep = Report(pid, tier, seed)
    try:
        ctx = ctx or Ctx(tier)
        mod = importlib.import_module(f"sa.props.{pid.lower()}")
        mod.run(ctx, rep)
        rep.analysed.setdefault("modules", len(ctx.tree.modules))
        rep.analysed.setdefault("functions", len(ctx.tree.funcs))
        rep.analysed.setdefault("tree_digest", ctx.tree.digest[:16])
        if ctx._cg is not None:
            rep.analysed.setdefault("call_sites", ctx.cg.stats())
        if tier == "thorough" and not _has_new_findings(rep):
            from . import selftest

            selftest.run_for(pid, rep)
        return rep.finish()
    except AnalysisError as e:
        print(f"ANALYSIS-ERROR property={pid}: {e}")
        return 2
    except Exception:
        traceback.print_exc()
        print(f"ANALYSIS-ERROR property={pid}: internal exception (see traceback)")
        return 2


def _has_new_findings(rep) -> bool:
    from .report import load_known

    known = {f"{e['rule']}|{e['key']}" for e in load_known() if e.get("status") != "fixed" and e.get("property") == rep.prop}
    return any(f.ident() not in known for f in rep.findings)


def replay(path: str) -> int:
    with open(path) as fh:
        rec = json.load(fh)
    pid = rec["property"]
    print(f"replaying {pid} {rec['rule']} {rec['key']}")
    print(f"  recorded: {rec['location']}: {rec['message']}")
    ctx = Ctx("quick")
    rep = Report(pid, "quick")
    mod = importlib.import_module(f"sa.props.{pid.lower()}")
    try:
        mod.run(ctx, rep)
    except AnalysisError as e:
        print(f"ANALYSIS-ERROR property={pid}: {e}")
        return 2
    hit = [f for f in rep.findings if f.rule == rec["rule"] and f.key == rec["key"]]
    if hit:
        f = hit[0]
        print(f"  still present on the current tree: {f.loc}: {f.msg}")
        for k, v in f.detail.items():
            print(f"    {k}: {v}")
        return 1
    print("  not present on the current tree")
    return 0


def main(argv=None) -> int:
    ap = argparse.ArgumentParser()
    ap.add_argument("prop", nargs="?")
    ap.add_argument("--tier", default=os.environ.get("VERIF_TIER", "quick"))
    ap.add_argument("--replay")
    a = ap.parse_args(argv)
    if a.replay:
        return replay(a.replay)
    if not a.prop:
        ap.error("property id required")
    tier = a.tier if a.tier in ("quick", "thorough") else "quick"
    if a.prop.lower() == "all":
        ctx = Ctx(tier)
        rc = 0
        for p in PROPS:
            if os.path.exists(os.path.join(os.path.dirname(__file__), "props", p.lower() + ".py")):
                rc = max(rc, run_property(p, tier, ctx))
        return rc
    pid = a.prop.upper()
    return run_property(pid, tier)


if __name__ == "__main__":
    sys.exit(main())
