"""E3 step 2: abstract interpretation of compiler.py's emit discipline.

Each branch of the statement / expression / value-statement compilers is executed
abstractly, path by path, over a state (operand depth as a linear form, liveness,
abstract values of the compiler's local variables).  Induction hypotheses: compiling
a sub-expression nets +1, a sub-statement 0, a sub-statement-for-value +1.
"""

from __future__ import annotations

import ast
import copy
from typing import Any, Dict, List, Optional, Set, Tuple

from .core import AnalysisError, Func, norm, opcode_member, short
from .effects import OpEffect, derive
from .facts import DispatchChain, find_chains


# ----------------------------------------------------------------- linear forms
class Lin:
    __slots__ = ("c", "t")

    def __init__(self, c: int = 0, t: Optional[Dict[str, int]] = None):
        self.c = c
        self.t = {k: v for k, v in (t or {}).items() if v != 0}

    def __add__(self, o):
        if isinstance(o, int):
            return Lin(self.c + o, self.t)
        t = dict(self.t)
        for k, v in o.t.items():
            t[k] = t.get(k, 0) + v
        return Lin(self.c + o.c, t)

    def __sub__(self, o):
        if isinstance(o, int):
            return Lin(self.c - o, self.t)
        return self + o.scale(-1)

    def scale(self, k: int):
        return Lin(self.c * k, {s: v * k for s, v in self.t.items()})

    def times_sym(self, sym: str):
        if self.t:
            raise AnalysisError("non-linear stack depth")
        return Lin(0, {sym: self.c})

    def __eq__(self, o):
        if isinstance(o, int):
            return not self.t and self.c == o
        return isinstance(o, Lin) and self.c == o.c and self.t == o.t

    def __hash__(self):
        return hash((self.c, tuple(sorted(self.t.items()))))

    def is_const(self):
        return not self.t

    def __repr__(self):
        parts = [f"{v:+d}*{k}" for k, v in sorted(self.t.items())]
        return (f"{self.c:+d}" if self.c or not parts else "") + "".join(parts) or "+0"


# ------------------------------------------------------------- abstract values
class PH:
    """Jump placeholder returned by _emit_jump."""

    def __init__(self, op: str, depth: Lin, line: int, uid: int):
        self.op, self.depth, self.line, self.uid = op, depth, line, uid

    def __repr__(self):
        return f"PH({self.op}@{self.line},d={self.depth})"


class LBL:
    def __init__(self, depth: Optional[Lin], line: int, evidx: int, name: str = ""):
        self.depth, self.line, self.evidx, self.name = depth, line, evidx, name

    def __repr__(self):
        return f"LBL({self.name}@{self.line},d={self.depth})"


class CTX:
    """A LoopContext created by the branch under analysis."""

    def __init__(self, line: int, is_loop: bool, labelled: bool, stack_items: int = 0, is_try: bool = False, finalizer: Optional[str] = None):
        self.line, self.is_loop, self.labelled = line, is_loop, labelled
        self.stack_items, self.is_try, self.finalizer = stack_items, is_try, finalizer
        self.handler_active = False  # tracked through `ctx.handler_active = ...` assignments
        self.body_depth: Optional[Lin] = None
        self.patched: Dict[str, Any] = {}
        self.pushed = False
        self.popped = False

    def __repr__(self):
        return f"CTX@{self.line}"


class TUP:
    def __init__(self, items):
        self.items = list(items)


class LST:
    def __init__(self):
        self.elems: List[Any] = []


class OPSET:
    def __init__(self, names):
        self.names = sorted(set(names))


class DICTV:
    def __init__(self, values):
        self.values = values


class CTXLIST:
    def __init__(self, ctx, which: str):
        self.ctx, self.which = ctx, which


NONE = "NONE"
UNK = "UNK"


class ASTREF:
    """A helper parameter bound to an expression over the AST node under compilation (e.g. node.finalizer)."""

    def __init__(self, text: str):
        self.text = text


_MISSING = object()


class State:
    def __init__(self):
        self.depth: Lin = Lin(0)
        self.live = True
        self.dead_reason = ""
        self.env: Dict[str, Any] = {}
        self.dec: Dict[str, bool] = {}
        self.outstanding: Dict[int, PH] = {}
        self.events: List[Tuple] = []
        self.findings: List[Tuple[str, str, str, int]] = []  # (obligation, key, msg, line)
        self.ctxs: List[CTX] = []
        self.ctx_stack: List[Any] = []
        self.deferred: List[Any] = []  # (depth, declared operands, what, line) checked at the end of the path
        self.ctxflags: Dict[int, bool] = {}  # CTX.line -> handler_active, per path
        self.returned = False
        self.raised = False
        self.assumed = False
        self.continued = False  # left the current iteration of a Python loop with `continue`
        self.looplocals: Set[str] = set()
        self.dead_emit_reported = False
        self.bind: Dict[str, Lin] = {}

    def res(self, d: Optional[Lin]) -> Optional[Lin]:
        """Substitute bound label-depth symbols."""
        if d is None or not d.t:
            return d
        out = Lin(d.c)
        for k, v in d.t.items():
            if k in self.bind:
                out = out + self.res(self.bind[k]).scale(v)
            else:
                out = out + Lin(0, {k: v})
        return out

    def same(self, a: Optional[Lin], b: Optional[Lin]) -> bool:
        """Are depths a and b equal?  Unbound label-depth symbols are unified on first use."""
        if a is None or b is None:
            return True
        d = self.res(a) - self.res(b)
        if d == 0:
            return True
        syms = [k for k in d.t if k.startswith("@L")]
        if len(syms) >= 1:
            k = syms[0]
            coef = d.t[k]
            if abs(coef) == 1:
                rest = Lin(d.c, {x: v for x, v in d.t.items() if x != k})
                self.bind[k] = rest.scale(-coef)
                return True
        return False

    def clone(self) -> "State":
        s = State.__new__(State)
        s.depth = self.depth
        s.live = self.live
        s.dead_reason = self.dead_reason
        s.env = dict(self.env)
        s.dec = dict(self.dec)
        s.outstanding = dict(self.outstanding)
        s.events = list(self.events)
        s.findings = list(self.findings)
        s.ctxs = list(self.ctxs)
        s.ctx_stack = list(self.ctx_stack)
        s.deferred = list(self.deferred)
        s.ctxflags = dict(self.ctxflags)
        s.returned = self.returned
        s.continued = self.continued
        s.raised = self.raised
        s.assumed = self.assumed
        s.looplocals = set(self.looplocals)
        s.dead_emit_reported = self.dead_emit_reported
        s.bind = dict(self.bind)
        return s

    def add(self, ob: str, key: str, msg: str, line: int):
        if not any(f[0] == ob and f[1] == key for f in self.findings):
            self.findings.append((ob, key, msg, line))


JUMPS = ("JUMP", "JUMP_IF_FALSE", "JUMP_IF_TRUE", "TRY_START")
VAROPS = ("LOAD_NAME", "STORE_NAME", "LOAD_LOCAL", "STORE_LOCAL", "LOAD_CELL", "STORE_CELL", "LOAD_CLOSURE", "STORE_CLOSURE", "TYPEOF_NAME")
LOOKUPS = {"_get_cell_var": "cell", "_get_local": "local", "_get_free_var": "free"}


class LOOKUP:
    def __init__(self, kind: str):
        self.kind = kind


def _lookup_status(st: "State") -> Dict[str, Any]:
    """What the current path knows about the three variable lookups: kind -> True (found) / False (None) / absent."""
    out: Dict[str, Any] = {}
    for var, v in st.env.items():
        if isinstance(v, LOOKUP):
            for txt, val in st.dec.items():
                if txt == f"{var} is not None":
                    out[v.kind] = val
                elif txt == f"{var} is None":
                    out[v.kind] = not val
    if "self._in_function" in st.dec:
        out["in_function"] = st.dec["self._in_function"]
    return out

# Feasibility constraints on AST shapes that the parser guarantees.  Each set is applied only when the
# parser-side rule that justifies it holds on the current tree (see EmitAnalysis.__init__).
TRY_CONSTRAINTS = {
    "TryStatement": [("node.handler", "node.finalizer")],
}
TARGET_CONSTRAINTS = {
    "AssignmentExpression": [("isinstance(node.left, Identifier)", "isinstance(node.left, MemberExpression)")],
    "UpdateExpression": [("isinstance(node.argument, Identifier)", "isinstance(node.argument, MemberExpression)")],
    "ForInStatement": [("isinstance(node.left, VariableDeclaration)", "isinstance(node.left, Identifier)", "isinstance(node.left, MemberExpression)")],
    "ForOfStatement": [("isinstance(node.left, VariableDeclaration)", "isinstance(node.left, Identifier)", "isinstance(node.left, MemberExpression)")],
}


class BranchResult:
    def __init__(self, func: Func, cls: str, line: int):
        self.func, self.cls, self.line = func, cls, line
        self.ends: List[State] = []
        self.paths = 0

    @property
    def key(self):
        return f"{self.func.name}:{self.cls}"


class EmitAnalysis:
    def __init__(self, ctx):
        self.ctx = ctx
        self.t = ctx.tree
        self.eff: Dict[str, OpEffect] = derive(ctx)
        comp = self.t.class_named("Compiler")
        self.comp = comp
        self.methods = comp.methods
        self.uid = 0
        self.branches: Dict[str, List[BranchResult]] = {}
        self.assumed: List[str] = []
        self.max_paths = 20000
        from .rules import frontend

        self.constraints: Dict[str, List[Tuple[str, ...]]] = {}
        self.constraint_basis: List[str] = []
        if frontend.try_shape_ok(ctx):
            self.constraints.update(TRY_CONSTRAINTS)
            self.constraint_basis.append("parser refuses try without catch and finally")
        if frontend.reference_targets_ok(ctx):
            self.constraints.update(TARGET_CONSTRAINTS)
            self.constraint_basis.append("parser validates assignment/update/for-in/of targets (C13-R1)")

    # ----------------------------------------------------------- entry points
    def node_chain(self, fname: str) -> Tuple[Func, List[Tuple[List[str], List[ast.stmt], int]], Optional[List[ast.stmt]]]:
        """The top-level isinstance(node, K) chain of a compile method."""
        f = self.methods.get(fname)
        if f is None:
            raise AnalysisError(f"Compiler.{fname} not found (anchor vanished)")
        first = None
        for s in f.body():
            if isinstance(s, ast.If) and _isinstance_classes(s.test, "node"):
                first = s
                break
        if first is None:
            raise AnalysisError(f"Compiler.{fname} has no isinstance(node, ...) chain")
        out = []
        n = first
        default = None
        while True:
            out.append((_isinstance_classes(n.test, "node"), n.body, n.lineno))
            if len(n.orelse) == 1 and isinstance(n.orelse[0], ast.If) and _isinstance_classes(n.orelse[0].test, "node"):
                n = n.orelse[0]
            else:
                default = n.orelse or None
                break
        return f, out, default

    def run_chain(self, fname: str) -> List[BranchResult]:
        if fname in self.branches:
            return self.branches[fname]
        f, chain, default = self.node_chain(fname)
        res = []
        for classes, body, line in chain:
            br = BranchResult(f, "|".join(classes), line)
            st = State()
            br.ends = self._feasible(self.block(body, [st]), classes)
            br.paths = len(br.ends)
            res.append(br)
        if default is not None:
            br = BranchResult(f, "<else>", default[0].lineno)
            br.ends = self.block(default, [State()])
            br.paths = len(br.ends)
            res.append(br)
        self.branches[fname] = res
        return res

    def run_function(self, fname: str) -> BranchResult:
        f = self.methods.get(fname)
        if f is None:
            raise AnalysisError(f"Compiler.{fname} not found (anchor vanished)")
        br = BranchResult(f, "<body>", f.line)
        br.ends = self.block(f.body(), [State()])
        br.paths = len(br.ends)
        return br

    def _feasible(self, ends: List[State], classes: List[str]) -> List[State]:
        out = []
        for e in ends:
            ok = True
            for c in classes:
                for alts in self.constraints.get(c, []):
                    if all(e.dec.get(a) is False for a in alts):
                        ok = False
                    # isinstance chains: an alternative that was never tested on this path counts as undecided,
                    # unless every tested alternative is False and the path fell into the chain's else
                    tested = [a for a in alts if a in e.dec]
                    if tested and all(e.dec[a] is False for a in tested) and len(tested) == len(alts):
                        ok = False
            if ok:
                out.append(e)
        return out

    # ---------------------------------------------------------------- blocks
    def block(self, stmts: List[ast.stmt], states: List[State]) -> List[State]:
        for s in stmts:
            nxt: List[State] = []
            for st in states:
                if st.returned or st.raised or st.assumed or st.continued:
                    nxt.append(st)
                else:
                    nxt.extend(self.stmt(s, st))
            states = self._merge(nxt)
            if len(states) > self.max_paths:
                raise AnalysisError(f"path explosion at line {s.lineno}")
        return states

    def _merge(self, states: List[State]) -> List[State]:
        """Drop states that are indistinguishable for the rest of the analysis."""
        seen = {}
        for s in states:
            k = (
                s.res(s.depth) if s.live else None,
                s.live,
                s.returned,
                s.raised,
                s.assumed,
                s.continued,
                tuple(sorted(s.dec.items())),
                tuple(sorted(s.ctxflags.items())),
                tuple(sorted(s.outstanding)),
                tuple(sorted((k, _vkey(v)) for k, v in s.env.items())),
                tuple(f[:2] for f in s.findings),
                len(s.events),
            )
            seen.setdefault(k, s)
        return list(seen.values())

    def stmt(self, s: ast.stmt, st: State) -> List[State]:
        if isinstance(s, ast.If):
            return self._if(s, st)
        if isinstance(s, ast.For):
            return self._for(s, st)
        if isinstance(s, ast.While):
            return self._while(s, st)
        if isinstance(s, ast.Raise):
            st.raised = True
            return [st]
        if isinstance(s, ast.Return):
            if s.value is not None:
                self.ev(s.value, st)
            st.returned = True
            return [st]
        if isinstance(s, ast.Assign):
            v = self.ev(s.value, st)
            for t in s.targets:
                self._assign(t, v, st, s)
            return [st]
        if isinstance(s, ast.AnnAssign):
            v = self.ev(s.value, st) if s.value is not None else UNK
            self._assign(s.target, v, st, s)
            return [st]
        if isinstance(s, ast.AugAssign):
            self.ev(s.value, st)
            return [st]
        if isinstance(s, ast.Expr):
            inl = self._inline_emit_helper(s.value, st)
            if inl is not None:
                return inl
            self.ev(s.value, st)
            return [st]
        if isinstance(s, ast.Continue):
            # the rest of this iteration is skipped; the loop handlers clear the mark
            st.continued = True
            return [st]
        if isinstance(s, (ast.Pass, ast.Import, ast.ImportFrom, ast.Break)):
            # break of Python loops over compiler-internal stacks (no emits inside)
            return [st]
        if isinstance(s, ast.Try):
            return self.block(s.body, [st])
        raise AnalysisError(f"unsupported statement in compiler branch at line {s.lineno}: {type(s).__name__}")

    def _inline_emit_helper(self, e: ast.AST, st: State) -> Optional[List[State]]:
        """A statement `self._emit_xxx(args)` whose callee is a small method of the compiler that itself emits
        (e.g. the shared store-to-variable helpers): interpret its body in place, parameters bound to the
        argument values, so that its emits, decisions and events count for the calling branch."""
        if not (isinstance(e, ast.Call) and isinstance(e.func, ast.Attribute) and norm(e.func.value) == "self"):
            return None
        name = e.func.attr
        if name in ("_emit", "_emit_jump", "_patch_jump", "_emit_pending_finally_blocks", "_emit_leave_contexts", "_compile_statement", "_compile_expression", "_compile_statement_for_value", "_new_loop_context") or name in _NO_EMIT_HELPERS:
            return None
        helper = self.methods.get(name)
        if helper is None or not _emits(helper, self.methods, set()):
            return None
        depth = getattr(self, "_inline_depth", 0)
        if depth >= 2:
            raise AnalysisError(f"emit helper {helper.qual} nests too deeply (line {e.lineno})")
        params = [a.arg for a in helper.node.args.args if a.arg != "self"]
        if len(e.args) != len(params) or e.keywords:
            raise AnalysisError(f"emit helper {helper.qual} called with an unsupported argument shape at line {e.lineno}")
        saved = {p_: st.env.get(p_, _MISSING) for p_ in params}
        for p_, a in zip(params, e.args):
            v = self.ev(a, st)
            # an argument taken from the AST node being compiled keeps its source text, so that events inside
            # the helper name the same thing as they would in the caller
            st.env[p_] = ASTREF(norm(a)) if v is UNK else v
        self._inline_depth = depth + 1
        try:
            body = [x for x in helper.node.body if not (isinstance(x, ast.Expr) and isinstance(x.value, ast.Constant))]
            outs = self.block(body, [st])
        finally:
            self._inline_depth = depth
        res = []
        for o in outs:
            if o.returned:
                o.returned = False  # the helper returned, not the branch
            for p_, v in saved.items():
                if v is _MISSING:
                    o.env.pop(p_, None)
                else:
                    o.env[p_] = v
            res.append(o)
        return self._merge(res)

    def _assign(self, t: ast.AST, v: Any, st: State, s: ast.stmt) -> None:
        if isinstance(t, ast.Attribute) and isinstance(t.value, ast.Name) and isinstance(st.env.get(t.value.id), CTX):
            c = st.env[t.value.id]
            if t.attr == "handler_active" and isinstance(s, ast.Assign) and isinstance(s.value, ast.Constant) and isinstance(s.value.value, bool):
                st.ctxflags[c.line] = s.value.value
                st.events.append(("ctx-flag", c.line, "handler_active", s.value.value, s.lineno))
                return
            raise AnalysisError(f"unsupported assignment to a context attribute at line {s.lineno}: {norm(t)}")
        if isinstance(t, ast.Name):
            if isinstance(v, LBL):
                v.name = t.id
            st.env[t.id] = v
        elif isinstance(t, (ast.Tuple, ast.List)):
            if isinstance(v, TUP) and len(v.items) == len(t.elts):
                for e, x in zip(t.elts, v.items):
                    self._assign(e, x, st, s)
            else:
                for e in t.elts:
                    self._assign(e, UNK, st, s)
        # attribute / subscript targets: compiler state we do not model here

    # ------------------------------------------------------------ conditions
    def _truth(self, e: ast.AST, st: State) -> Optional[bool]:
        """Abstract truth value of a condition, or None when it depends on the AST."""
        if isinstance(e, ast.Name):
            v = st.env.get(e.id, UNK)
            if isinstance(v, (PH, TUP, LBL, CTX)):
                return True
            if v is NONE:
                return False
            if isinstance(v, LST):
                return None
            return None
        if isinstance(e, ast.Compare) and len(e.ops) == 1 and isinstance(e.left, ast.Name) and isinstance(e.comparators[0], ast.Constant) and e.comparators[0].value is None:
            v = st.env.get(e.left.id, UNK)
            if isinstance(v, (PH, TUP, LBL, CTX)):
                return isinstance(e.ops[0], ast.IsNot)
            if v is NONE:
                return isinstance(e.ops[0], ast.Is)
            return None
        if isinstance(e, ast.UnaryOp) and isinstance(e.op, ast.Not):
            r = self._truth(e.operand, st)
            return None if r is None else (not r)
        return None

    def _if(self, s: ast.If, st: State) -> List[State]:
        tv = self._truth(s.test, st)
        if tv is not None:
            return self.block(s.body if tv else s.orelse, [st])
        txt = norm(s.test)
        names = {n.id for n in ast.walk(s.test) if isinstance(n, ast.Name)}
        memo = not (names & st.looplocals)
        if memo and txt in st.dec:
            return self.block(s.body if st.dec[txt] else s.orelse, [st])
        a = st.clone()
        b = st
        if memo:
            a.dec[txt] = True
            b.dec[txt] = False
            # `isinstance(x, A)` true excludes a later `isinstance(x, B)` for unrelated classes only
        else:
            a.events.append(("cond", txt, True))
            b.events.append(("cond", txt, False))
        return self.block(s.body, [a]) + self.block(s.orelse, [b])

    # ----------------------------------------------------------------- loops
    def _for(self, s: ast.For, st: State) -> List[State]:
        itv = self.ev(s.iter, st)
        if isinstance(itv, CTXLIST):
            return self._patch_list(s, itv, st)
        if isinstance(itv, LST):
            # iterate a local list of placeholders/labels: one abstract iteration over the joined element
            if not itv.elems:
                return [st]
            outs: List[State] = []
            for elem in itv.elems:
                s2 = st.clone()
                self._assign(s.target, elem, s2, s)
                outs.extend(self.block(s.body, [s2]))
            for o in outs:
                o.continued = False
            # patches do not change depth; continue from the original state with outstanding cleared
            res = st
            for o in outs:
                res.findings = _union(res.findings, o.findings)
                res.deferred = res.deferred + [d for d in o.deferred if d not in res.deferred]
                for uid in list(res.outstanding):
                    if uid not in o.outstanding:
                        res.outstanding.pop(uid, None)
                res.events.extend(e for e in o.events[len(st.events):] if e not in res.events[len(st.events):])
            return [res]
        # a sequence derived from the AST: symbolic trip count
        sym = _count_symbol(s.iter)
        targets = {n.id for n in ast.walk(s.target) if isinstance(n, ast.Name)}
        start = st
        body_state = st.clone()
        body_state.looplocals |= targets
        for nm in targets:
            body_state.env[nm] = UNK
        ev0 = len(body_state.events)
        ends = self.block(s.body, [body_state])
        for e in ends:
            e.continued = False
        ends = [e for e in ends if not e.raised]
        if any(e.returned for e in ends):
            # early return inside a Python loop: keep those as end states
            pass
        if not start.live:
            # the loop starts in unreachable code; a label recorded in the body may revive it
            lives = [e for e in ends if e.live and not e.returned]
            res = lives[0].clone() if lives else start
            res.looplocals = set(start.looplocals)
            for e in ends:
                res.findings = _union(res.findings, e.findings)
                res.deferred = res.deferred + [d for d in e.deferred if d not in res.deferred]
                for uid, ph in e.outstanding.items():
                    res.outstanding.setdefault(uid, ph)
                for k, v in e.env.items():
                    if k not in targets:
                        res.env[k] = _join(res.env.get(k), v)
                for kk, vv in e.bind.items():
                    res.bind.setdefault(kk, vv)
            for e in lives[1:]:
                if not res.same(res.depth, e.depth):
                    res.add("O1", f"loop@{_loopkey(s)}", "iterations end at different operand depths", s.lineno)
            return [res] + [e for e in ends if e.returned]
        last_txt = _last_iteration_cond(s)
        deltas: Dict[Any, Set[Lin]] = {}
        any_dead = False
        for e in ends:
            if e.returned or e.assumed:
                continue
            if not e.live:
                any_dead = True
                continue
            tag = None
            if last_txt is not None:
                for ev in e.events[ev0:]:
                    if ev[0] == "cond" and ev[1] == last_txt:
                        tag = ev[2]
            deltas.setdefault(tag, set()).add(e.res(e.depth) - e.res(start.depth))
        res = start.clone()
        for e in ends:
            res.findings = _union(res.findings, e.findings)
            res.deferred = res.deferred + [d for d in e.deferred if d not in res.deferred]
            for uid, ph in e.outstanding.items():
                res.outstanding.setdefault(uid, ph)
            for uid in list(res.outstanding):
                if uid in start.outstanding and uid not in e.outstanding:
                    res.outstanding.pop(uid)
            for k, v in e.env.items():
                if k not in targets and (k not in res.env or isinstance(v, (LST, TUP, PH, LBL)) or res.env.get(k) is NONE):
                    res.env[k] = _join(res.env.get(k), v) if k in start.env else v
            for c in e.ctxs:
                if c not in res.ctxs:
                    res.ctxs.append(c)
            for kk, vv in e.bind.items():
                res.bind.setdefault(kk, vv)
        res.events.append(("loop", sym, s.lineno))
        for e in ends:
            for ev in e.events[ev0:]:
                if ev[0] in ("expr", "stmt", "emit", "label", "backjump", "patchlist", "varemit") and ev not in res.events[ev0:]:
                    res.events.append(ev)
        flat = set().union(*deltas.values()) if deltas else {Lin(0)}
        if last_txt is not None and set(deltas) <= {True, False} and all(len(v) == 1 for v in deltas.values()) and deltas:
            k_non = next(iter(deltas.get(True, {Lin(0)})))
            k_last = next(iter(deltas.get(False, {Lin(0)})))
            if not (k_non.is_const() and k_last.is_const()):
                raise AnalysisError(f"symbolic per-iteration effect at line {s.lineno}")
            res.depth = start.depth + Lin(k_non.c).times_sym(sym) + (k_last.c - k_non.c)
        elif len(flat) == 1:
            k = next(iter(flat))
            if not k.is_const():
                raise AnalysisError(f"symbolic per-iteration effect at line {s.lineno}")
            res.depth = start.depth + Lin(k.c).times_sym(sym)
        else:
            res.add("O1", f"loop@{_loopkey(s)}", f"iterations of `for {norm(s.target)} in {short(s.iter, 40)}` have different stack effects {sorted(map(repr, flat))}: the emitted code is not balanced for every AST", s.lineno)
        if any_dead:
            # a body path ended after its own unconditional jump: the next iteration emits unreachable code
            dead = start.clone()
            dead.live = False
            dead.dead_reason = "own unconditional jump in the previous iteration"
            dead.looplocals |= targets
            for nm in targets:
                dead.env[nm] = UNK
            for e in self.block(s.body, [dead]):
                res.findings = _union(res.findings, e.findings)
                res.deferred = res.deferred + [d for d in e.deferred if d not in res.deferred]
        out = [res] + [e for e in ends if e.returned]
        return out

    def _while(self, s: ast.While, st: State) -> List[State]:
        body_state = st.clone()
        assigned = {n.id for x in s.body for n in ast.walk(x) if isinstance(n, ast.Name) and isinstance(n.ctx, ast.Store)}
        body_state.looplocals |= assigned
        for nm in assigned:
            body_state.env[nm] = UNK
        ev0 = len(body_state.events)
        uid0 = self.uid
        try:
            ends = self.block(s.body, [body_state])
            for e in ends:
                e.continued = False
        except AnalysisError:
            ends = None
        ok = ends is not None
        returned = []
        if ok:
            for e in ends:
                if e.raised:
                    continue
                if e.returned:
                    returned.append(e)
                    continue
                if not e.live or not (e.depth == st.depth) or set(e.outstanding) != set(st.outstanding):
                    ok = False
        if ok:
            res = st
            for e in ends:
                res.findings = _union(res.findings, e.findings)
                res.deferred = res.deferred + [d for d in e.deferred if d not in res.deferred]
                for ev in e.events[ev0:]:
                    if ev[0] in ("expr", "stmt", "emit", "varemit") and ev not in res.events[ev0:]:
                        res.events.append(ev)
            return [res] + returned
        st.assumed = True
        st.events.append(("assumed", s.lineno))
        return [st] + returned

    def _patch_list(self, s: ast.For, cl: CTXLIST, st: State) -> List[State]:
        """`for pos in ctx.break_jumps: self._patch_jump(pos[, label])`"""
        body = s.body
        ok = len(body) == 1 and isinstance(body[0], ast.Expr) and isinstance(body[0].value, ast.Call) and norm(body[0].value.func) == "self._patch_jump"
        if not ok:
            raise AnalysisError(f"unrecognised patch loop at line {s.lineno}")
        call = body[0].value
        ctx = cl.ctx
        target = None
        if len(call.args) > 1:
            target = self.ev(call.args[1], st)
        elif call.keywords:
            target = self.ev(call.keywords[0].value, st)
        if not isinstance(ctx, CTX):
            return [st]
        ctx.patched[cl.which] = True
        bd = ctx.body_depth
        kind = f"{cl.which}"
        if target is None or target is NONE:
            st.events.append(("patchlist", ctx.line, cl.which, None, len(st.events)))
            if st.live:
                if bd is not None and not st.same(st.depth, bd):
                    st.add("O4", f"{kind}-target", f"{cl.which} jumps land where the operand depth is {st.res(st.depth)} but leave the body at depth {st.res(bd)} (context created at line {ctx.line}): every {cl.which[:-6]} leaks {st.res(bd) - st.res(st.depth)} slot(s)", s.lineno)
            else:
                st.live = True
                st.depth = bd if bd is not None else st.depth
        else:
            if isinstance(target, LBL):
                st.events.append(("patchlist", ctx.line, cl.which, target.name, target.evidx))
                if bd is not None and target.depth is not None and not st.same(target.depth, bd):
                    st.add("O4", f"{kind}-target", f"{cl.which} jumps go to label {target.name} at depth {target.depth} but leave the body at depth {bd}", s.lineno)
            else:
                st.add("O3", f"{kind}-target-unknown", f"{cl.which} patched to a target that is not a recorded bytecode label", s.lineno)
        return [st]

    # ------------------------------------------------------------ expressions
    def ev(self, e: ast.AST, st: State) -> Any:
        if isinstance(e, ast.Constant):
            return NONE if e.value is None else UNK
        if isinstance(e, ast.Name):
            return st.env.get(e.id, UNK)
        if isinstance(e, ast.Tuple):
            return TUP([self.ev(x, st) for x in e.elts])
        if isinstance(e, ast.List):
            l = LST()
            l.elems = [self.ev(x, st) for x in e.elts]
            return l
        if isinstance(e, ast.Dict):
            vals = [opcode_member(v) for v in e.values]
            if vals and all(vals):
                return DICTV(vals)
            return UNK
        if isinstance(e, ast.IfExp):
            a, b = self.ev(e.body, st), self.ev(e.orelse, st)
            if isinstance(a, OPSET) and isinstance(b, OPSET):
                return OPSET(a.names + b.names)
            return _join(a, b)
        if isinstance(e, ast.Attribute):
            m = opcode_member(e)
            if m:
                return OPSET([m])
            base = self.ev(e.value, st) if isinstance(e.value, ast.Name) else UNK
            if e.attr in ("break_jumps", "continue_jumps"):
                return CTXLIST(base, e.attr)
            return UNK
        if isinstance(e, ast.Subscript):
            base = self.ev(e.value, st)
            if isinstance(base, DICTV):
                return OPSET(base.values)
            if isinstance(base, LST):
                r = None
                for x in base.elems:
                    r = x if r is None else _join(r, x)
                return r if r is not None else UNK
            if isinstance(base, TUP) and isinstance(e.slice, ast.Constant) and isinstance(e.slice.value, int) and e.slice.value < len(base.items):
                return base.items[e.slice.value]
            return UNK
        if isinstance(e, ast.Call):
            return self._call(e, st)
        if isinstance(e, (ast.BoolOp, ast.Compare, ast.BinOp, ast.UnaryOp, ast.JoinedStr, ast.ListComp, ast.GeneratorExp, ast.SetComp, ast.Set, ast.Slice, ast.Starred, ast.DictComp, ast.Lambda)):
            for n in ast.walk(e):
                if isinstance(n, ast.Call) and _is_emit_call(n):
                    raise AnalysisError(f"emit call inside a compound expression at line {e.lineno}")
            return UNK
        return UNK

    def _emit_effect(self, names: List[str], arg: Optional[ast.AST], st: State, line: int, via: str) -> None:
        if not st.live:
            if not st.dead_emit_reported:
                st.dead_emit_reported = True
                st.add("O10", f"dead-emit:{'/'.join(names)}", f"{via}({'/'.join(names)}) is emitted after the compiler's own unconditional jump with no label or patch in between ({st.dead_reason}): this code can never run", line)
            return
        effs = []
        for n in names:
            ef = self.eff.get(n)
            if ef is None:
                st.add("O2", f"unhandled-opcode:{n}", f"compiler emits {n}, which has no handler in the dispatcher", line)
                continue
            effs.append(ef)
        if not effs:
            return
        sigs = {(tuple(sorted((c, a) for c, a, _ in ef.outcomes)), ef.terminal) for ef in effs}
        if len(sigs) != 1:
            st.add("O2", f"opset:{'/'.join(names)}", f"opcodes {names} selected by one table have different stack effects", line)
        ef = effs[0]
        st.events.append(("emit", names[0] if len(names) == 1 else "/".join(names), line))
        if len(names) == 1 and names[0] in VAROPS:
            st.events.append(("varemit", names[0], line, _lookup_status(st)))
        single = ef.single()
        if single is None:
            # correlated outcomes (iterator opcodes): resolved by the next conditional jump
            st.env["<pending>"] = (sorted(ef.outcomes, key=repr), st.depth)
            st.depth = None  # type: ignore
            return
        c, a = single
        d = st.depth + c
        if a:
            if arg is None:
                st.add("O2", f"missing-operand:{names[0]}", f"{names[0]} needs an operand count but none is emitted", line)
            else:
                d = d + Lin(a).times_sym(_operand_symbol(arg))
        st.depth = d
        if ef.terminal:
            st.live = False
            st.dead_reason = f"after {names[0]}"

    def _resolve_pending(self, opname: str, st: State) -> Tuple[Optional[Lin], Optional[Lin]]:
        """(depth when the jump is taken, depth on fall-through) after a multi-outcome opcode."""
        outs, base = st.env.pop("<pending>")
        taken = fall = None
        for c, a, lit in outs:
            d = base + c - 1  # the conditional jump pops the flag
            if lit is None:
                raise AnalysisError("multi-outcome opcode without a literal flag")
            jumps = (lit is True) if opname == "JUMP_IF_TRUE" else (lit is False)
            if jumps:
                taken = d
            else:
                fall = d
        return taken, fall

    def _position_helpers(self) -> set:
        """Methods that hand out the current bytecode position: no parameters, no emits, and every return gives
        len(self.bytecode) or a local that was assigned it (a range check in between does not matter here)."""
        got = getattr(self, "_pos_helpers", None)
        if got is not None:
            return got
        out = set()
        for name, m in self.methods.items():
            if isinstance(m.node, ast.Lambda) or [p for p in m.params() if p != "self"] or _emits(m, self.methods, set()):
                continue
            rets = [r for r in m.own_nodes() if isinstance(r, ast.Return)]
            if not rets:
                continue
            here = {t.id for a in m.own_nodes() if isinstance(a, ast.Assign) and norm(a.value) == "len(self.bytecode)" for t in a.targets if isinstance(t, ast.Name)}
            multi = {t.id for a in m.own_nodes() if isinstance(a, ast.Assign) and norm(a.value) != "len(self.bytecode)" for t in a.targets if isinstance(t, ast.Name)}
            if all(r.value is not None and (norm(r.value) == "len(self.bytecode)" or (isinstance(r.value, ast.Name) and r.value.id in here - multi)) for r in rets):
                out.add(name)
        self._pos_helpers = out
        return out

    def _call(self, e: ast.Call, st: State) -> Any:
        fn = norm(e.func)
        if (fn == "len" and e.args and norm(e.args[0]) == "self.bytecode") or (isinstance(e.func, ast.Attribute) and norm(e.func.value) == "self" and not e.args and not e.keywords and e.func.attr in self._position_helpers()):
            st.events.append(("label", e.lineno, len(st.events)))
            if not st.live:
                # a position recorded after an unconditional jump: reachable only through jumps patched to it;
                # its depth is a fresh unknown, fixed by the first jump that targets it
                st.live = True
                st.depth = Lin(0, {f"@L{e.lineno}": 1})
                st.dead_emit_reported = False
            return LBL(st.depth, e.lineno, len(st.events) - 1)
        if fn in ("LoopContext", "self._new_loop_context"):
            kw = {k.arg: k.value for k in e.keywords}
            is_loop = not ("is_loop" in kw and isinstance(kw["is_loop"], ast.Constant) and kw["is_loop"].value is False)
            items = 0
            if "stack_items" in kw:
                if not (isinstance(kw["stack_items"], ast.Constant) and isinstance(kw["stack_items"].value, int)):
                    raise AnalysisError(f"context created with a non-literal stack_items at line {e.lineno}")
                items = kw["stack_items"].value
            is_try = "is_try" in kw and isinstance(kw["is_try"], ast.Constant) and kw["is_try"].value is True
            fin = norm(kw["finalizer"]) if "finalizer" in kw else None
            # a loop context made by the helper takes over the labels written before the loop
            c = CTX(e.lineno, is_loop, "label" in kw or fn == "self._new_loop_context", items, is_try, fin)
            c.ctor = e  # the construction itself, for analyses that rebuild the context with all of its fields
            st.ctxs.append(c)
            return c
        if fn == "self._emit_leave_contexts":
            kw = {k.arg: norm(k.value) for k in e.keywords}
            tgt = norm(e.args[0]) if e.args else kw.get("target", "?")
            st.events.append(("leave", tgt, kw.get("drop_operands", norm(e.args[1]) if len(e.args) > 1 else "?"), e.lineno))
            return UNK
        if fn == "self.loop_stack.append" and e.args:
            v = self.ev(e.args[0], st)
            if isinstance(v, CTX):
                v.pushed = True
                st.ctx_stack.append(v)
            return UNK
        if fn == "self.try_stack.append":
            st.events.append(("try-push", e.lineno))
            return UNK
        if fn == "self.try_stack.pop":
            st.events.append(("try-pop", e.lineno))
            return UNK
        if fn == "self.loop_stack.pop":
            if st.ctx_stack:
                st.ctx_stack.pop().popped = True
            return UNK
        if isinstance(e.func, ast.Attribute) and norm(e.func.value) == "self" and e.func.attr in LOOKUPS:
            return LOOKUP(LOOKUPS[e.func.attr])
        if fn == "self._emit_jump" and (len(e.args) > 1 or any(k.arg == "target" for k in e.keywords)):
            # a jump whose target is already known (a loop's back edge): the same as _emit(op, target)
            tgt_expr = e.args[1] if len(e.args) > 1 else next(k.value for k in e.keywords if k.arg == "target")
            e2 = ast.Call(func=ast.Attribute(value=ast.Name(id="self", ctx=ast.Load()), attr="_emit", ctx=ast.Load()), args=[e.args[0], tgt_expr], keywords=[])
            ast.copy_location(e2, e)
            e2.func.lineno = e.lineno  # type: ignore[attr-defined]
            return self._call(e2, st) if hasattr(self, "_call") else self.ev(e2, st)
        if fn == "self._emit_jump":
            m = self.ev(e.args[0], st) if e.args else UNK
            if not isinstance(m, OPSET) or len(m.names) != 1:
                raise AnalysisError(f"_emit_jump with a non-literal opcode at line {e.lineno}")
            op = m.names[0]
            if "<pending>" in st.env and op in ("JUMP_IF_TRUE", "JUMP_IF_FALSE"):
                taken, fall = self._resolve_pending(op, st)
                st.events.append(("emit", op, e.lineno))
                self.uid += 1
                ph = PH(op, taken, e.lineno, self.uid)
                st.outstanding[ph.uid] = ph
                st.depth = fall
                return ph
            self._emit_effect([op], None, st, e.lineno, "_emit_jump")
            if not st.live and op != "JUMP":
                return UNK
            self.uid += 1
            depth = st.depth
            if op == "TRY_START":
                depth = st.depth + 1  # the handler is entered with the exception value pushed (O7: _throw must restore the depth)
            ph = PH(op, depth, e.lineno, self.uid)
            if st.live or op == "JUMP":
                st.outstanding[ph.uid] = ph
            if op == "JUMP" and st.live:
                st.live = False
                st.dead_reason = f"after the JUMP emitted at line {e.lineno}"
            return ph
        if fn == "self._emit":
            m = self.ev(e.args[0], st) if e.args else UNK
            if not isinstance(m, OPSET):
                raise AnalysisError(f"_emit with an opcode the analysis cannot resolve at line {e.lineno}: {norm(e.args[0]) if e.args else ''}")
            arg = e.args[1] if len(e.args) > 1 else None
            if len(m.names) == 1 and m.names[0] in JUMPS and arg is not None:
                op = m.names[0]
                tgt = self.ev(arg, st)
                if "<pending>" in st.env:
                    taken, fall = self._resolve_pending(op, st)
                    st.depth = fall
                    d_taken = taken
                    st.events.append(("emit", op, e.lineno))
                else:
                    self._emit_effect([op], None, st, e.lineno, "_emit")
                    d_taken = st.depth
                if isinstance(tgt, LBL):
                    st.events.append(("backjump", tgt.name, tgt.evidx, op, len(st.events)))
                    if st.live and tgt.depth is not None and not st.same(d_taken, tgt.depth):
                        st.add("O3", f"backjump:{tgt.name}", f"{op} back to label {tgt.name} (depth {tgt.depth}) is emitted at depth {d_taken}: each trip changes the operand depth by {d_taken - tgt.depth}", e.lineno)
                else:
                    st.add("O3", f"jump-target:{op}", f"{op} emitted with a target that is not a recorded bytecode label ({short(arg, 40)})", e.lineno)
                if op == "JUMP" and st.live:
                    st.live = False
                    st.dead_reason = f"after the JUMP emitted at line {e.lineno}"
                return UNK
            self._emit_effect(m.names, arg, st, e.lineno, "_emit")
            return UNK
        if fn == "self._patch_jump":
            v = self.ev(e.args[0], st) if e.args else UNK
            target = None
            if len(e.args) > 1:
                target = self.ev(e.args[1], st)
            for kw in e.keywords:
                if kw.arg == "target":
                    target = self.ev(kw.value, st)
            phs = [v] if isinstance(v, PH) else []
            if not phs:
                if v is NONE or v is UNK:
                    st.add("O11", f"patch-unknown:{short(e.args[0], 30) if e.args else ''}", f"_patch_jump applied to {short(e.args[0], 30) if e.args else '?'}, which is not a placeholder produced by _emit_jump on this path", e.lineno)
                return UNK
            for ph in phs:
                if ph.uid not in st.outstanding:
                    st.add("O11", f"double-patch:{ph.op}@{_rel(ph.line, e)}", f"jump emitted at line {ph.line} is patched twice on one path", e.lineno)
                st.outstanding.pop(ph.uid, None)
                if target is None or target is NONE:
                    st.events.append(("patch", ph.op, ph.line, len(st.events)))
                    if st.live:
                        if ph.depth is not None and not st.same(st.depth, ph.depth):
                            st.add("O3", f"join:{ph.op}", f"{ph.op} emitted at line {ph.line} arrives with operand depth {ph.depth} but the fall-through path is at depth {st.depth}: the join is inconsistent", e.lineno)
                    else:
                        st.live = True
                        st.depth = ph.depth
                elif isinstance(target, LBL):
                    st.events.append(("patch-to", ph.op, target.name, target.evidx))
                    if target.depth is not None and ph.depth is not None and not st.same(target.depth, ph.depth):
                        st.add("O3", f"join:{ph.op}->{target.name}", f"{ph.op} emitted at line {ph.line} (depth {ph.depth}) is patched to label {target.name} at depth {target.depth}", e.lineno)
                else:
                    st.add("O3", f"patch-target:{ph.op}", f"jump patched to a target that is not a recorded bytecode label", e.lineno)
            return UNK
        if fn == "self._compile_expression":
            self._compile_event("expr", e, st, +1)
            return UNK
        if fn == "self._compile_statement":
            self._compile_event("stmt", e, st, 0)
            return UNK
        if fn == "self._compile_statement_for_value":
            self._compile_event("value", e, st, +1)
            return UNK
        if fn == "self._emit_pending_finally_blocks":
            st.events.append(("finally-inline", e.lineno))
            if not st.live:
                pass
            return UNK
        if isinstance(e.func, ast.Attribute) and e.func.attr == "append" and e.args:
            base = self.ev(e.func.value, st)
            v = self.ev(e.args[0], st)
            if isinstance(base, LST):
                base2 = LST()
                base2.elems = base.elems + [v]
                if isinstance(e.func.value, ast.Name):
                    st.env[e.func.value.id] = base2
                return UNK
            if isinstance(base, CTXLIST):
                # hand the placeholder over to a context's list (patched by the branch that owns the context)
                _escape(v, st)
                st.events.append(("handover", base.which, e.lineno))
                return UNK
            return UNK
        # any other call: evaluate arguments for nested emits (none expected)
        for a in list(e.args) + [k.value for k in e.keywords]:
            for n in ast.walk(a):
                if isinstance(n, ast.Call) and _is_emit_call(n):
                    raise AnalysisError(f"emit call nested in an argument at line {e.lineno}")
        if fn.startswith("self._emit") or fn.startswith("self._patch"):
            raise AnalysisError(f"unknown emit helper {fn} at line {e.lineno}")
        if isinstance(e.func, ast.Attribute) and norm(e.func.value) == "self" and e.func.attr in self.methods and e.func.attr not in _NO_EMIT_HELPERS:
            helper = self.methods[e.func.attr]
            if _emits(helper, self.methods, set()):
                raise AnalysisError(f"helper {helper.qual} emits bytecode but is not modelled (line {e.lineno})")
        return UNK

    def _compile_event(self, kind: str, e: ast.Call, st: State, delta: int) -> None:
        what = norm(e.args[0]) if e.args else "?"
        if e.args and isinstance(e.args[0], ast.Name) and isinstance(st.env.get(e.args[0].id), ASTREF):
            what = st.env[e.args[0].id].text
        if kind in ("stmt", "value"):
            # which contexts of this branch are on loop_stack (and what they declare) while `what` is compiled
            st.events.append(("ctxs", tuple((c.line, st.ctxflags.get(c.line, False), c.finalizer, c.is_try) for c in st.ctx_stack), e.lineno))
        st.events.append((kind, what, e.lineno))
        if kind in ("stmt", "value") and st.ctx_stack:
            top = st.ctx_stack[-1]
            if top.body_depth is None and st.live:
                top.body_depth = st.depth
        if kind in ("stmt", "value") and st.live:
            # O13: what break/continue/return will undo is what the contexts on the stack DECLARE; it has to be
            # what the branch actually set up at this point
            declared = sum(c.stack_items for c in st.ctx_stack)
            # compared when the path ends: the depth may contain a label symbol that is only fixed later
            n_start = sum(1 for x in st.events if x[0] == "emit" and x[1] == "TRY_START")
            n_end = sum(1 for x in st.events if x[0] == "emit" and x[1] == "TRY_END")
            flagged = sum(1 for c in st.ctx_stack if st.ctxflags.get(c.line, False))
            own_fin = any(c.finalizer is not None and what == c.finalizer and c in st.ctx_stack for c in st.ctxs)
            st.deferred = st.deferred + [(st.depth, declared, what, e.lineno, n_start - n_end, flagged, own_fin)]
        if not st.live:
            if not st.dead_emit_reported:
                st.dead_emit_reported = True
                st.add("O10", f"dead-compile:{what}", f"{what} is compiled after the compiler's own unconditional jump with no label or patch in between ({st.dead_reason}): this code can never run", e.lineno)
            return
        if "<pending>" in st.env:
            raise AnalysisError(f"iterator opcode not followed by a conditional jump (line {e.lineno})")
        st.depth = st.depth + delta


_NO_EMIT_HELPERS = {
    "_add_constant", "_add_name", "_add_local", "_get_local", "_get_free_var", "_get_cell_var", "_is_in_outer_scope",
    "_set_loc", "_find_captured_vars", "_find_free_vars_in_function", "_collect_var_decls", "_find_required_free_vars",
    "_compile_function", "_compile_arrow_function",
}


def _emits(f: Func, methods: Dict[str, Func], seen: Set[str]) -> bool:
    if f.name in seen:
        return False
    seen.add(f.name)
    for n in f.own_nodes():
        if isinstance(n, ast.Call) and isinstance(n.func, ast.Attribute) and norm(n.func.value) == "self":
            if n.func.attr in ("_emit", "_emit_jump", "_patch_jump"):
                return True
        if isinstance(n, ast.Call) and "self.bytecode" in norm(n.func):
            return True
    return False


def _is_emit_call(n: ast.Call) -> bool:
    return norm(n.func) in ("self._emit", "self._emit_jump", "self._patch_jump", "self._compile_expression", "self._compile_statement", "self._compile_statement_for_value")


def _rel(line: int, e: ast.AST) -> str:
    return str(line - getattr(e, "lineno", line))


def _escape(v: Any, st: State) -> None:
    if isinstance(v, PH):
        st.outstanding.pop(v.uid, None)
    elif isinstance(v, TUP):
        for x in v.items:
            _escape(x, st)


def _union(a: List[Tuple], b: List[Tuple]) -> List[Tuple]:
    out = list(a)
    for f in b:
        if not any(x[0] == f[0] and x[1] == f[1] for x in out):
            out.append(f)
    return out


def _vkey(v: Any):
    if isinstance(v, PH):
        return ("PH", v.uid)
    if isinstance(v, LBL):
        return ("LBL", v.line, repr(v.depth))
    if isinstance(v, CTX):
        return ("CTX", v.line)
    if isinstance(v, ASTREF):
        return ("AST", v.text)
    if isinstance(v, TUP):
        return ("TUP", tuple(_vkey(x) for x in v.items))
    if isinstance(v, LST):
        return ("LST", tuple(_vkey(x) for x in v.elems))
    if isinstance(v, OPSET):
        return ("OPS", tuple(v.names))
    if isinstance(v, (DICTV, CTXLIST)):
        return ("X", id(v))
    if isinstance(v, LOOKUP):
        return ("LOOKUP", v.kind)
    if isinstance(v, tuple):
        return ("T", repr(v))
    return v


def _join(a: Any, b: Any) -> Any:
    if a is None:
        return b
    if b is None:
        return a
    if a is b:
        return a
    if isinstance(a, LST) and isinstance(b, LST):
        r = LST()
        r.elems = a.elems + [x for x in b.elems if x not in a.elems]
        return r
    if isinstance(b, (LST, TUP, PH, LBL)) and not isinstance(a, (LST, TUP, PH, LBL)):
        return b
    return a


def _count_symbol(it: ast.AST) -> str:
    e = it
    while isinstance(e, ast.Call) and norm(e.func) in ("enumerate", "reversed", "list", "tuple") and e.args:
        e = e.args[0]
    return f"len({norm(e)})"


def _operand_symbol(arg: ast.AST) -> str:
    if isinstance(arg, ast.Call) and norm(arg.func) == "len" and arg.args:
        return f"len({norm(arg.args[0])})"
    return f"operand({norm(arg)})"


def _loopkey(s: ast.For) -> str:
    return short(s.iter, 30)


def _last_iteration_cond(s: ast.For) -> Optional[str]:
    """For `for i, x in enumerate(X)`: the text of the `i < len(X) - 1` test (true on all but the last trip)."""
    if isinstance(s.iter, ast.Call) and norm(s.iter.func) == "enumerate" and isinstance(s.target, ast.Tuple) and isinstance(s.target.elts[0], ast.Name):
        i = s.target.elts[0].id
        x = norm(s.iter.args[0])
        return f"{i} < len({x}) - 1"
    return None


def _isinstance_classes(test: ast.AST, var: str) -> List[str]:
    """`isinstance(var, K)` / `isinstance(var, (K1, K2))` -> class names."""
    if isinstance(test, ast.Call) and norm(test.func) == "isinstance" and len(test.args) == 2 and isinstance(test.args[0], ast.Name) and test.args[0].id == var:
        k = test.args[1]
        if isinstance(k, ast.Name):
            return [k.id]
        if isinstance(k, ast.Tuple):
            return [x.id for x in k.elts if isinstance(x, ast.Name)]
    return []


def get(ctx) -> EmitAnalysis:
    if getattr(ctx, "_emit", None) is None:
        ctx._emit = EmitAnalysis(ctx)
    return ctx._emit
