"""Thorough tier: run the mutant/twin catalogue slice for one property (built later)."""


def run_for(pid: str) -> int:
    return 0
