"""Thorough tier: the checker's own validation.  Mutants from selftest/catalogue.py must be
reported by the named rule on a scratch copy of the current tree; twins must stay silent.
Scratch copies live under a temp directory outside /repo and /verif and are removed at once.
A missed mutant or a firing twin means the CHECKER is broken (ANALYSIS-ERROR, exit 2) — the
property verdict itself only ever comes from the analysis of /repo."""

from __future__ import annotations

import importlib
import os
import py_compile
import re
import shutil
import tempfile
from concurrent.futures import ProcessPoolExecutor
from typing import Dict, List, Tuple

from .core import REPO, AnalysisError


def _apply(entry: dict, scratch: str) -> Tuple[bool, str]:
    touched = set()
    if entry.get("patch"):
        # a seeded change kept as a unified diff under /verif/seeded: apply it to the scratch copy
        import subprocess

        patch = os.path.join(os.path.dirname(os.path.dirname(os.path.abspath(__file__))), entry["patch"])
        if not os.path.exists(patch):
            return False, f"{entry['patch']} missing"
        r = subprocess.run(["git", "apply", "--unsafe-paths", "--directory", scratch, patch], cwd=scratch, capture_output=True, text=True)
        if r.returncode != 0:
            r = subprocess.run(["patch", "-p1", "-s", "--no-backup-if-mismatch", "-i", patch], cwd=scratch, capture_output=True, text=True)
            if r.returncode != 0:
                return False, "patch no longer applies to the current tree: " + (r.stderr or r.stdout).strip().splitlines()[-1][:120]
        for root, _d, files in os.walk(os.path.join(scratch, "src")):
            for fn in files:
                if fn.endswith(".py"):
                    touched.add(os.path.join(root, fn))
    for file, old, new, count in entry["edits"]:
        path = os.path.join(scratch, file)
        if not os.path.exists(path):
            return False, f"{file} missing"
        src = open(path, encoding="utf-8").read()
        if src.count(old) != count:
            return False, f"anchor occurs {src.count(old)}x (expected {count}) in {file}"
        open(path, "w", encoding="utf-8").write(src.replace(old, new))
        touched.add(path)
    for p in touched:
        try:
            compile(open(p, encoding="utf-8").read(), p, "exec")
        except Exception as e:  # the variant must still compile
            return False, f"variant does not compile: {e}"
    return True, ""


def _run_variant(args) -> dict:
    entry, pid, kind = args
    from .main import Ctx
    from .report import Report, load_known

    scratch = tempfile.mkdtemp(prefix="microjs-selftest-")
    try:
        shutil.copytree(os.path.join(REPO, "src"), os.path.join(scratch, "src"))
        ok, why = _apply(entry, scratch)
        if not ok:
            return {"id": entry["id"], "kind": kind, "status": "skipped", "why": why}
        ctx = Ctx("quick", repo=scratch)
        rep = Report(pid, "quick")
        try:
            importlib.import_module(f"sa.props.{pid.lower()}").run(ctx, rep)
            for rid, r in rep.rules.items():
                if r["instances"] < r["floor"]:
                    raise AnalysisError(f"rule {rid} below its floor")
        except AnalysisError as e:
            return {"id": entry["id"], "kind": kind, "status": "analysis-error", "why": str(e)}
        known = {f"{e['rule']}|{e['key']}" for e in load_known() if e.get("status") != "fixed" and e.get("property") == pid}
        new = [f for f in rep.findings if f.ident() not in known]
        if kind == "twin":
            return {"id": entry["id"], "kind": kind, "status": "silent" if not new else "FIRED", "findings": [f"{f.rule} {f.key}" for f in new][:5]}
        want = [(r, k) for p, r, k in entry["expect"] if p == pid]
        if not want:
            return {"id": entry["id"], "kind": kind, "status": "no-expectation", "findings": [f"{f.rule} {f.key}" for f in new][:5]}
        hit = [f for f in new if any(re.search(r, f.rule) and re.search(k, f.key) for r, k in want)]
        return {"id": entry["id"], "kind": kind, "status": "detected" if hit else "MISSED", "findings": [f"{f.rule} {f.key}" for f in (hit or new)][:5], "want": want}
    finally:
        shutil.rmtree(scratch, ignore_errors=True)


def run_for(pid: str, rep=None, jobs: int = 16) -> Dict:
    from selftest import catalogue as C

    work = [(m, pid, "mutant") for m in C.MUTANTS if pid in m["props"]] + [(t, pid, "twin") for t in C.TWINS if pid in t["props"]]
    results: List[dict] = []
    if work:
        with ProcessPoolExecutor(max_workers=min(jobs, len(work))) as ex:
            results = list(ex.map(_run_variant, work))
    summary = {
        "mutants": sum(1 for r in results if r["kind"] == "mutant"),
        "detected": sum(1 for r in results if r["status"] == "detected"),
        "documented_gaps": [r["id"] for r in results if r["status"] == "no-expectation"],
        "twins": sum(1 for r in results if r["kind"] == "twin"),
        "silent": sum(1 for r in results if r["status"] == "silent"),
        "skipped": [f"{r['id']}: {r['why']}" for r in results if r["status"] == "skipped"],
        "details": results,
    }
    bad = [r for r in results if r["status"] in ("MISSED", "FIRED", "analysis-error")]
    for r in results:
        print(f"  selftest {r['kind']:6s} {r['id']:38s} {r['status']}" + (f"  {r.get('findings') or r.get('why')}" if r["status"] not in ("detected", "silent") else ""))
    if rep is not None:
        rep.analysed["selftest"] = {k: v for k, v in summary.items() if k != "details"}
        for r in results[:6]:
            rep.samples.append({"rule": "selftest", "instance": r["id"], "verdict": r["status"], "evidence": r.get("findings")})
    if bad:
        raise AnalysisError("self-test failed: " + "; ".join(f"{r['id']} {r['status']}" for r in bad))
    return summary
