"""E0 call graph: callee resolution for the idioms microjs uses, native registry,
dynamic call sites, reachability."""

from __future__ import annotations

import ast
from typing import Dict, Iterable, List, Optional, Set, Tuple

from .core import (
    AnalysisError,
    ClassInfo,
    Func,
    Module,
    Tree,
    call_name,
    const_str,
    dotted,
    norm,
    walk_no_nested,
)

SELF_ALIASES_DEFAULT = {"self"}


class CallSite:
    __slots__ = ("call", "func", "targets", "kind", "ext")

    def __init__(self, call: ast.Call, func: Func):
        self.call = call
        self.func = func
        self.targets: List[Func] = []
        self.kind = "unknown"  # resolved | external | dynamic | unknown
        self.ext: Optional[str] = None

    @property
    def line(self) -> int:
        return self.call.lineno


class CallGraph:
    def __init__(self, tree: Tree):
        self.t = tree
        self.sites: List[CallSite] = []
        self.sites_of: Dict[int, List[CallSite]] = {}  # id(Func) -> sites
        self.site_of_call: Dict[int, CallSite] = {}
        self.natives: Dict[int, Tuple[Func, str, str]] = {}  # id(Func) -> (Func, js name, how)
        self.methods_by_name: Dict[str, List[Func]] = {}
        for lst in tree.classes.values():
            for ci in lst:
                for n, f in ci.methods.items():
                    self.methods_by_name.setdefault(n, []).append(f)
        self._local_types: Dict[int, Dict[str, ClassInfo]] = {}
        self._self_aliases: Dict[int, Set[str]] = {}
        self._build()

    # ------------------------------------------------------------- local facts
    def self_aliases(self, f: Func) -> Set[str]:
        """Names that denote `self` of the enclosing method inside f (self, vm = self, ctx = self)."""
        key = id(f)
        if key in self._self_aliases:
            return self._self_aliases[key]
        out: Set[str] = set()
        chain = []
        g: Optional[Func] = f
        while g is not None:
            chain.append(g)
            g = g.parent
        root = chain[-1]
        if root.is_method and root.params() and root.params()[0] == "self":
            out.add("self")
            for g in chain:
                # a nested function that rebinds the alias as a parameter shadows it
                for n in g.own_nodes():
                    if isinstance(n, ast.Assign) and isinstance(n.value, ast.Name) and n.value.id in out | {"self"}:
                        for tgt in n.targets:
                            if isinstance(tgt, ast.Name):
                                out.add(tgt.id)
            # shadowing by parameters of nested functions
            for g in chain[:-1]:
                for p in g.params():
                    out.discard(p)
        self._self_aliases[key] = out
        return out

    def local_types(self, f: Func) -> Dict[str, ClassInfo]:
        """name -> class, for locals assigned from `K(...)` or a call with annotated return."""
        key = id(f)
        if key in self._local_types:
            return self._local_types[key]
        out: Dict[str, ClassInfo] = {}
        self._local_types[key] = out
        chain = []
        g: Optional[Func] = f
        while g is not None:
            chain.append(g)
            g = g.parent
        for g in reversed(chain):
            # parameter annotations
            a = g.node.args
            for arg in a.posonlyargs + a.args + a.kwonlyargs:
                if arg.annotation is not None:
                    ci = self.t.resolve_class_name(g.module, norm(arg.annotation).strip("'\""))
                    if ci is not None:
                        out[arg.arg] = ci
            for n in g.own_nodes():
                if isinstance(n, ast.Assign) and len(n.targets) == 1 and isinstance(n.targets[0], ast.Name):
                    ci = self._type_of_expr(n.value, g, out)
                    if ci is not None:
                        out[n.targets[0].id] = ci
                elif isinstance(n, ast.AnnAssign) and isinstance(n.target, ast.Name):
                    ci = self.t.resolve_class_name(g.module, norm(n.annotation).strip("'\""))
                    if ci is not None:
                        out[n.target.id] = ci
        return out

    def _type_of_expr(self, e: ast.AST, f: Func, env: Dict[str, ClassInfo]) -> Optional[ClassInfo]:
        if isinstance(e, ast.Call):
            fn = e.func
            if isinstance(fn, ast.Name):
                ci = self._class_visible(fn.id, f)
                if ci is not None:
                    return ci
                tf = self._lookup_name_func(fn.id, f)
                if tf is not None:
                    return self._return_type(tf)
            elif isinstance(fn, ast.Attribute):
                for tf in self._resolve_attr_call(fn, f, env):
                    rt = self._return_type(tf)
                    if rt is not None:
                        return rt
        elif isinstance(e, ast.Attribute) and isinstance(e.value, ast.Name):
            # x._internal where class of x known and attribute assigned from constructor in __init__
            base = env.get(e.value.id)
            if base is None and e.value.id in self.self_aliases(f) and f.cls is not None:
                base = f.cls
            if base is not None:
                return self._attr_type(base, e.attr)
        elif isinstance(e, ast.Name):
            return env.get(e.id)
        return None

    def _attr_type(self, ci: ClassInfo, attr: str) -> Optional[ClassInfo]:
        key = (id(ci), attr)
        cache = self.__dict__.setdefault("_attr_type_cache", {})
        if key not in cache:
            cache[key] = self._attr_type_uncached(ci, attr)
        return cache[key]

    def _attr_type_uncached(self, ci: ClassInfo, attr: str) -> Optional[ClassInfo]:
        for c in self.t.mro(ci):
            for m in c.methods.values():
                for n in m.own_nodes():
                    tgt = None
                    if isinstance(n, ast.Assign) and len(n.targets) == 1:
                        tgt, val = n.targets[0], n.value
                    elif isinstance(n, ast.AnnAssign):
                        tgt, val = n.target, n.value
                    if (
                        tgt is not None
                        and isinstance(tgt, ast.Attribute)
                        and isinstance(tgt.value, ast.Name)
                        and tgt.value.id == "self"
                        and tgt.attr == attr
                        and isinstance(val, ast.Call)
                        and isinstance(val.func, ast.Name)
                    ):
                        r = self._class_visible(val.func.id, m)
                        if r is not None:
                            return r
        return None

    def _return_type(self, f: Func) -> Optional[ClassInfo]:
        r = getattr(f.node, "returns", None)
        if r is None:
            return None
        txt = norm(r).strip("'\"")
        if txt.startswith("Optional["):
            txt = txt[9:-1]
        return self.t.resolve_class_name(f.module, txt)

    def _class_visible(self, name: str, f: Func) -> Optional[ClassInfo]:
        """Class denoted by bare name inside f (module scope, imports, function-level imports)."""
        ci = self.t.resolve_class_name(f.module, name)
        if ci is not None:
            return ci
        # function-level `from .x import Y as Z`
        g: Optional[Func] = f
        while g is not None:
            for n in g.own_nodes():
                if isinstance(n, ast.ImportFrom) and n.level > 0:
                    for a in n.names:
                        if (a.asname or a.name) == name:
                            base = f.module.name.split(".")[:-1]
                            if f.module.path.endswith("__init__.py") and f.module.name != "__init__":
                                base = f.module.name.split(".")
                            for _ in range(n.level - 1):
                                base = base[:-1]
                            target = ".".join(base + ([n.module] if n.module else []))
                            return self.t._resolve_export(target, a.name, set())
            g = g.parent
        return None

    def _lookup_name_func(self, name: str, f: Func) -> Optional[Func]:
        g: Optional[Func] = f
        while g is not None:
            if name in g.children:
                return g.children[name]
            g = g.parent
        return self.t.resolve_function_name(f.module, name)

    def _is_shadowed(self, name: str, f: Func, tf: Func) -> bool:
        """name resolves lexically to def tf, unless a nearer scope binds it as a variable/parameter."""
        g: Optional[Func] = f
        while g is not None:
            if name in g.children:
                return g.children[name] is not tf
            if name in g.params() or self._assigned_in(name, g):
                return True
            g = g.parent
        return False

    def _is_local_var(self, name: str, f: Func) -> bool:
        """Is name a parameter or assigned local (not a def) of f or its lexical parents?"""
        g: Optional[Func] = f
        while g is not None:
            if name in g.params():
                return True
            for n in g.own_nodes():
                if isinstance(n, ast.Name) and n.id == name and isinstance(n.ctx, ast.Store):
                    return True
            g = g.parent
        return False

    # -------------------------------------------------------------- resolution
    def _narrowed(self, name: str, node: ast.AST, f: Func) -> List[ClassInfo]:
        """Classes K such that node lies in the true-branch of `if isinstance(name, K)` (nearest guard)."""
        child = node
        p = getattr(node, "_parent", None)
        while p is not None and p is not f.node:
            if isinstance(p, ast.If) and any(child is s for s in p.body):
                t = p.test
                tests = t.values if isinstance(t, ast.BoolOp) and isinstance(t.op, ast.And) else [t]
                for tt in tests:
                    if isinstance(tt, ast.Call) and isinstance(tt.func, ast.Name) and tt.func.id == "isinstance" and len(tt.args) == 2 and isinstance(tt.args[0], ast.Name) and tt.args[0].id == name:
                        ks = tt.args[1].elts if isinstance(tt.args[1], ast.Tuple) else [tt.args[1]]
                        out = []
                        for k in ks:
                            if isinstance(k, ast.Name):
                                ci = self._class_visible(k.id, f)
                                if ci is not None:
                                    out.append(ci)
                        if out:
                            return out
            child = p
            p = getattr(p, "_parent", None)
        return []

    def _class_dict(self, name: str, f: Func) -> List[ClassInfo]:
        """name = D[key] where D is a dict literal of classes (or name = type(x)(...))."""
        g: Optional[Func] = f
        while g is not None:
            for n in g.own_nodes():
                if isinstance(n, ast.Assign) and len(n.targets) == 1 and isinstance(n.targets[0], ast.Name) and n.targets[0].id == name:
                    v = n.value
                    if isinstance(v, ast.Subscript) and isinstance(v.value, ast.Name):
                        return self._dict_classes(v.value.id, g)
            g = g.parent
        return []

    def _dict_classes(self, dname: str, f: Func) -> List[ClassInfo]:
        g: Optional[Func] = f
        while g is not None:
            for n in g.own_nodes():
                if isinstance(n, ast.Assign) and len(n.targets) == 1 and isinstance(n.targets[0], ast.Name) and n.targets[0].id == dname and isinstance(n.value, ast.Dict):
                    out = []
                    for v in n.value.values:
                        if isinstance(v, ast.Name):
                            ci = self._class_visible(v.id, g)
                            if ci is not None:
                                out.append(ci)
                    return out
            g = g.parent
        return []

    def _var_classes(self, name: str, node: ast.AST, f: Func, env) -> List[ClassInfo]:
        nar = self._narrowed(name, node, f)
        if nar:
            return nar
        if name in env:
            return [env[name]]
        # x = K(...) handled by local_types; x = array_class(...) / type(y)(...)
        g: Optional[Func] = f
        while g is not None:
            for n in g.own_nodes():
                if isinstance(n, ast.Assign) and len(n.targets) == 1 and isinstance(n.targets[0], ast.Name) and n.targets[0].id == name and isinstance(n.value, ast.Call):
                    fnc = n.value.func
                    if isinstance(fnc, ast.Name):
                        cs = self._class_dict(fnc.id, g)
                        if cs:
                            return cs
                    if isinstance(fnc, ast.Call) and isinstance(fnc.func, ast.Name) and fnc.func.id == "type" and fnc.args and isinstance(fnc.args[0], ast.Name):
                        inner = self._var_classes(fnc.args[0].id, n, g, self.local_types(g))
                        if inner:
                            return inner
            g = g.parent
        return []

    def _resolve_attr_call(self, fn: ast.Attribute, f: Func, env: Optional[Dict[str, ClassInfo]] = None) -> List[Func]:
        env = env if env is not None else self.local_types(f)
        v = fn.value
        if isinstance(v, ast.Name) and v.id not in self.self_aliases(f):
            cands = self._var_classes(v.id, fn, f, env)
            if cands:
                out = []
                for ci in cands:
                    m = self.t.find_method(ci, fn.attr)
                    if m is not None and m not in out:
                        out.append(m)
                if out:
                    return out
        if isinstance(v, ast.Name):
            if v.id in self.self_aliases(f) and f.cls is not None:
                m = self.t.find_method(f.cls, fn.attr)
                return [m] if m is not None else []
            if v.id in env:
                m = self.t.find_method(env[v.id], fn.attr)
                return [m] if m is not None else []
        if isinstance(v, ast.Call) and isinstance(v.func, ast.Name) and v.func.id == "super" and f.cls is not None:
            for b in self.t.mro(f.cls)[1:]:
                if fn.attr in b.methods:
                    return [b.methods[fn.attr]]
            return []
        ci = self._type_of_expr(v, f, env)
        if ci is not None:
            m = self.t.find_method(ci, fn.attr)
            return [m] if m is not None else []
        return []

    def resolve(self, call: ast.Call, f: Func) -> CallSite:
        cs = CallSite(call, f)
        fn = call.func
        if isinstance(fn, ast.Name):
            name = fn.id
            tf = None
            g: Optional[Func] = f
            while g is not None:
                if name in g.children:
                    tf = g.children[name]
                    break
                if name in g.params() or self._assigned_in(name, g):
                    break
                g = g.parent
            if tf is not None:
                cs.targets, cs.kind = [tf], "resolved"
                return cs
            if g is not None:  # a local variable / parameter holding a callable
                if name in g.params() and not self._assigned_in(name, g):
                    ts = self._param_callables(name, g)
                    if ts is not None:
                        cs.targets, cs.kind = ts, "resolved"
                        cs.ext = "param:" + name
                        return cs
                    ext = self._param_externals(name, g)
                    if ext is not None:
                        # every call site passes a function of an imported host library (math.sqrt, ...)
                        cs.kind, cs.ext = "external", ext
                        return cs
                cds = self._class_dict(name, f)
                if cds:
                    # name = TABLE[key] with TABLE a dict literal of classes: a constructor call
                    ts = []
                    for ci in cds:
                        for mn in ("__init__", "__new__"):
                            m_ = self.t.find_method(ci, mn)
                            if m_ is not None and m_ not in ts:
                                ts.append(m_)
                    cs.targets, cs.kind, cs.ext = ts, "resolved", "classdict:" + name
                    return cs
                cs.kind = "dynamic"
                return cs
            ci = self._class_visible(name, f)
            if ci is not None:
                init = self.t.find_method(ci, "__init__")
                cs.targets = [init] if init is not None else []
                new = self.t.find_method(ci, "__new__")
                if new is not None:
                    cs.targets.append(new)
                cs.kind = "resolved"
                cs.ext = "class:" + ci.qual
                return cs
            tf = self.t.resolve_function_name(f.module, name)
            if tf is not None:
                cs.targets, cs.kind = [tf], "resolved"
                return cs
            imp = f.module.imports.get(name)
            cs.kind = "external"
            cs.ext = (imp[0][4:] + "." + (imp[1] or "")) if imp and imp[0].startswith("ext:") else "builtin." + name
            return cs
        if isinstance(fn, ast.Attribute):
            d = dotted(fn)
            if d is not None:
                head = d.split(".")[0]
                imp = f.module.imports.get(head)
                if imp and imp[0].startswith("ext:") and not self._is_local_var(head, f):
                    cs.kind, cs.ext = "external", d
                    return cs
                # function-level `import math` / `import struct`
                if self._fn_level_import(head, f):
                    cs.kind, cs.ext = "external", d
                    return cs
            if isinstance(fn.value, ast.Call) and isinstance(fn.value.func, ast.Name) and fn.value.func.id == "super":
                ts = self._resolve_attr_call(fn, f)
                if ts:
                    cs.targets, cs.kind = ts, "resolved"
                else:
                    cs.kind, cs.ext = "external", "super." + fn.attr
                return cs
            ts = self._resolve_attr_call(fn, f)
            if ts:
                cs.targets, cs.kind = ts, "resolved"
                return cs
            # attribute holding a callable: x._call_fn(...), self._fn(...), self.poll_callback()
            if fn.attr in ("_call_fn", "_fn", "poll_callback", "_poll_callback"):
                cs.kind = "dynamic"
                return cs
            # self.<slot>(...) where the constructor stores a parameter in that slot: a callable given to the object
            if isinstance(fn.value, ast.Name) and fn.value.id in self.self_aliases(f) and f.cls is not None:
                init = self.t.find_method(f.cls, "__init__")
                if init is not None and any(isinstance(n, ast.Assign) and isinstance(n.value, ast.Name) and n.value.id in init.params() and any(isinstance(t, ast.Attribute) and t.attr == fn.attr and norm(t.value) == "self" for t in n.targets) for n in init.own_nodes()):
                    ts = self._slot_callables(f.cls, fn.attr)
                    if ts is not None:
                        cs.targets, cs.kind, cs.ext = ts, "resolved", "slot:" + fn.attr
                        return cs
                    cs.kind = "dynamic"
                    return cs
            if self._is_external_object(fn.value, f):
                # e.g. _PATTERN = re.compile(...); _PATTERN.match(s): a host-library object, not a repo class
                cs.kind, cs.ext = "external", "extobj." + fn.attr
                return cs
            cands = [] if fn.attr.startswith("__") else self.methods_by_name.get(fn.attr, [])
            if cands:
                cs.targets, cs.kind = list(cands), "byname"
                return cs
            cs.kind, cs.ext = "external", "method." + fn.attr
            return cs
        cs.kind = "dynamic"
        return cs

    def _is_external_object(self, e: ast.AST, f: Func) -> bool:
        """e is a name bound exactly once (module level, or in f) to the result of a call into an imported
        host library (re.compile(...), struct.Struct(...)): its methods are the library's, not the repo's."""
        if not isinstance(e, ast.Name):
            return False
        if self._is_local_var(e.id, f) and not any(isinstance(n, ast.Assign) and any(isinstance(t, ast.Name) and t.id == e.id for t in n.targets) for n in f.own_nodes()):
            return False
        cache = self.__dict__.setdefault("_extobj_cache", {})
        key = (f.module.name, e.id, id(f))
        if key in cache:
            return cache[key]
        defs = []
        scopes = [f.own_nodes()] if any(isinstance(n, ast.Assign) and any(isinstance(t, ast.Name) and t.id == e.id for t in n.targets) for n in f.own_nodes()) else [f.module.tree.body]
        for sc in scopes:
            for n in sc:
                if isinstance(n, ast.Assign) and any(isinstance(t, ast.Name) and t.id == e.id for t in n.targets):
                    defs.append(n.value)
        ok = False
        if len(defs) == 1 and isinstance(defs[0], ast.Call):
            d = dotted(defs[0].func)
            if d is not None:
                head = d.split(".")[0]
                imp = f.module.imports.get(head)
                if imp and imp[0].startswith("ext:"):
                    ok = True
        cache[key] = ok
        return ok

    def _param_callables(self, name: str, g: Func) -> Optional[List[Func]]:
        """Parameter `name` of g is called inside g (or a closure of g).  If every call site of g in the tree
        passes a class or a function of the repo for it, the call is resolved to those constructors/functions."""
        idx_all = self.__dict__.setdefault("_calls_by_name", None)
        if idx_all is None:
            idx_all = {}
            for h in self.t.funcs:
                for n in h.own_nodes():
                    if isinstance(n, ast.Call):
                        cn = n.func.attr if isinstance(n.func, ast.Attribute) else (n.func.id if isinstance(n.func, ast.Name) else None)
                        if cn:
                            idx_all.setdefault(cn, []).append((n, h))
            self.__dict__["_calls_by_name"] = idx_all
        if len(self.t.funcs_named(g.name)) != 1:
            return None
        params = [a.arg for a in g.node.args.args]
        pos = params.index(name) - (1 if g.cls is not None and params and params[0] in ("self", "cls") else 0)
        out: List[Func] = []
        sites = idx_all.get(g.name, [])
        if not sites:
            return None
        for call, h in sites:
            a = None
            if 0 <= pos < len(call.args):
                a = call.args[pos]
            for kw in call.keywords:
                if kw.arg == name:
                    a = kw.value
            if isinstance(a, ast.Attribute) and isinstance(a.value, ast.Name) and a.value.id in self.self_aliases(h) and h.cls is not None:
                # a bound method of the same object passed as a value: self._parse_block_statement
                m = self.t.find_method(h.cls, a.attr)
                if m is None:
                    return None
                out.append(m)
                continue
            if isinstance(a, ast.Lambda):
                lf = next((l for l in self._all_lambdas() if l.node is a), None)
                if lf is None:
                    return None
                out.append(lf)
                continue
            if not isinstance(a, ast.Name):
                return None
            ci = self._class_visible(a.id, h)
            if ci is not None:
                init = self.t.find_method(ci, "__init__")
                if init is not None:
                    out.append(init)
                continue
            tf = self._lookup_name_func(a.id, h) or self.t.resolve_function_name(h.module, a.id)
            if tf is None:
                return None
            out.append(tf)
        return list({id(x): x for x in out}.values())

    def _param_externals(self, name: str, g: Func) -> Optional[str]:
        """Parameter `name` of g is called inside g (or a closure of g).  When every call site of g passes an
        attribute of an imported host module for it (unary(math.sqrt)), the dotted names joined by '|'."""
        idx_all = self.__dict__.get("_calls_by_name")
        if idx_all is None:
            idx_all = {}
            for h in self.t.funcs:
                for n in h.own_nodes():
                    if isinstance(n, ast.Call):
                        cn = n.func.attr if isinstance(n.func, ast.Attribute) else (n.func.id if isinstance(n.func, ast.Name) else None)
                        if cn:
                            idx_all.setdefault(cn, []).append((n, h))
            self.__dict__["_calls_by_name"] = idx_all
        if len(self.t.funcs_named(g.name)) != 1:
            return None
        params = [a.arg for a in g.node.args.args]
        if name not in params:
            return None
        pos = params.index(name) - (1 if g.cls is not None and g.parent is None and params and params[0] in ("self", "cls") else 0)
        sites = idx_all.get(g.name, [])
        if not sites:
            return None
        out = []
        for call, h in sites:
            a = call.args[pos] if 0 <= pos < len(call.args) else None
            for kw in call.keywords:
                if kw.arg == name:
                    a = kw.value
            d = dotted(a) if a is not None else None
            if d is None or "." not in d:
                return None
            head = d.split(".")[0]
            imp = h.module.imports.get(head)
            if not ((imp and imp[0].startswith("ext:") and not self._is_local_var(head, h)) or self._fn_level_import(head, h)):
                return None
            out.append(d)
        return "|".join(sorted(set(out)))

    def _slot_callables(self, ci, slot: str, depth: int = 0) -> Optional[List[Func]]:
        """The repository functions that can sit in `self.<slot>` of class ci, when the constructor stores one of its
        parameters there and every construction site passes a local function, None, a parameter that is itself only
        ever given such values (followed through constructors that hand it on), or nothing (default None).
        None: some site passes something else."""
        if depth > 3:
            return None
        init = self.t.find_method(ci, "__init__")
        if init is None:
            return None
        pname = None
        for n in init.own_nodes():
            if isinstance(n, ast.Assign) and isinstance(n.value, ast.Name) and n.value.id in init.params() and any(isinstance(t, ast.Attribute) and t.attr == slot and norm(t.value) == "self" for t in n.targets):
                pname = n.value.id
        if pname is None:
            return None
        # the slot must not be written anywhere else
        for m in ci.all_methods:
            if m is init or isinstance(m.node, ast.Lambda):
                continue
            if any(isinstance(n, ast.Assign) and any(isinstance(t, ast.Attribute) and t.attr == slot for t in n.targets) for n in m.own_nodes()):
                return None
        params = [a.arg for a in init.node.args.args if a.arg != "self"]
        idx = params.index(pname)
        out: List[Func] = []
        for h in self.t.funcs:
            for c in h.own_nodes():
                if not (isinstance(c, ast.Call) and isinstance(c.func, ast.Name) and self._class_visible(c.func.id, h) is ci):
                    continue
                a = c.args[idx] if idx < len(c.args) else None
                for kw in c.keywords:
                    if kw.arg == pname:
                        a = kw.value
                if isinstance(a, ast.Attribute) and a.attr == slot:
                    continue  # the same slot of another instance (a copy made from an existing object): nothing new
                r = self._callable_values(a, h, depth)
                if r is None:
                    return None
                out += r
        return list({id(x): x for x in out}.values())

    def _callable_values(self, a: Optional[ast.AST], h: Func, depth: int) -> Optional[List[Func]]:
        if a is None or (isinstance(a, ast.Constant) and a.value is None):
            return []
        if isinstance(a, ast.Lambda):
            lf = next((l for l in self._all_lambdas() if l.node is a), None)
            return [lf] if lf is not None else None
        if isinstance(a, ast.Name):
            out: List[Func] = []
            g: Optional[Func] = h
            found = False
            while g is not None:
                if a.id in g.children:
                    out.append(g.children[a.id])
                    found = True
                # plain assignments of the same local: None or another callable value
                for n in g.own_nodes():
                    if isinstance(n, ast.Assign) and any(isinstance(t, ast.Name) and t.id == a.id for t in n.targets):
                        r = self._callable_values(n.value, g, depth + 1)
                        if r is None:
                            return None
                        out += r
                        found = True
                if a.id in g.params() and not found:
                    # handed on: what do the callers / constructors of g pass?
                    if g.name == "__init__" and g.cls is not None:
                        ps = [x.arg for x in g.node.args.args if x.arg != "self"]
                        sub: List[Func] = []
                        i = ps.index(a.id)
                        for h2 in self.t.funcs:
                            for c in h2.own_nodes():
                                if isinstance(c, ast.Call) and isinstance(c.func, ast.Name) and self._class_visible(c.func.id, h2) is g.cls:
                                    aa = c.args[i] if i < len(c.args) else None
                                    for kw in c.keywords:
                                        if kw.arg == a.id:
                                            aa = kw.value
                                    if depth > 3:
                                        return None
                                    r = self._callable_values(aa, h2, depth + 1)
                                    if r is None:
                                        return None
                                    sub += r
                        return out + sub
                    return None
                if found:
                    return out
                g = g.parent
            return None
        return None

    def _all_lambdas(self) -> List[Func]:
        c = self.__dict__.get("_lambda_funcs")
        if c is None:
            c = [f for f in self.t.funcs if isinstance(f.node, ast.Lambda)]
            self.__dict__["_lambda_funcs"] = c
        return c

    def _fn_level_import(self, head: str, f: Func) -> bool:
        key = (id(f), head)
        cache = self.__dict__.setdefault("_fli_cache", {})
        if key not in cache:
            cache[key] = self._fn_level_import_uncached(head, f)
        return cache[key]

    def _fn_level_import_uncached(self, head: str, f: Func) -> bool:
        g: Optional[Func] = f
        while g is not None:
            for n in g.own_nodes():
                if isinstance(n, ast.Import):
                    for a in n.names:
                        if (a.asname or a.name.split(".")[0]) == head:
                            return True
            g = g.parent
        return False

    _assign_cache: Dict[Tuple[int, str], bool] = {}

    def _assigned_in(self, name: str, g: Func) -> bool:
        key = (id(g), name)
        if key in self._assign_cache:
            return self._assign_cache[key]
        r = False
        for n in g.own_nodes():
            if isinstance(n, ast.Name) and n.id == name and isinstance(n.ctx, ast.Store):
                r = True
                break
        self._assign_cache[key] = r
        return r

    # ---------------------------------------------------------------- building
    def _build(self) -> None:
        self._assign_cache = {}
        for f in self.t.funcs:
            lst = []
            for n in f.own_nodes():
                if isinstance(n, ast.Call):
                    cs = self.resolve(n, f)
                    lst.append(cs)
                    self.site_of_call[id(n)] = cs
            self.sites_of[id(f)] = lst
            self.sites.extend(lst)
        self._find_natives()
        self._edges: Dict[int, Set[int]] = {}
        self._func_by_id: Dict[int, Func] = {id(f): f for f in self.t.funcs}
        native_ids = set(self.natives.keys())
        for f in self.t.funcs:
            es: Set[int] = set()
            for cs in self.sites_of[id(f)]:
                for tgt in cs.targets:
                    es.add(id(tgt))
                if cs.kind == "dynamic":
                    es |= native_ids
            # a reference to a local/module function (passed as a value) may be called by the receiver
            for n in f.own_nodes():
                if isinstance(n, ast.Name) and isinstance(n.ctx, ast.Load):
                    tf = self._lookup_name_func(n.id, f)
                    if tf is not None and not self._is_shadowed(n.id, f, tf):
                        if self._handed_to_wrapper(n, tf):
                            continue  # only the wrapper it is handed to calls it: the edge runs through the wrapper
                        es.add(id(tf))
            self._edges[id(f)] = es

    def _handed_to_wrapper(self, n: ast.Name, tf: Func) -> bool:
        """n (a reference to function tf) is an argument of a call to repository functions whose parameter call
        (`fn(*args)` in the function or a closure of it) was resolved to tf: the decorator-by-hand idiom."""
        par = getattr(n, "_parent", None)
        if not (isinstance(par, ast.Call) and n in par.args):
            return False
        cs = self.site_of_call.get(id(par))
        if cs is None or cs.kind != "resolved" or not cs.targets:
            return False
        for w in cs.targets:
            inner = [w] + list(w.children.values())
            if not any(c2.ext and c2.ext.startswith("param:") and any(x is tf for x in c2.targets) for g in inner for c2 in self.sites_of.get(id(g), [])):
                return False
        return True

    def _find_natives(self) -> None:
        """Functions that can become script-callable values."""
        for f in self.t.funcs:
            for n in f.own_nodes():
                if isinstance(n, ast.Call):
                    cn = call_name(n)
                    if cn == "set" and len(n.args) == 2 and const_str(n.args[0]) is not None:
                        self._reg(n.args[1], f, const_str(n.args[0]), "set")
                    elif cn in ("JSBoundMethod", "JSCallableObject") and n.args:
                        self._reg(n.args[0], f, cn, cn)
                    elif cn in ("define_getter", "define_setter") and len(n.args) == 2:
                        self._reg(n.args[1], f, cn, cn)
                elif isinstance(n, ast.Assign):
                    # self._globals["x"] = self._global_x
                    for tgt in n.targets:
                        if isinstance(tgt, ast.Subscript) and "_globals" in norm(tgt.value):
                            self._reg(n.value, f, const_str(tgt.slice) or "?", "globals")
                    # methods = {"name": fn, ...}
                    if isinstance(n.value, ast.Dict) and len(n.targets) == 1 and isinstance(n.targets[0], ast.Name) and n.targets[0].id == "methods":
                        for k, v in zip(n.value.keys, n.value.values):
                            self._reg(v, f, const_str(k) or "?", "methods")
                elif isinstance(n, ast.Return) and n.value is not None:
                    # closures returned by factory helpers (bound, eval_fn, ...)
                    if isinstance(n.value, ast.Name) and n.value.id in f.children:
                        self._reg(n.value, f, n.value.id, "returned")
                    # instances of a host class with __call__ handed back as callable values
                    if isinstance(n.value, ast.Call) and isinstance(n.value.func, ast.Name):
                        ci = self._class_visible(n.value.func.id, f)
                        if ci is not None:
                            callm = self.t.find_method(ci, "__call__")
                            if callm is not None:
                                self.natives.setdefault(id(callm), (callm, ci.name, "returned-callable"))

    def _reg(self, e: ast.AST, f: Func, jsname: str, how: str) -> None:
        tf: Optional[Func] = None
        if isinstance(e, ast.Name):
            tf = self._lookup_name_func(e.id, f)
        elif isinstance(e, ast.Attribute) and isinstance(e.value, ast.Name) and e.value.id in self.self_aliases(f) and f.cls is not None:
            tf = self.t.find_method(f.cls, e.attr)
        elif isinstance(e, ast.Lambda):
            tf = self.t.func_of_node.get(id(e))
        elif isinstance(e, ast.Call):
            # JSBoundMethod(fn) / JSCallableObject(fn) nested in set(...)
            if call_name(e) in ("JSBoundMethod", "JSCallableObject") and e.args:
                self._reg(e.args[0], f, jsname, how)
            return
        if tf is not None:
            self.natives.setdefault(id(tf), (tf, jsname, how))

    # ------------------------------------------------------------------ queries
    def callees(self, f: Func) -> List[Func]:
        return [self._func_by_id[i] for i in self._edges.get(id(f), ())]

    def reach(self, roots: Iterable[Func], stop: Optional[Set[int]] = None) -> Dict[int, Optional[int]]:
        """Reachable funcs (ids) from roots; parent map for path reconstruction."""
        par: Dict[int, Optional[int]] = {}
        q = []
        for r in roots:
            if id(r) not in par:
                par[id(r)] = None
                q.append(id(r))
        while q:
            n = q.pop(0)
            if stop and n in stop:
                continue
            for m in self._edges.get(n, ()):
                if m not in par:
                    par[m] = n
                    q.append(m)
        return par

    def path(self, par: Dict[int, Optional[int]], target: Func) -> List[Func]:
        out = []
        cur: Optional[int] = id(target)
        while cur is not None:
            out.append(self._func_by_id[cur])
            cur = par.get(cur)
        return list(reversed(out))

    def reaches(self, f: Func, targets: Set[int]) -> bool:
        par = self.reach([f])
        return any(t in par for t in targets)

    def stats(self) -> Dict[str, int]:
        out: Dict[str, int] = {}
        for cs in self.sites:
            out[cs.kind] = out.get(cs.kind, 0) + 1
        out["natives"] = len(self.natives)
        out["functions"] = len(self.t.funcs)
        return out
