"""Small syntactic helpers shared by rules."""

from __future__ import annotations

import ast
from typing import Dict, Iterator, List, Optional, Set, Tuple

from .core import Func, norm, walk_no_nested


def guards_of(node: ast.AST, stop: ast.AST) -> List[Tuple[ast.AST, bool]]:
    """Conditions (test, polarity) of the `if`/`while`/ternary statements enclosing node, up to stop."""
    out: List[Tuple[ast.AST, bool]] = []
    child = node
    p = getattr(node, "_parent", None)
    while p is not None and p is not stop:
        if isinstance(p, ast.If):
            if any(child is s for s in p.body):
                out.append((p.test, True))
            elif any(child is s for s in p.orelse):
                out.append((p.test, False))
        elif isinstance(p, ast.While):
            if any(child is s for s in p.body):
                out.append((p.test, True))
        elif isinstance(p, ast.IfExp):
            if child is p.body:
                out.append((p.test, True))
            elif child is p.orelse:
                out.append((p.test, False))
        child = p
        p = getattr(p, "_parent", None)
    return out


def known_conditions(node: ast.AST, stop: ast.AST) -> List[Tuple[ast.AST, bool]]:
    """guards_of plus what earlier statements of the enclosing blocks established by leaving: after
    `if T: return/raise/continue/break` (no else) T is false for every statement that follows in that block."""
    out = list(guards_of(node, stop))
    child = node
    p = getattr(node, "_parent", None)
    while p is not None:
        for field in ("body", "orelse", "finalbody"):
            blk = getattr(p, field, None)
            if isinstance(blk, list) and any(child is s for s in blk):
                for s in blk:
                    if s is child:
                        break
                    if isinstance(s, ast.If) and s.body and isinstance(s.body[-1], (ast.Return, ast.Raise, ast.Continue, ast.Break)):
                        if not s.orelse:
                            out.append((s.test, False))
                    elif isinstance(s, ast.If) and s.orelse and isinstance(s.orelse[-1], (ast.Return, ast.Raise, ast.Continue, ast.Break)):
                        out.append((s.test, True))
        if p is stop:
            break
        child = p
        p = getattr(p, "_parent", None)
    return out


def atoms(test: ast.AST, polarity: bool = True) -> List[Tuple[ast.AST, bool]]:
    """Split a condition known to be `polarity` into atomic conditions known to hold.

    (a and b) true -> a true, b true ; (a or b) false -> a false, b false ; not a -> flipped.
    Anything else stays one atom.
    """
    if isinstance(test, ast.BoolOp):
        if isinstance(test.op, ast.And) and polarity:
            out = []
            for v in test.values:
                out.extend(atoms(v, True))
            return out
        if isinstance(test.op, ast.Or) and not polarity:
            out = []
            for v in test.values:
                out.extend(atoms(v, False))
            return out
    if isinstance(test, ast.UnaryOp) and isinstance(test.op, ast.Not):
        return atoms(test.operand, not polarity)
    return [(test, polarity)]


def single_assignments(f: Func) -> Dict[str, ast.AST]:
    """Local names assigned exactly once in f (plain Assign with a Name target) -> value."""
    count: Dict[str, int] = {}
    val: Dict[str, ast.AST] = {}
    for n in f.own_nodes():
        if isinstance(n, ast.Assign):
            for t in n.targets:
                for nm in _names_in_target(t):
                    count[nm] = count.get(nm, 0) + 1
                if isinstance(t, ast.Name):
                    val[t.id] = n.value
        elif isinstance(n, (ast.AugAssign, ast.AnnAssign)):
            for nm in _names_in_target(n.target):
                count[nm] = count.get(nm, 0) + 2
        elif isinstance(n, (ast.For, ast.comprehension)):
            for nm in _names_in_target(n.target):
                count[nm] = count.get(nm, 0) + 2
        elif isinstance(n, ast.NamedExpr):
            count[n.target.id] = count.get(n.target.id, 0) + 2
    return {k: v for k, v in val.items() if count.get(k) == 1}


def _names_in_target(t: ast.AST) -> List[str]:
    return [n.id for n in ast.walk(t) if isinstance(n, ast.Name)]


def subst(e: ast.AST, env: Dict[str, ast.AST], depth: int = 4) -> ast.AST:
    """Inline single-assignment locals into e (bounded depth), returning a new tree."""
    if depth == 0:
        return e

    class S(ast.NodeTransformer):
        def visit_Name(self, node):
            if isinstance(node.ctx, ast.Load) and node.id in env:
                return subst(env[node.id], env, depth - 1)
            return node

    fresh = ast.parse(ast.unparse(e), mode="eval").body
    return S().visit(fresh)


def mentions(e: ast.AST, *needles: str) -> bool:
    s = norm(e)
    return all(n in s for n in needles)


def calls_in(node: ast.AST) -> Iterator[ast.Call]:
    for n in walk_no_nested(node):
        if isinstance(n, ast.Call):
            yield n


def is_clock_call(e: ast.AST) -> bool:
    return isinstance(e, ast.Call) and norm(e.func) in (
        "time.monotonic",
        "time.perf_counter",
        "time.time",
        "time.monotonic_ns",
        "monotonic",
        "perf_counter",
    )


DEADLINE_ATTRS: set = set()  # attributes proved to hold start_time + time_limit (filled by derived_deadline_attrs)


def derived_deadline_attrs(tree, cls) -> set:
    """Attributes D of the interpreter class with an assignment `self.D = self.start_time + self.time_limit`
    (either order): a cached absolute deadline.  Whether D is kept in step with start_time is a rule of its own
    (C01-R9)."""
    out = set()
    for m in cls.all_methods:
        for n in m.own_nodes():
            if isinstance(n, ast.Assign) and isinstance(n.value, ast.BinOp) and isinstance(n.value.op, ast.Add):
                a, b = norm(n.value.left), norm(n.value.right)
                if {a, b} == {"self.start_time", "self.time_limit"}:
                    for t in n.targets:
                        if isinstance(t, ast.Attribute) and norm(t.value) == "self":
                            out.add(t.attr)
    DEADLINE_ATTRS.clear()
    DEADLINE_ATTRS.update(out)
    return out


def elapsed_compare(e: ast.AST, start_attr: str = "start_time", limit_attr: str = "time_limit") -> bool:
    """e is `clock() - X.start_time > X.time_limit` (or >=), the deadline form
    `clock() > X.start_time + X.time_limit`, or `clock() > X.D` for a derived deadline attribute D; a conjunction
    `X.D is not None and <such a comparison>` counts too."""
    if isinstance(e, ast.BoolOp) and isinstance(e.op, ast.And):
        rest = [v for v in e.values if not (isinstance(v, ast.Compare) and isinstance(v.ops[0], ast.IsNot) and isinstance(v.left, ast.Attribute) and v.left.attr in DEADLINE_ATTRS | {limit_attr})]
        return len(rest) == 1 and elapsed_compare(rest[0], start_attr, limit_attr)
    if not (isinstance(e, ast.Compare) and len(e.ops) == 1 and isinstance(e.ops[0], (ast.Gt, ast.GtE))):
        return False
    l, r = e.left, e.comparators[0]
    if is_clock_call(l) and isinstance(r, ast.Attribute) and r.attr in DEADLINE_ATTRS:
        return True

    def is_attr(x, attr):
        return isinstance(x, ast.Attribute) and x.attr == attr

    if isinstance(l, ast.BinOp) and isinstance(l.op, ast.Sub) and is_clock_call(l.left) and is_attr(l.right, start_attr) and is_attr(r, limit_attr):
        return True
    if is_clock_call(l) and isinstance(r, ast.BinOp) and isinstance(r.op, ast.Add):
        a, b = r.left, r.right
        if (is_attr(a, start_attr) and is_attr(b, limit_attr)) or (is_attr(b, start_attr) and is_attr(a, limit_attr)):
            return True
    return False


def try_handlers_enclosing(node: ast.AST, stop: ast.AST) -> List[Tuple[ast.Try, bool]]:
    """Try statements enclosing node up to stop; bool = node is inside the try *body*."""
    out = []
    child = node
    p = getattr(node, "_parent", None)
    while p is not None and p is not stop:
        if isinstance(p, ast.Try):
            in_body = any(child is s for s in p.body)
            out.append((p, in_body))
        child = p
        p = getattr(p, "_parent", None)
    return out


def bind_args(call: ast.Call, target: Func) -> Dict[str, ast.AST]:
    """Map parameter names of target (skipping self) to the argument expressions of call."""
    a = target.node.args
    params = [x.arg for x in a.posonlyargs + a.args]
    if params and params[0] in ("self", "cls"):
        params = params[1:]
    out: Dict[str, ast.AST] = {}
    for i, arg in enumerate(call.args):
        if isinstance(arg, ast.Starred):
            break
        if i < len(params):
            out[params[i]] = arg
    for kw in call.keywords:
        if kw.arg is not None:
            out[kw.arg] = kw.value
    return out


def raises_in(stmts: List[ast.stmt], cls_name: str) -> List[ast.Raise]:
    out = []
    for s in stmts:
        for n in walk_no_nested(s):
            if isinstance(n, ast.Raise) and n.exc is not None and cls_name in norm(n.exc):
                out.append(n)
    return out


def fresh_factories(ctx, cls) -> set:
    """ids of functions that hand out a newly constructed instance of `cls` on every return
    (`vm = VM(..); ...; return vm`): calling one is as good as calling the constructor."""
    from .core import call_name

    cache = getattr(ctx, "_fresh_factories", None)
    if cache is None:
        cache = ctx._fresh_factories = {}
    if id(cls) in cache:
        return cache[id(cls)]
    out = set()
    for g in ctx.tree.funcs:
        if isinstance(g.node, ast.Lambda):
            continue
        rets = [n for n in g.own_nodes() if isinstance(n, ast.Return)]
        if not rets:
            continue
        ok = True
        for r in rets:
            v = r.value
            if isinstance(v, ast.Call) and ctx.cg._class_visible(call_name(v) or "", g) is cls:
                continue
            if isinstance(v, ast.Name):
                defs = [n.value for n in g.own_nodes() if isinstance(n, ast.Assign) and any(isinstance(t, ast.Name) and t.id == v.id for t in n.targets)]
                if defs and all(isinstance(d, ast.Call) and ctx.cg._class_visible(call_name(d) or "", g) is cls for d in defs) and v.id not in g.params():
                    continue
            ok = False
            break
        if ok:
            out.add(id(g))
    cache[id(cls)] = out
    return out


def is_fresh_instance(ctx, e: ast.AST, f: Func, cls) -> bool:
    """e evaluates to an instance of `cls` constructed in f (directly, through a local, or through a factory):
    nothing else can hold a reference to it, and its per-instance state is the initial one."""
    from .core import call_name

    if isinstance(e, ast.Call):
        if ctx.cg._class_visible(call_name(e) or "", f) is cls:
            return True
        cs = ctx.cg.site_of_call.get(id(e))
        fac = fresh_factories(ctx, cls)
        return bool(cs and cs.targets and all(id(t) in fac for t in cs.targets))
    if isinstance(e, ast.Name) and e.id not in f.params():
        defs = [n.value for n in f.own_nodes() if isinstance(n, ast.Assign) and any(isinstance(t, ast.Name) and t.id == e.id for t in n.targets)]
        return bool(defs) and all(is_fresh_instance(ctx, d, f, cls) for d in defs)
    return False


def state_protocol(ctx, f: Func) -> Tuple[Set[str], Set[str], Set[str]]:
    """(saved, reset, restored) attributes of `self` in function compiler f, taken over f's own statements and those
    of the helpers it calls to switch per-function state (methods of the same class that assign attributes of self
    and emit nothing: a `_begin_function` / `_end_function` pair).
      saved:    self.A is read into a local, a tuple, or an argument/keyword of a record constructor
      restored: self.A = <a saved local, or a field of a record that is not self>
      reset:    any other assignment to self.A (a fresh value, a parameter, a call)"""
    scope = [f]
    for cs_ in ctx.cg.sites_of.get(id(f), []):
        for g in cs_.targets if cs_.kind == "resolved" else []:
            if g.cls is f.cls and not g.name.startswith("_compile") and g not in scope and not isinstance(g.node, ast.Lambda) and any(isinstance(a, ast.Assign) and any(isinstance(t_, ast.Attribute) and norm(t_.value) == "self" for t_ in a.targets) for a in g.own_nodes()) and not any(isinstance(c_, ast.Call) and norm(c_.func) in ("self._emit", "self._emit_jump") for c_ in g.own_nodes()):
                scope.append(g)
    saved: Set[str] = set()
    reset: Set[str] = set()
    restored: Set[str] = set()
    saved_locals: Set[str] = set()
    for g in scope:
        for x in g.own_nodes():
            if isinstance(x, ast.Attribute) and norm(x.value) == "self" and isinstance(x.ctx, ast.Load):
                par = getattr(x, "_parent", None)
                if isinstance(par, ast.Assign) and par.value is x and all(isinstance(t_, ast.Name) for t_ in par.targets):
                    saved.add(x.attr)
                    saved_locals.update(t_.id for t_ in par.targets)
                elif isinstance(par, ast.keyword) or (isinstance(par, ast.Tuple) and isinstance(getattr(par, "_parent", None), ast.Assign) and par._parent.value is par) or (isinstance(par, ast.Call) and x in par.args and isinstance(par.func, ast.Name) and par.func.id.lstrip("_")[:1].isupper()):
                    saved.add(x.attr)
    for g in scope:
        for x in g.own_nodes():
            if not isinstance(x, ast.Assign):
                continue
            for t_ in x.targets:
                tl = list(t_.elts) if isinstance(t_, ast.Tuple) else [t_]
                vl = list(x.value.elts) if isinstance(t_, ast.Tuple) and isinstance(x.value, ast.Tuple) and len(x.value.elts) == len(tl) else [x.value] * len(tl)
                for tt, vv in zip(tl, vl):
                    if not (isinstance(tt, ast.Attribute) and norm(tt.value) == "self"):
                        continue
                    from_saved = (isinstance(vv, ast.Name) and vv.id in saved_locals) or (isinstance(vv, ast.Attribute) and isinstance(vv.value, ast.Name) and vv.value.id != "self") or (isinstance(vv, ast.Subscript) and isinstance(vv.value, ast.Name) and vv.value.id != "self")
                    if from_saved:
                        restored.add(tt.attr)
                    else:
                        reset.add(tt.attr)
    return saved, reset, restored
