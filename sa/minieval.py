"""A tiny evaluator for the break/continue target-resolution code of the compiler, run over a
finite set of concrete context configurations (abstract interpretation with a finite domain:
no repository code is executed; the AST of the branch is interpreted by this module)."""

from __future__ import annotations

import ast
from typing import Any, Dict, List

from .core import norm, opcode_member


class Unsupported(Exception):
    pass


class Aborted(Exception):
    """The simulated branch raised (e.g. label not found)."""


class _Break(Exception):
    pass


class _Continue(Exception):
    pass


class _Return(Exception):
    def __init__(self, value=None):
        self.value = value


class Obj:
    def __init__(self, **kw):
        self.__dict__.update(kw)


class Sim:
    def __init__(self, env: Dict[str, Any], methods: Dict[str, ast.FunctionDef] = None, classes: Dict[str, ast.ClassDef] = None, shared: "Sim" = None):
        """methods: name -> FunctionDef for `self.<name>(...)` and `<obj>.<name>(...)` calls that are interpreted;
        classes: name -> ClassDef of dataclasses that may be constructed."""
        self.env = dict(env)
        self.methods = methods or {}
        self.classes = classes or {}
        root = shared or self
        self.root = root
        if shared is None:
            self.pops = 0
            self.finally_calls: List[Any] = []
            self.steps = 0
            self.events: List[Any] = []  # ("emit", OP) / ("stmt", node-object, [contexts on self.loop_stack])

    def _py_eq(self, a: Any, b: Any, depth: int = 0) -> bool:
        """Host equality of two simulated values: identity, or - for instances of a @dataclass of the repository (eq is
        generated unless eq=False) - equality of every declared field."""
        if a is b:
            return True
        if depth > 4:
            return False
        if isinstance(a, Obj) and isinstance(b, Obj):
            ca, cb = getattr(a, "_cls", None), getattr(b, "_cls", None)
            if ca is None or ca != cb or ca not in self.classes:
                return False
            cd = self.classes[ca]
            decos = [norm(d) for d in cd.decorator_list]
            if not any(d.split("(")[0].endswith("dataclass") for d in decos) or any("eq=False" in d.replace(" ", "") for d in decos):
                return False
            fields = [st.target.id for st in cd.body if isinstance(st, ast.AnnAssign) and isinstance(st.target, ast.Name)]
            return all(self._py_eq(getattr(a, f, None), getattr(b, f, None), depth + 1) for f in fields)
        if isinstance(a, (list, tuple)) and isinstance(b, (list, tuple)):
            return len(a) == len(b) and all(self._py_eq(x, y, depth + 1) for x, y in zip(a, b))
        if isinstance(a, Obj) or isinstance(b, Obj):
            return False
        try:
            return a == b
        except Exception:
            return False

    def _construct(self, cname: str, e: ast.Call) -> "Obj":
        cd = self.classes[cname]
        o = Obj(_cls=cname)
        for st in cd.body:
            if isinstance(st, ast.AnnAssign) and isinstance(st.target, ast.Name):
                v = st.value
                if v is None:
                    continue
                if isinstance(v, ast.Call) and norm(v.func) == "field":
                    kw = {k.arg: k.value for k in v.keywords}
                    df = norm(kw.get("default_factory")) if "default_factory" in kw else None
                    setattr(o, st.target.id, [] if df == "list" else ({} if df == "dict" else None))
                else:
                    setattr(o, st.target.id, self.ev(v))
        for k in e.keywords:
            setattr(o, k.arg, self.ev(k.value))
        if e.args:
            raise Unsupported("positional constructor arguments")
        return o

    def _invoke(self, fd: ast.FunctionDef, self_obj: Any, e: ast.Call) -> Any:
        params = [a.arg for a in fd.args.args]
        defaults = fd.args.defaults
        env: Dict[str, Any] = {"None": None, "True": True, "False": False}
        vals = [self.ev(a) for a in e.args]
        names = params[1:] if params and params[0] == "self" else params
        if params and params[0] == "self":
            env["self"] = self_obj
        for i, nm in enumerate(names):
            if i < len(vals):
                env[nm] = vals[i]
        for k in e.keywords:
            env[k.arg] = self.ev(k.value)
        for nm, d in zip(reversed(names), reversed(defaults)):
            if nm not in env:
                env[nm] = self.ev(d)
        for nm in names:
            if nm not in env:
                raise Unsupported(f"missing argument {nm}")
        sub = Sim(env, self.methods, self.classes, shared=self.root)
        body = [x for x in fd.body if not (isinstance(x, ast.Expr) and isinstance(x.value, ast.Constant))]
        try:
            sub.run(body)
        except _Return as r:
            return r.value
        return None

    # ------------------------------------------------------------ expressions
    def ev(self, e: ast.AST) -> Any:
        self.root.steps += 1
        if self.root.steps > 20000:
            raise Unsupported("too many steps")
        if isinstance(e, ast.Constant):
            return e.value
        if isinstance(e, ast.Name):
            if e.id in self.env:
                return self.env[e.id]
            raise Unsupported(f"name {e.id}")
        if isinstance(e, ast.Attribute):
            m = opcode_member(e)
            if m:
                return ("OP", m)
            base = self.ev(e.value)
            if isinstance(base, Obj) and hasattr(base, e.attr):
                return getattr(base, e.attr)
            if isinstance(base, Obj):
                raise Unsupported(f"attribute {e.attr}")
            raise Unsupported(f"attribute {norm(e)}")
        if isinstance(e, ast.BoolOp):
            if isinstance(e.op, ast.And):
                v = True
                for x in e.values:
                    v = self.ev(x)
                    if not v:
                        return v
                return v
            v = False
            for x in e.values:
                v = self.ev(x)
                if v:
                    return v
            return v
        if isinstance(e, ast.UnaryOp):
            v = self.ev(e.operand)
            if isinstance(e.op, ast.Not):
                return not v
            if isinstance(e.op, ast.USub):
                return -v
            raise Unsupported("unary")
        if isinstance(e, ast.IfExp):
            return self.ev(e.body) if self.ev(e.test) else self.ev(e.orelse)
        if isinstance(e, ast.Compare):
            left = self.ev(e.left)
            for op, c in zip(e.ops, e.comparators):
                r = self.ev(c)
                ok = {
                    ast.Eq: lambda a, b: a == b, ast.NotEq: lambda a, b: a != b, ast.Is: lambda a, b: a is b, ast.IsNot: lambda a, b: a is not b,
                    ast.Lt: lambda a, b: a < b, ast.LtE: lambda a, b: a <= b, ast.Gt: lambda a, b: a > b, ast.GtE: lambda a, b: a >= b,
                    ast.In: lambda a, b: a in b, ast.NotIn: lambda a, b: a not in b,
                }.get(type(op))
                if ok is None:
                    raise Unsupported("compare op")
                if not ok(left, r):
                    return False
                left = r
            return True
        if isinstance(e, ast.BinOp):
            a, b = self.ev(e.left), self.ev(e.right)
            if isinstance(e.op, ast.Add):
                return a + b
            if isinstance(e.op, ast.Sub):
                return a - b
            raise Unsupported("binop")
        if isinstance(e, ast.Subscript):
            base = self.ev(e.value)
            if isinstance(e.slice, ast.Slice):
                lo = self.ev(e.slice.lower) if e.slice.lower else None
                hi = self.ev(e.slice.upper) if e.slice.upper else None
                return base[lo:hi]
            return base[self.ev(e.slice)]
        if isinstance(e, ast.Call):
            fn = norm(e.func)
            if fn == "isinstance" and len(e.args) == 2:
                v = self.ev(e.args[0])
                names = [norm(x) for x in (e.args[1].elts if isinstance(e.args[1], ast.Tuple) else [e.args[1]])]
                if isinstance(v, Obj):
                    return getattr(v, "_cls", None) in names
                if v is None:
                    return False
                raise Unsupported(f"isinstance of {type(v).__name__}")
            if fn == "reversed":
                return list(reversed(self.ev(e.args[0])))
            if fn == "len":
                return len(self.ev(e.args[0]))
            if fn in ("list", "tuple") and len(e.args) <= 1 and not e.keywords:
                v = list(self.ev(e.args[0])) if e.args else []
                return v if fn == "list" else tuple(v)
            if fn in ("min", "max", "sum") and e.args and not e.keywords:
                vals = [self.ev(a) for a in e.args]
                return {"min": min, "max": max, "sum": sum}[fn](vals[0] if len(vals) == 1 else vals)
            if isinstance(e.func, ast.Attribute) and e.func.attr in ("copy",) and not e.args and isinstance(self.ev(e.func.value), list):
                return list(self.ev(e.func.value))
            if isinstance(e.func, ast.Attribute) and e.func.attr in ("pop",) and isinstance(self.ev(e.func.value), list):
                base = self.ev(e.func.value)
                return base.pop(*[self.ev(a) for a in e.args])
            if isinstance(e.func, ast.Attribute) and e.func.attr in ("extend",) and e.args and isinstance(self.ev(e.func.value), list):
                self.ev(e.func.value).extend(self.ev(e.args[0]))
                return None
            if fn == "next" and e.args:
                seq = list(self.ev(e.args[0]))
                if seq:
                    return seq[0]
                if len(e.args) > 1:
                    return self.ev(e.args[1])
                raise Aborted("StopIteration")
            if fn == "range":
                return list(range(*[self.ev(a) for a in e.args]))
            if fn in ("enumerate",):
                return list(enumerate(self.ev(e.args[0])))
            if fn == "self._emit":
                op = self.ev(e.args[0])
                if op == ("OP", "POP"):
                    self.root.pops += 1
                if isinstance(op, tuple) and op[0] == "OP":
                    self.root.events.append(("emit", op[1]))
                return 0
            if fn == "self._emit_jump":
                op = self.ev(e.args[0]) if e.args else None
                if isinstance(op, tuple) and op[0] == "OP":
                    self.root.events.append(("emit", op[1]))
                return 0
            if fn == "self._emit_pending_finally_blocks":
                self.root.finally_calls.append([self.ev(a) for a in e.args])
                return None
            if fn in ("self._compile_statement", "self._compile_expression"):
                what = self.ev(e.args[0]) if e.args else None
                me = self.env.get("self")
                snap = list(getattr(me, "loop_stack", [])) if me is not None else []
                self.root.events.append(("stmt" if fn.endswith("statement") else "expr", what, snap))
                return None
            if isinstance(e.func, ast.Name) and e.func.id in self.classes:
                return self._construct(e.func.id, e)
            if isinstance(e.func, ast.Attribute) and e.func.attr in self.methods and not fn.startswith("self._emit_jump"):
                recv = self.ev(e.func.value)
                if isinstance(recv, Obj):
                    return self._invoke(self.methods[e.func.attr], recv, e)
            if isinstance(e.func, ast.Attribute) and e.func.attr == "append" and e.args:
                base = self.ev(e.func.value)
                if isinstance(base, list):
                    base.append(self.ev(e.args[0]))
                return None
            if isinstance(e.func, ast.Attribute) and e.func.attr == "index" and len(e.args) == 1:
                base = self.ev(e.func.value)
                if isinstance(base, (list, tuple)):
                    # list.index compares with ==, and a dataclass compares field by field: two contexts with equal
                    # fields ARE equal for the host, whatever the author meant
                    needle = self.ev(e.args[0])
                    for i_, el in enumerate(base):
                        if self._py_eq(el, needle):
                            return i_
                    raise Aborted("ValueError: not in list")
            if fn in ("self._syntax_error", "SyntaxError", "JSSyntaxError"):
                return Exception("syntax error")
            raise Unsupported(f"call {fn}")
        if isinstance(e, ast.JoinedStr):
            return "<str>"
        if isinstance(e, ast.Tuple):
            return tuple(self.ev(x) for x in e.elts)
        if isinstance(e, ast.List):
            return [self.ev(x) for x in e.elts]
        if isinstance(e, (ast.ListComp, ast.GeneratorExp)):
            return self._comprehension(e.elt, e.generators)
        raise Unsupported(type(e).__name__)

    def _comprehension(self, elt: ast.AST, gens: List[ast.comprehension]) -> List[Any]:
        """A list or generator comprehension, evaluated eagerly (the simulated code has no side effects in them)."""
        out: List[Any] = []
        saved = dict(self.env)

        def rec(i: int) -> None:
            if i == len(gens):
                out.append(self.ev(elt))
                return
            g = gens[i]
            for v in list(self.ev(g.iter)):
                self._assign(g.target, v)
                if all(self.ev(c) for c in g.ifs):
                    rec(i + 1)

        try:
            rec(0)
        finally:
            for k in list(self.env):
                if k not in saved:
                    del self.env[k]
            self.env.update(saved)
        return out

    # ------------------------------------------------------------- statements
    def run(self, stmts: List[ast.stmt]) -> None:
        for s in stmts:
            self.stmt(s)

    def stmt(self, s: ast.stmt) -> None:
        if isinstance(s, ast.If):
            self.run(s.body if self.ev(s.test) else s.orelse)
        elif isinstance(s, ast.Assign):
            v = self.ev(s.value)
            for t in s.targets:
                self._assign(t, v)
        elif isinstance(s, ast.AugAssign):
            if not isinstance(s.target, ast.Name):
                raise Unsupported("augassign target")
            cur = self.env[s.target.id]
            v = self.ev(s.value)
            self.env[s.target.id] = cur + v if isinstance(s.op, ast.Add) else cur - v
        elif isinstance(s, ast.For):
            for item in self.ev(s.iter):
                self._assign(s.target, item)
                try:
                    self.run(s.body)
                except _Break:
                    break
                except _Continue:
                    continue
            else:
                self.run(s.orelse)
        elif isinstance(s, ast.Break):
            raise _Break()
        elif isinstance(s, ast.Continue):
            raise _Continue()
        elif isinstance(s, ast.Return):
            raise _Return(self.ev(s.value) if s.value is not None else None)
        elif isinstance(s, ast.Raise):
            raise Aborted()
        elif isinstance(s, ast.Expr):
            self.ev(s.value)
        elif isinstance(s, ast.Pass):
            pass
        elif isinstance(s, ast.Try):
            # no interpreted operation raises a catchable host exception: handlers never run; the finally block
            # runs on every way out (fall-through, break/continue/return, and the abort of a `raise`)
            try:
                self.run(s.body)
                self.run(s.orelse)
            finally:
                self.run(s.finalbody)
        else:
            raise Unsupported(type(s).__name__)

    def _assign(self, t: ast.AST, v: Any) -> None:
        if isinstance(t, ast.Name):
            self.env[t.id] = v
        elif isinstance(t, ast.Attribute):
            base = self.ev(t.value)
            if not isinstance(base, Obj):
                raise Unsupported("attribute assignment on a non-object")
            setattr(base, t.attr, v)
        elif isinstance(t, (ast.Tuple, ast.List)):
            for e, x in zip(t.elts, v):
                self._assign(e, x)
        else:
            raise Unsupported("assign target")
