"""Findings, obligations, known-findings matching, evidence and replay records."""

from __future__ import annotations

import json
import os
import time
from typing import Any, Dict, List, Optional

from .core import AnalysisError

VERIF = os.path.dirname(os.path.dirname(os.path.abspath(__file__)))
EVIDENCE_DIR = os.path.join(VERIF, "evidence")
KNOWN_FILE = os.path.join(VERIF, "known_findings.json")

ASSUMPTIONS = [
    "CPython's ast module parses the package exactly as the interpreter would",
    "callee resolution (sa/callgraph.py) covers the idioms the package uses; unresolved attribute calls are over-approximated by method name and counted in coverage.analysed",
    "functions exposed by the embedder through Context.set do not raise limit errors or re-enter the context",
    "CPython dicts iterate in insertion order; str/int hashing only affects set iteration order",
    "the host-raiser table (int/float/chr/round/math.* preconditions) was validated once against CPython 3.12",
]


class Finding:
    def __init__(self, prop: str, rule: str, key: str, msg: str, loc: str, detail: Optional[dict] = None):
        self.prop = prop
        self.rule = rule
        self.key = key
        self.msg = msg
        self.loc = loc
        self.detail = detail or {}

    def ident(self) -> str:
        return f"{self.rule}|{self.key}"

    def to_json(self) -> dict:
        return {
            "property": self.prop,
            "rule": self.rule,
            "key": self.key,
            "message": self.msg,
            "location": self.loc,
            "detail": self.detail,
        }


class Report:
    def __init__(self, prop: str, tier: str, seed: int = 0):
        self.prop = prop
        self.tier = tier
        self.seed = seed
        self.t0 = time.time()
        self.rules: Dict[str, dict] = {}
        self.findings: List[Finding] = []
        self.samples: List[Any] = []
        self.analysed: Dict[str, Any] = {}
        self.notes: List[str] = []
        self.undecided: List[str] = []

    # ------------------------------------------------------------------ rules
    def rule(self, rid: str, text: str, floor: int = 1) -> None:
        self.rules[rid] = {"text": text, "instances": 0, "discharged": 0, "floor": floor, "keys": set()}

    def _r(self, rid: str) -> dict:
        if rid not in self.rules:
            raise AnalysisError(f"rule {rid} used before being declared")
        return self.rules[rid]

    def ok(self, rid: str, key: str, sample: Any = None) -> None:
        """One obligation examined and discharged."""
        r = self._r(rid)
        r["instances"] += 1
        r["discharged"] += 1
        r["keys"].add(key)
        if os.environ.get("VERIF_DEBUG"):
            print(f"  ok   {rid} {key} {sample if sample is not None else ''}")
        if sample is not None and len([s for s in self.samples if s.get("rule") == rid]) < 2:
            self.samples.append({"rule": rid, "instance": key, "verdict": "holds", "evidence": sample})

    def bad(self, rid: str, key: str, msg: str, loc: str, detail: Optional[dict] = None) -> None:
        """One obligation examined and NOT discharged."""
        r = self._r(rid)
        r["instances"] += 1
        r["keys"].add(key)
        if os.environ.get("VERIF_DEBUG"):
            print(f"  BAD  {rid} {key} {loc} {msg}")
        # de-duplicate identical keys (e.g. same normalised expression twice in one function)
        n = sum(1 for f in self.findings if f.rule == rid and (f.key == key or f.key.startswith(key + "#")))
        if n:
            key = f"{key}#{n + 1}"
        self.findings.append(Finding(self.prop, rid, key, msg, loc, detail))

    def note(self, text: str) -> None:
        self.notes.append(text)

    # ----------------------------------------------------------------- finish
    def finish(self) -> int:
        # instance floors: a rule that matched fewer sites than confirmed by hand is broken
        for rid, r in self.rules.items():
            if r["instances"] < r["floor"]:
                raise AnalysisError(
                    f"rule {rid} examined {r['instances']} instance(s), below its floor {r['floor']} — anchors vanished?"
                )
        known = load_known()
        kmap = {}
        for e in known:
            if e.get("status") == "fixed":
                continue
            if e.get("property") == self.prop:
                kmap[f"{e['rule']}|{e['key']}"] = e
        violations: List[Finding] = []
        known_hits: List[Finding] = []
        for f in self.findings:
            if f.ident() in kmap:
                known_hits.append(f)
            else:
                violations.append(f)
        os.makedirs(os.path.join(EVIDENCE_DIR, "violations"), exist_ok=True)
        # clear old replay records of this property
        vdir = os.path.join(EVIDENCE_DIR, "violations")
        for fn in os.listdir(vdir):
            if fn.startswith(self.prop + "-"):
                try:
                    os.remove(os.path.join(vdir, fn))
                except OSError:
                    pass
        for f in known_hits:
            e = kmap[f.ident()]
            print(f"KNOWN-FINDING: property={self.prop} {f.rule} {f.key} — {e.get('what', f.msg)} [{f.loc}]")
        for i, f in enumerate(violations, 1):
            path = os.path.join(vdir, f"{self.prop}-{i}.json")
            with open(path, "w") as fh:
                json.dump(f.to_json(), fh, indent=1)
            print(f"{f.rule} {f.loc}: {f.msg}")
            print(f"VIOLATION property={self.prop} replay={path}")
        obligations = sum(r["instances"] for r in self.rules.values())
        discharged = sum(r["discharged"] for r in self.rules.values())
        distinct = sum(len(r["keys"]) for r in self.rules.values())
        expl = "; ".join(f"{rid}: {r['text']} [{r['discharged']}/{r['instances']}]" for rid, r in self.rules.items())
        stale = [k for k in kmap if k not in {f.ident() for f in self.findings}]
        ev = {
            "property_id": self.prop,
            "tier": self.tier,
            "seed": self.seed,
            "level": "other",
            "coverage": {
                "explanation": "Static rules decided from the ast of /repo/src/microjs on this run (nothing executed). "
                + expl,
                "obligations": obligations,
                "discharged": discharged + len(known_hits),
                "evaluations": max(obligations, 1),
                "distinct_nontrivial": distinct,
                "rule": "one evaluation = one (rule, construct) obligation found by anchor discovery in the current tree; distinct = distinct construct keys",
                "samples": self.samples[:12] or [{"note": "no sample recorded"}],
                "rules": {
                    rid: {"text": r["text"], "instances": r["instances"], "discharged": r["discharged"], "floor": r["floor"]}
                    for rid, r in self.rules.items()
                },
                "known_findings_reported": [f.ident() for f in known_hits],
                "known_findings_not_reproduced": stale,
                "violations": [f.to_json() for f in violations],
                "analysed": self.analysed,
                "not_decided": self.undecided,
                "notes": self.notes,
                "exhaustive": True,
            },
            "assumptions": ASSUMPTIONS,
            "wall_s": round(time.time() - self.t0, 3),
            "violations": len(violations),
        }
        os.makedirs(EVIDENCE_DIR, exist_ok=True)
        with open(os.path.join(EVIDENCE_DIR, f"{self.prop}.json"), "w") as fh:
            json.dump(ev, fh, indent=1, sort_keys=False, default=str)
        print(
            f"{self.prop} [{self.tier}] rules={len(self.rules)} obligations={obligations} discharged={discharged} "
            f"known={len(known_hits)} violations={len(violations)} wall={ev['wall_s']}s"
        )
        return 1 if violations else 0


def load_known() -> List[dict]:
    if not os.path.exists(KNOWN_FILE):
        return []
    with open(KNOWN_FILE) as fh:
        data = json.load(fh)
    return data.get("findings", [])
