"""E1 CFG: statement-level control-flow graph for one Python function body.

Nodes are simple statements and the heads (test / iterator expressions) of compound
statements.  Exceptional edges: every statement lexically inside a `try` body has an
edge to each of its handlers (and to `finally`), conservatively.
"""

from __future__ import annotations

import ast
from typing import Callable, Dict, Iterable, List, Optional, Set, Tuple

from .core import AnalysisError, walk_no_nested


class Node:
    __slots__ = ("id", "kind", "ast", "stmt", "label")

    def __init__(self, id: int, kind: str, astnode: Optional[ast.AST], stmt: Optional[ast.stmt], label: str = ""):
        self.id = id
        self.kind = kind  # entry | exit | raise | stmt | test | iter | handler | join
        self.ast = astnode  # the expression/statement evaluated at this node
        self.stmt = stmt  # owning statement
        self.label = label

    @property
    def line(self) -> int:
        n = self.ast if self.ast is not None else self.stmt
        return getattr(n, "lineno", 0)

    def __repr__(self):
        return f"<N{self.id} {self.kind} L{self.line} {self.label}>"


class _Ctx:
    def __init__(self):
        self.loops: List[Tuple[Node, List[Node]]] = []  # (continue target, break sources)
        self.tries: List[dict] = []  # {'handlers':[Node], 'finally': Node|None}


class CFG:
    def __init__(self, body: List[ast.stmt]):
        self.nodes: List[Node] = []
        self.succ: Dict[int, Set[int]] = {}
        self.pred: Dict[int, Set[int]] = {}
        self.entry = self._new("entry", None, None)
        self.exit = self._new("exit", None, None)
        self.raise_exit = self._new("raise", None, None)
        self.node_of_stmt: Dict[int, Node] = {}  # id(stmt) -> first node of stmt
        self.loop_head: Dict[int, Node] = {}  # id(loop stmt) -> head node
        self.loop_nodes: Dict[int, Set[int]] = {}
        ctx = _Ctx()
        outs = self._seq(body, [self.entry], ctx)
        for o in outs:
            self._edge(o, self.exit)

    # ------------------------------------------------------------ construction
    def _new(self, kind, astnode, stmt, label="") -> Node:
        n = Node(len(self.nodes), kind, astnode, stmt, label)
        self.nodes.append(n)
        self.succ[n.id] = set()
        self.pred[n.id] = set()
        return n

    def _edge(self, a: Node, b: Node) -> None:
        self.succ[a.id].add(b.id)
        self.pred[b.id].add(a.id)

    @staticmethod
    def _may_raise(n: Node) -> bool:
        a = n.ast
        if a is None:
            return False
        for x in walk_no_nested(a):
            if isinstance(x, (ast.Call, ast.Subscript, ast.BinOp, ast.Raise, ast.Assert, ast.Delete, ast.Await, ast.Yield, ast.YieldFrom)):
                return True
        return False

    def _exc_edges(self, n: Node, ctx: _Ctx) -> None:
        """Node n may raise: connect to innermost try handlers / finally, or raise-exit."""
        if not self._may_raise(n):
            return
        if ctx.tries:
            t = ctx.tries[-1]
            if t.get("in_body"):
                for h in t["handlers"]:
                    self._edge(n, h)
                if t["finally"] is not None:
                    self._edge(n, t["finally"])
                elif not t["catch_all"]:
                    self._exc_outer(n, ctx, len(ctx.tries) - 1)
            else:
                # inside handler/else/finally of this try: goes to finally or outer
                if t["finally"] is not None and not t.get("in_finally"):
                    self._edge(n, t["finally"])
                else:
                    self._exc_outer(n, ctx, len(ctx.tries) - 1)
        else:
            self._edge(n, self.raise_exit)

    def _exc_outer(self, n: Node, ctx: _Ctx, idx: int) -> None:
        saved = ctx.tries
        ctx.tries = saved[:idx]
        try:
            self._exc_edges(n, ctx)
        finally:
            ctx.tries = saved

    def _seq(self, stmts: List[ast.stmt], preds: List[Node], ctx: _Ctx) -> List[Node]:
        for s in stmts:
            preds = self._stmt(s, preds, ctx)
        return preds

    def _link(self, preds: List[Node], n: Node) -> None:
        for p in preds:
            self._edge(p, n)

    def _through_finally(self, src: Node, ctx: _Ctx, target: Node, stop_at: int = 0) -> None:
        """Abrupt jump (return/break/continue) from src to target, passing through
        enclosing finally blocks (from innermost down to index stop_at)."""
        cur = src
        for t in reversed(ctx.tries[stop_at:]):
            if t["finally"] is not None and not t.get("in_finally"):
                self._edge(cur, t["finally"])
                t["finally_exits"].append(target)
                return  # continuation handled when finally is closed
        self._edge(cur, target)

    def _stmt(self, s: ast.stmt, preds: List[Node], ctx: _Ctx) -> List[Node]:
        if isinstance(s, ast.If):
            t = self._new("test", s.test, s)
            self.node_of_stmt[id(s)] = t
            self._link(preds, t)
            self._exc_edges(t, ctx)
            a = self._seq(s.body, [t], ctx)
            b = self._seq(s.orelse, [t], ctx) if s.orelse else [t]
            return a + b
        if isinstance(s, ast.While):
            t = self._new("test", s.test, s)
            self.node_of_stmt[id(s)] = t
            self.loop_head[id(s)] = t
            self._link(preds, t)
            self._exc_edges(t, ctx)
            breaks: List[Node] = []
            ctx.loops.append((t, breaks, len(ctx.tries)))
            first = len(self.nodes)
            outs = self._seq(s.body, [t], ctx)
            ctx.loops.pop()
            self._link(outs, t)
            self.loop_nodes[id(s)] = set(range(first, len(self.nodes))) | {t.id}
            infinite = isinstance(s.test, ast.Constant) and bool(s.test.value)
            after = [] if infinite else [t]
            if s.orelse:
                after = self._seq(s.orelse, after, ctx)
            return after + breaks
        if isinstance(s, (ast.For, ast.AsyncFor)):
            t = self._new("iter", s.iter, s)
            self.node_of_stmt[id(s)] = t
            self.loop_head[id(s)] = t
            self._link(preds, t)
            self._exc_edges(t, ctx)
            breaks = []
            ctx.loops.append((t, breaks, len(ctx.tries)))
            first = len(self.nodes)
            outs = self._seq(s.body, [t], ctx)
            ctx.loops.pop()
            self._link(outs, t)
            self.loop_nodes[id(s)] = set(range(first, len(self.nodes))) | {t.id}
            after = [t]
            if s.orelse:
                after = self._seq(s.orelse, after, ctx)
            return after + breaks
        if isinstance(s, ast.Try):
            return self._try(s, preds, ctx)
        if isinstance(s, (ast.With, ast.AsyncWith)):
            n = self._new("stmt", s.items[0].context_expr, s, "with")
            self.node_of_stmt[id(s)] = n
            self._link(preds, n)
            self._exc_edges(n, ctx)
            return self._seq(s.body, [n], ctx)
        if isinstance(s, (ast.FunctionDef, ast.AsyncFunctionDef, ast.ClassDef)):
            n = self._new("stmt", None, s, "def")
            self.node_of_stmt[id(s)] = n
            self._link(preds, n)
            return [n]
        if isinstance(s, ast.Match):
            raise AnalysisError("match statement not supported by CFG builder")
        # simple statements
        n = self._new("stmt", s, s)
        self.node_of_stmt[id(s)] = n
        self._link(preds, n)
        if isinstance(s, ast.Return):
            self._exc_edges(n, ctx)
            self._through_finally(n, ctx, self.exit)
            return []
        if isinstance(s, ast.Raise):
            self._exc_edges(n, ctx)
            return []
        if isinstance(s, ast.Break):
            if not ctx.loops:
                raise AnalysisError("break outside loop")
            _, breaks, depth = ctx.loops[-1]
            j = self._new("join", None, s, "break")
            self._through_finally(n, ctx, j, depth)
            breaks.append(j)
            return []
        if isinstance(s, ast.Continue):
            if not ctx.loops:
                raise AnalysisError("continue outside loop")
            head, _, depth = ctx.loops[-1]
            self._through_finally(n, ctx, head, depth)
            return []
        if not isinstance(s, (ast.Pass, ast.Global, ast.Nonlocal, ast.Import, ast.ImportFrom)):
            self._exc_edges(n, ctx)
        return [n]

    def _try(self, s: ast.Try, preds: List[Node], ctx: _Ctx) -> List[Node]:
        head = self._new("join", None, s, "try")
        self.node_of_stmt[id(s)] = head
        self._link(preds, head)
        handlers = [self._new("handler", h, s, "except " + (ast.unparse(h.type) if h.type else "*")) for h in s.handlers]
        fin = self._new("join", None, s, "finally") if s.finalbody else None
        catch_all = any(
            h.type is None or ast.unparse(h.type) in ("BaseException",) for h in s.handlers
        )
        t = {"handlers": handlers, "finally": fin, "catch_all": catch_all, "in_body": True, "finally_exits": []}
        ctx.tries.append(t)
        outs = self._seq(s.body, [head], ctx)
        t["in_body"] = False
        if s.orelse:
            outs = self._seq(s.orelse, outs, ctx)
        for hn, h in zip(handlers, s.handlers):
            outs = outs + self._seq(h.body, [hn], ctx)
        if fin is not None:
            t["in_finally"] = True
            self._link(outs, fin)
            fouts = self._seq(s.finalbody, [fin], ctx)
            ctx.tries.pop()
            # exceptional continuation: re-raise to outer
            for fo in fouts:
                self._exc_edges(fo, ctx)
                for target in t["finally_exits"]:
                    # continue the abrupt jump outward
                    self._through_finally(fo, ctx, target)
            return fouts
        ctx.tries.pop()
        return outs

    # ------------------------------------------------------------------ queries
    def reachable(self, src: Iterable[int], blocked: Set[int] = frozenset(), within: Optional[Set[int]] = None) -> Dict[int, Optional[int]]:
        """BFS from src (not expanding blocked nodes). Returns parent map."""
        par: Dict[int, Optional[int]] = {}
        q = []
        for s in src:
            if s in blocked:
                continue
            par[s] = None
            q.append(s)
        while q:
            n = q.pop(0)
            for m in self.succ[n]:
                if m in par or m in blocked:
                    continue
                if within is not None and m not in within:
                    continue
                par[m] = n
                q.append(m)
        return par

    def path_avoiding(self, src: int, dst_pred: Callable[[Node], bool], blocked: Set[int], within: Optional[Set[int]] = None, start_succ: bool = False) -> Optional[List[Node]]:
        """A path from src to a node satisfying dst_pred that avoids `blocked` nodes."""
        starts = list(self.succ[src]) if start_succ else [src]
        starts = [s for s in starts if within is None or s in within]
        par = self.reachable(starts, blocked, within)
        for nid in par:
            if dst_pred(self.nodes[nid]):
                path = []
                cur: Optional[int] = nid
                while cur is not None:
                    path.append(self.nodes[cur])
                    cur = par[cur]
                if start_succ:
                    path.append(self.nodes[src])
                return list(reversed(path))
        return None

    def nodes_where(self, pred: Callable[[Node], bool]) -> List[Node]:
        return [n for n in self.nodes if pred(n)]

    def dominators(self) -> Dict[int, Set[int]]:
        allids = set(range(len(self.nodes)))
        reach = set(self.reachable([self.entry.id]).keys())
        dom = {n: (set(reach) if n != self.entry.id else {n}) for n in reach}
        changed = True
        while changed:
            changed = False
            for n in sorted(reach):
                if n == self.entry.id:
                    continue
                ps = [dom[p] for p in self.pred[n] if p in reach]
                new = set.intersection(*ps) if ps else set()
                new = new | {n}
                if new != dom[n]:
                    dom[n] = new
                    changed = True
        return dom


def node_calls(node: Node, pred: Callable[[ast.Call], bool]) -> bool:
    """Does the code evaluated at this CFG node contain a call satisfying pred?"""
    a = node.ast
    if a is None:
        return False
    if node.kind == "handler":
        return False
    for n in walk_no_nested(a):
        if isinstance(n, ast.Call) and pred(n):
            return True
    return False


def path_str(path: List[Node]) -> str:
    return "→".join(str(n.line) for n in path if n.line)
