"""C05 — Compiled control flow and closures mean what the source says."""

from ..rules import compiler_rules, emitrules, hashorder


def run(ctx, rep):
    emitrules.report(
        ctx,
        rep,
        {"O1": "C05-R1", "O2": "C05-R1", "O3": "C05-R1", "O4": "C05-R1", "O10": "C05-R1b", "O11": "C05-R1c", "R2": "C05-R2", "O12b": "C05-R5", "O9": "C05-R7", "O5": "C05-R3", "O6": "C05-R3", "O13": "C05-R3b"},
        {
            "C05-R1": "operand depth is consistent at every join, back edge and exit of every compiler branch (statements net 0, expressions +1)",
            "C05-R1b": "the compiler never emits code after its own unconditional jump without an intervening label or patch (no compiler-made dead code)",
            "C05-R1c": "every jump placeholder is patched exactly once; every context's break/continue lists are patched by the branch that created it",
            "C05-R2": "continue lands before the update/test (or iterator advance), break after the loop, back edges before the test/body, for each loop kind",
            "C05-R3": "leaving a construct early (labelled break/continue, continue inside switch, return) discards the operands it holds, so enclosing expressions are undisturbed",
            "C05-R3b": "what each context on the compiler's context stack declares (operands held, handler record registered, finally block pending) is what the statement branch really set up whenever it compiles a nested statement, so that break/continue/return undo exactly that",
            "C05-R5": "per-function compiler state read by break/continue/return is saved, reset and restored by both function compilers",
            "C05-R7": "host re-entry loops return to their own caller (they notice unwinding below them and never run the caller's frames)",
        },
    )
    compiler_rules.rule_traversal_completeness(ctx, rep, "C05-R4")
    compiler_rules.rule_filtered_walks_complete(ctx, rep, "C05-R4b")
    compiler_rules.rule_lowering_exhaustive(ctx, rep, "C05-R6")
    compiler_rules.rule_variable_resolution(ctx, rep, "C05-R9")
    hashorder.rule_frame_positions(ctx, rep, "C05-R10")
    hashorder.rule_parallel_tables(ctx, rep, "C05-R11")
    compiler_rules.rule_memo_keys(ctx, rep, "C05-R12")
    compiler_rules.rule_function_declarations_first(ctx, rep, "C05-R13")
    compiler_rules.rule_var_without_initialiser_stores_nothing(ctx, rep, "C05-R14")
    compiler_rules.rule_declared_vars_registered_first(ctx, rep, "C05-R15")
    rep.undecided += [
        "equality of the observable log with ECMAScript's for all programs (needs a reference semantics and execution)",
        "correctness among equally deep jump targets beyond the placement rule C05-R2",
        "evaluation order of operands (C05-R8 not built)",
    ]
