"""C18 — Numbers print, parse and round (structural clauses only)."""

from ..rules import builtins, exceptions, operators, optargs, tables, textparse

FAMILIES = set("number".split(","))
PREFIXES = "_make_number_method|_number_to_base|js_round|_global_parse|_create_number_constructor|_create_math_object|_global_is".split("|")


_CANON = []


def _in_family(qual: str) -> bool:
    if _CANON:
        qual = _CANON[0](qual)
    return any(p in qual for p in PREFIXES)


def run(ctx, rep):
    _CANON[:] = [ctx.facts.canon_qual]
    tables.rule_method_tables(ctx, rep, "C18-R1", FAMILIES, floor=1)
    try:
        from ..rules import implicit
    except ImportError:
        implicit = None
    if implicit is not None:
        implicit.rule_implicit_raisers(ctx, rep, "C18-R2", only=_in_family)
    exceptions.rule_catchable_classes(ctx, rep, "C18-R3", only_pred=_in_family, floor=1)
    builtins.rule_number_text_pitfalls(ctx, rep, "C18-R4")
    textparse.rule_ascii_digit_scanners(ctx, rep, "C18-R5", modules=("context", "values"))
    builtins.rule_integral_double_printing(ctx, rep, "C18-R6")
    operators.rule_host_rounding_special_points(ctx, rep, "C18-R8")
    textparse.rule_script_whitespace(ctx, rep, "C18-R7", only=lambda q: _in_family(q) or q.startswith("values:to_number"))
    rep.undecided += ["the method result tables over the argument grid (values, not shape): a runtime differential, outside static analysis"]
    optargs.rule_missing_is_undefined(ctx, rep, "C18-R9", lambda f: _in_family(f.qual), "the Number methods, Number, parseInt, parseFloat and Math", floor=6)
    optargs.rule_argument_not_overridden(ctx, rep, "C18-R10", lambda f: _in_family(f.qual), "the number parsers and formatters", floor=2)
    operators.rule_log_poles(ctx, rep, "C18-R11")
    builtins.rule_signed_number_text(ctx, rep, "C18-R12")
    builtins.rule_same_function_two_names(ctx, rep, "C18-R13")
    builtins.rule_ulp_of_the_whole_number(ctx, rep, "C18-R15")
    builtins.rule_rounded_digits_exact(ctx, rep, "C18-R16")
    optargs.rule_argument_checked_first(ctx, rep, "C18-R17", ("_make_number_method",))
    operators.rule_fmod_parity(ctx, rep, "C18-R18")
    textparse.rule_case_mapped_lookup_is_ascii(ctx, rep, "C18-R19")
    textparse.rule_host_pattern_end_anchor(ctx, rep, "C18-R14", modules=("context", "values"), only=lambda q: _in_family(q) or q.startswith("values:to_number") or q.startswith("values:parse_float"))
