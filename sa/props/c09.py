"""C09 — Regular expressions match as ECMAScript backtracking specifies (structural clauses)."""

from ..rules import regexrules


def run(ctx, rep):
    regexrules.rule_sibling_interpreters(ctx, rep, "C09-R1")
    regexrules.rule_pipeline_exhaustive(ctx, rep, "C09-R2")
    regexrules.rule_class_predicates(ctx, rep, "C09-R3")
    regexrules.rule_snapshot_ownership(ctx, rep, "C09-R4")
    regexrules.rule_positions_nonnegative(ctx, rep, "C09-R5")
    regexrules.rule_numeric_catch_all(ctx, rep, "C09-R6")
    regexrules.rule_negated_handlers_fold_case_alike(ctx, rep, "C09-R7")
    regexrules.rule_line_terminators(ctx, rep, "C09-R8")
    regexrules.rule_quantifier_emitters(ctx, rep, "C09-R9")
    regexrules.rule_fresh_captures_per_attempt(ctx, rep, "C09-R10")
    rep.undecided += [
        "backtracking priorities, capture reset and empty-iteration semantics for all (pattern, subject) pairs (differential property)",
    ]
