"""C07 — Exceptions unwind to the right handler; finally runs exactly once."""

from ..rules import emitrules, exceptions


def run(ctx, rep):
    emitrules.report(
        ctx,
        rep,
        {"O7": "C07-R1", "O8": "C07-R2", "O9": "C07-R3", "O12a": "C07-R4b", "O12b": "C07-R4c", "O13": "C07-R1b"},
        {
            "C07-R1": "a throw restores the operand depth recorded by TRY_START (enclosing computations are undisturbed)",
            "C07-R1b": "what each context on the compiler's context stack declares (operands held, handler record registered, finally block pending) is what the statement branch really set up whenever it compiles a nested statement, so that break/continue/return undo exactly that",
            "C07-R2": "every way out of a protected region (break/continue/return) removes its handler record, so no later throw lands in a stale handler",
            "C07-R3": "nested run loops used by natives notice when a throw unwinds below them, and call/apply never run the caller's frames",
            "C07-R4b": "finally blocks inlined at break/continue are chosen by the jump's target (a try that encloses the loop is not run at the break)",
            "C07-R4c": "the context stack and pending labels are per function (a return in a nested function does not inline the enclosing function's finally)",
        },
    )
    exceptions.rule_handler_stack_mutations(ctx, rep, "C07-R2c")
    exceptions.rule_signal_not_swallowed(ctx, rep, "C07-R3c")
    exceptions.rule_finally_placement(ctx, rep, "C07-R4")
    exceptions.rule_catchable_classes(ctx, rep, "C07-R5")
    exceptions.rule_source_map_per_function(ctx, rep, "C07-R6")
    exceptions.rule_constructor_names(ctx, rep, "C07-R7")
    exceptions.rule_error_prototype_chain(ctx, rep, "C07-R8")
    exceptions.rule_uncaught_keeps_name(ctx, rep, "C07-R9")
    exceptions.rule_call_stack_not_cut_in_cleanup(ctx, rep, "C07-R10")
    exceptions.rule_nested_throw_keeps_value(ctx, rep, "C07-R11")
    from ..rules import operators

    operators.rule_arithmetic_conversion_agrees(ctx, rep, "C07-R12")
    exceptions.rule_location_of_the_executing_instruction(ctx, rep, "C07-R13")
    rep.undecided += [
        "the ordered log of catch/finally execution for all programs",
        "that reported line/column values are the right numbers",
    ]
