"""C12 — A context keeps its own state."""

from ..rules import recursion, isolation, pairing


def run(ctx, rep):
    isolation.rule_no_shared_state(ctx, rep, "C12-R1")
    isolation.rule_fresh_vm_pointer_cleared(ctx, rep, "C12-R3")
    isolation.rule_nested_globals(ctx, rep, "C12-R4")
    isolation.rule_no_stale_deadline(ctx, rep, "C12-R5")
    isolation.rule_no_vm_bound_values_on_objects(ctx, rep, "C12-R7")
    recursion.rule_persistent_path_balanced(ctx, rep, "C12-R8")
    isolation.rule_running_interpreter_handed_back(ctx, rep, "C12-R9")
    isolation.rule_reused_interpreter_reset(ctx, rep, "C12-R10")
    pairing.rule_contextmanager_cleanup(ctx, rep, "C12-R6", where=lambda f: f.module.name in ("context", "vm", "values"), what=" of the runtime")
    rep.undecided += ["agreement with the abstract per-context dictionary model over histories (runtime property)"]
