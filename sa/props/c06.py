"""C06 — Operators and conversions on primitives (structural clauses)."""

from ..rules import builtins, compiler_rules, operators, tables


def run(ctx, rep):
    tables.rule_operator_tables(ctx, rep, "C06-R1")
    compiler_rules.rule_operator_used(ctx, rep, "C06-R2")
    operators.rule_bool_is_not_a_number(ctx, rep, "C06-R4")
    operators.rule_strict_equality_excludes_bool(ctx, rep, "C06-R4b")
    operators.rule_postfix_result_is_number(ctx, rep, "C06-R9")
    compiler_rules.rule_constant_pool_identity(ctx, rep, "C06-R10")
    operators.rule_unordered_comparisons(ctx, rep, "C06-R6")
    operators.rule_host_operator_pitfalls(ctx, rep, "C06-R7")
    operators.rule_host_truthiness(ctx, rep, "C06-R8")
    operators.rule_int_results_normalised(ctx, rep, "C06-R5")
    operators.rule_nan_takes_no_arm(ctx, rep, "C06-R11")
    operators.rule_zero_sign_survives_int(ctx, rep, "C06-R12")
    builtins.rule_integral_double_printing(ctx, rep, "C06-R13")
    operators.rule_fmod_parity(ctx, rep, "C06-R14")
    rep.undecided += [
        "the operator/conversion value table (about 80 x 80 x 45 cells against a reference): a runtime differential, outside static analysis",
    ]
