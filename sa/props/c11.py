"""C11 — Values cross the Python/JavaScript boundary faithfully (structural clauses)."""

from ..rules import objmodel, recursion


def run(ctx, rep):
    objmodel.rule_fresh_containers(ctx, rep, "C11-R1")
    objmodel.rule_isinstance_order(ctx, rep, "C11-R3", ["context:Context._to_python", "context:Context._to_js"])
    objmodel.rule_argument_order(ctx, rep, "C11-R4")
    objmodel.rule_native_results_normalised(ctx, rep, "C11-R4b")
    recursion.rule_data_recursion_guarded(ctx, rep, "C11-R5", only={"context:Context._to_python", "context:Context._to_js"}, floor=2)
    recursion.rule_cycle_guard_is_path_scoped(ctx, rep, "C11-R5b", {"context:Context._to_python", "context:Context._to_js"})
    rep.undecided += ["get(set(v)) == v for all value shapes (round-trip equality is a runtime property)"]
