"""C11 — Values cross the Python/JavaScript boundary faithfully (structural clauses)."""

from ..rules import objmodel, pairing, recursion


def run(ctx, rep):
    objmodel.rule_fresh_containers(ctx, rep, "C11-R1")
    objmodel.rule_isinstance_order(ctx, rep, "C11-R3", ["context:Context._to_python", "context:Context._to_js"])
    objmodel.rule_argument_order(ctx, rep, "C11-R4")
    objmodel.rule_native_results_normalised(ctx, rep, "C11-R4b")
    recursion.rule_data_recursion_guarded(ctx, rep, "C11-R5", only={"context:Context._to_python", "context:Context._to_js"}, floor=2)
    recursion.rule_cycle_guard_is_path_scoped(ctx, rep, "C11-R5b", {"context:Context._to_python", "context:Context._to_js"})
    import ast as _ast

    used = set()
    for q in ("context:Context._to_python", "context:Context._to_js"):
        g = next((f for f in ctx.tree.funcs if f.qual == q), None)
        if g is not None:
            used |= set(getattr(g.node, "_inlined_cms", set()))  # context managers read as the statements they stand for
            for w in g.own_nodes():
                if isinstance(w, _ast.With):
                    for it in w.items:
                        if isinstance(it.context_expr, _ast.Call) and isinstance(it.context_expr.func, _ast.Attribute):
                            used.add(it.context_expr.func.attr)
    objmodel.rule_converters_convert_members(ctx, rep, "C11-R7")
    recursion.rule_guard_passed_along(ctx, rep, "C11-R5c", only_pred=lambda q: q in ("context:Context._to_python", "context:Context._to_js"))
    pairing.rule_contextmanager_cleanup(ctx, rep, "C11-R6", where=lambda f: f.name in used, what=" used by the boundary converters")
    recursion.rule_path_entries_released(ctx, rep, "C11-R8", lambda q: q in ("context:Context._to_python", "context:Context._to_js"))
    recursion.rule_persistent_path_balanced(ctx, rep, "C11-R9")
    objmodel.rule_converters_use_object_model(ctx, rep, "C11-R10")
    from ..rules import hashorder

    hashorder.rule_no_pick_from_set(ctx, rep, "C11-R11", only=lambda f: f.module.name == "context")
    rep.undecided += ["get(set(v)) == v for all value shapes (round-trip equality is a runtime property)"]
