"""C04 — eval fails only with the JSError family."""

from ..rules import frontend, builtins, encoding, exceptions, frontprogress, pairing, textparse


def run(ctx, rep):
    exceptions.rule_explicit_raises(ctx, rep, "C04-R1")
    encoding.rule_decoder_agreement(ctx, rep, "C04-R3")
    exceptions.rule_positioned_syntax_errors(ctx, rep, "C04-R4")
    try:
        from ..rules import implicit
    except ImportError:
        implicit = None
    if implicit is not None:
        implicit.rule_implicit_raisers(ctx, rep, "C04-R2")
        implicit.rule_ord_of_case_mapping(ctx, rep, "C04-R2c")
    frontprogress.rule_frontend_progress(ctx, rep, "C04-R5")
    builtins.rule_index_bound_survives_callback(ctx, rep, "C04-R6")
    pairing.rule_contextmanager_cleanup(ctx, rep, "C04-R8", where=lambda f: f.module.name in ("parser", "lexer", "regex.parser", "compiler"), what=" of the front end")
    pairing.rule_lookahead_restores(ctx, rep, "C04-R9")
    textparse.rule_ascii_digit_scanners(ctx, rep, "C04-R7", modules=("lexer", "regex.parser", "context", "vm", "values"), floor=3)
    frontend.rule_front_end_recursion_converted(ctx, rep, "C04-R10")
    implicit.rule_bounded_repetition(ctx, rep, "C04-R11")
    textparse.rule_decimal_text_length_bounded(ctx, rep, "C04-R12")
    textparse.rule_raw_number_subscripts(ctx, rep, "C04-R13")
    builtins.rule_live_container_iteration(ctx, rep, "C04-R14")
    builtins.rule_sort_on_a_copy(ctx, rep, "C04-R15")
    pairing.rule_undo_only_what_was_done(ctx, rep, "C04-R16")
    from ..rules import compiler_rules

    compiler_rules.rule_optional_children_tested(ctx, rep, "C04-R17")
    rep.undecided += [
        "that reported line/column are the right numbers (value property)",
        "RecursionError beyond the documented parser nesting limit",
    ]
