"""C19 — JSON.parse / JSON.stringify (structural clauses)."""

from ..rules import builtins, exceptions, recursion, operators, textparse


def run(ctx, rep):
    builtins.rule_json_codec(ctx, rep, "C19-R1")
    exceptions.rule_catchable_classes(ctx, rep, "C19-R2", only_pred=lambda q: "_create_json_object" in q, floor=1)
    _, _, conv = builtins._json_funcs(ctx)
    cluster = {"_create_json_object"} | ({conv.qual} if conv is not None else set())

    def in_json(q: str) -> bool:
        return any(c in q for c in cluster)

    recursion.rule_data_recursion_guarded(ctx, rep, "C19-R4", only=None, floor=1, only_pred=in_json)
    recursion.rule_guard_state_is_per_call(ctx, rep, "C19-R4b", cluster)
    recursion.rule_guard_passed_along(ctx, rep, "C19-R4c", only_pred=in_json)
    builtins.rule_json_omission(ctx, rep, "C19-R5")
    operators.rule_key_not_truth_tested(ctx, rep, "C19-R6", only=lambda q: "_create_json_object" in q or "_json" in q)
    operators.rule_json_integer_tokens(ctx, rep, "C19-R7")
    textparse.rule_host_pattern_end_anchor(ctx, rep, "C19-R8", modules=("context", "values"), only=lambda q: "_create_json_object" in q)
    from ..rules import objmodel as _om

    _om.rule_converters_use_object_model(ctx, rep, "C19-R9")
    textparse.rule_json_escape_table(ctx, rep, "C19-R10")
    rep.undecided += ["parse(stringify(v)) structurally equal to v for all values, canonical form of stringify(parse(t)) (round-trip properties)"]
