"""C17 — Array and typed-array methods (structural clauses only)."""

from ..rules import builtins, exceptions, optargs, tables, textparse

FAMILIES = set("array,typed_array".split(","))
PREFIXES = "_make_array_method|_make_typed_array_method|_create_array_constructor|_create_typed_array_constructor|_create_arraybuffer_constructor|JSArray|JSTypedArray|JSInt|JSUint|JSFloat".split("|")


_CANON = []


def _in_family(qual: str) -> bool:
    if _CANON:
        qual = _CANON[0](qual)
    return any(p in qual for p in PREFIXES)


def run(ctx, rep):
    _CANON[:] = [ctx.facts.canon_qual]
    tables.rule_method_tables(ctx, rep, "C17-R1", FAMILIES, floor=1)
    try:
        from ..rules import implicit
    except ImportError:
        implicit = None
    if implicit is not None:
        implicit.rule_implicit_raisers(ctx, rep, "C17-R2", only=_in_family)
    exceptions.rule_catchable_classes(ctx, rep, "C17-R3", only_pred=_in_family, floor=1)
    builtins.rule_deliberate_errors_not_swallowed(ctx, rep, "C17-R4")
    builtins.rule_buffer_aliasing(ctx, rep, "C17-R7")
    builtins.rule_no_stale_field_alias(ctx, rep, "C17-R8")
    builtins.rule_index_bound_survives_callback(ctx, rep, "C17-R9")
    builtins.rule_no_stale_local_alias(ctx, rep, "C17-R10")
    from ..rules import textparse

    textparse.rule_canonical_index_keys(ctx, rep, "C17-R11")
    textparse.rule_includes_same_value_zero(ctx, rep, "C17-R13")
    builtins.rule_typed_array_reads_through_buffer(ctx, rep, "C17-R14")
    builtins.rule_no_read_after_write_between_views(ctx, rep, "C17-R15")
    textparse.rule_negative_positions(ctx, rep, "C17-R12", only=lambda q: any(x in ctx.facts.canon_qual(q) for x in ("_make_array_method", "_make_typed_array_method", "_create_array_constructor")), floor=5)
    rep.undecided += ["the method result tables over the argument grid (values, not shape): a runtime differential, outside static analysis"]
    optargs.rule_missing_is_undefined(ctx, rep, "C17-R16", lambda f: _in_family(f.qual), "the Array, typed-array and ArrayBuffer methods and constructors", floor=6)
    builtins.rule_integral_double_printing(ctx, rep, "C17-R17")
    builtins.rule_array_elements_to_text(ctx, rep, "C17-R18")
    textparse.rule_backward_search_start(ctx, rep, "C17-R19")
    optargs.rule_integer_argument_consulted(ctx, rep, "C17-R20", lambda f: _in_family(f.qual), "the Array and typed-array methods", floor=3)
    builtins.rule_subarray_shares_memory(ctx, rep, "C17-R21")
    builtins.rule_whole_elements_in_buffer(ctx, rep, "C17-R22")
    optargs.rule_argument_count_cases(ctx, rep, "C17-R23")
    builtins.rule_live_container_iteration(ctx, rep, "C17-R24")
    builtins.rule_sort_on_a_copy(ctx, rep, "C17-R25")
    optargs.rule_iteration_callbacks(ctx, rep, "C17-R26")
    builtins.rule_typed_array_sources(ctx, rep, "C17-R27")
