"""C14 — Program size never changes meaning."""

from ..rules import frontend, encoding


def run(ctx, rep):
    encoding.rule_checked_encoding(ctx, rep, "C14-R1")
    encoding.rule_single_encoder(ctx, rep, "C14-R2")
    encoding.rule_decoder_agreement(ctx, rep, "C14-R3")
    frontend.rule_front_end_recursion_converted(ctx, rep, "C14-R4")
    rep.undecided += ["behaviour at sizes that exhaust host memory"]
