"""C14 — Program size never changes meaning."""

from ..rules import encoding


def run(ctx, rep):
    encoding.rule_checked_encoding(ctx, rep, "C14-R1")
    encoding.rule_single_encoder(ctx, rep, "C14-R2")
    encoding.rule_decoder_agreement(ctx, rep, "C14-R3")
    rep.undecided += ["behaviour at sizes that exhaust host memory"]
