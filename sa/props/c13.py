"""C13 — Parsing respects the grammar (structural clauses)."""

from ..rules import frontend, pairing, tables, textparse


def run(ctx, rep):
    frontend.rule_reference_targets(ctx, rep, "C13-R1")
    frontend.rule_delimiter_scans(ctx, rep, "C13-R2")
    tables.rule_precedence(ctx, rep, "C13-R3")
    frontend.rule_duplicated_paths(ctx, rep, "C13-R4")
    tables.rule_keyword_tables(ctx, rep, "C13-R5")
    textparse.rule_ascii_digit_scanners(ctx, rep, "C13-R6", modules=("lexer",))
    pairing.rule_lookahead_restores(ctx, rep, "C13-R7")
    pairing.rule_contextmanager_cleanup(ctx, rep, "C13-R8", where=lambda f: f.module.name in ("parser", "lexer"), what=" of the parser")
    pairing.rule_saved_state_restored(ctx, rep, "C13-R9")
    frontend.rule_delimiters_do_not_overlap(ctx, rep, "C13-R10")
    textparse.rule_host_parser_text_admitted(ctx, rep, "C13-R11", modules=("lexer", "parser"), floor=3)
    frontend.rule_bulk_paths_keep_token_grammar(ctx, rep, "C13-R12")
    frontend.rule_unary_before_exponent_rejected(ctx, rep, "C13-R13")
    frontend.rule_nested_array_element_continues(ctx, rep, "C13-R14")
    frontend.rule_decimal_point_needs_no_digits(ctx, rep, "C13-R15")
    frontend.rule_new_callee_is_member_expression(ctx, rep, "C13-R16")
    frontend.rule_literal_scanner_details(ctx, rep, "C13-R17")
    rep.undecided += [
        "layout independence and print/parse round trip over all token sequences (no printer exists in the repo; generative/differential property)",
        "alternative literal spellings denote the same value (value property)",
    ]
