"""C16 — String methods (structural clauses only)."""

from ..rules import builtins, exceptions, optargs, tables, textparse

FAMILIES = set("string".split(","))
PREFIXES = "_make_string_method|fromCharCode_fn|string_call".split("|")


_CANON = []


def _in_family(qual: str) -> bool:
    if _CANON:
        qual = _CANON[0](qual)
    return any(p in qual for p in PREFIXES)


def run(ctx, rep):
    _CANON[:] = [ctx.facts.canon_qual]
    tables.rule_method_tables(ctx, rep, "C16-R1", FAMILIES, floor=1)
    try:
        from ..rules import implicit
    except ImportError:
        implicit = None
    if implicit is not None:
        implicit.rule_implicit_raisers(ctx, rep, "C16-R2", only=_in_family)
    exceptions.rule_catchable_classes(ctx, rep, "C16-R3", only_pred=_in_family, floor=1)
    textparse.rule_negative_positions(ctx, rep, "C16-R4", only=_in_family, floor=3)
    textparse.rule_sibling_index_readers(ctx, rep, "C16-R5")
    textparse.rule_script_whitespace(ctx, rep, "C16-R6", only=_in_family)
    optargs.rule_missing_is_undefined(ctx, rep, "C16-R7", lambda f: _in_family(f.qual), "the String methods and constructor", floor=5)
    builtins.rule_template_single_pass(ctx, rep, "C16-R8")
    optargs.rule_integer_argument_consulted(ctx, rep, "C16-R9", lambda f: _in_family(f.qual), "the String methods", floor=3)
    textparse.rule_nan_position_means_end(ctx, rep, "C16-R10")
    textparse.rule_raw_number_subscripts(ctx, rep, "C16-R11", booleans=True)
    optargs.rule_argument_checked_first(ctx, rep, "C16-R12", ("_make_string_method",))
    optargs.rule_regexp_argument_refused(ctx, rep, "C16-R13")
    rep.undecided += ["the method result tables over the argument grid (values, not shape): a runtime differential, outside static analysis"]
