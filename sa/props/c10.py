"""C10 — The regex engine is total."""

from ..rules import frontprogress, implicit, limits, pairing, regexrules, textparse


def run(ctx, rep):
    regexrules.rule_regex_error_conversion(ctx, rep, "C10-R1", "C10-R1b")
    limits.rule_matcher_loop_poll(ctx, rep, "C10-R2a", budgets=True, rid_budget="C10-R2")
    regexrules.rule_bounded_compilation(ctx, rep, "C10-R3")
    regexrules.rule_zero_width_guard(ctx, rep, "C10-R4")
    frontprogress.rule_frontend_progress(ctx, rep, "C10-R5", modules=("regex.parser",), floor=12)
    implicit.rule_ord_of_case_mapping(ctx, rep, "C10-R6", modules=("regex",), floor=4)
    textparse.rule_ascii_digit_scanners(ctx, rep, "C10-R7", modules=("regex.parser",))
    regexrules.rule_positions_nonnegative(ctx, rep, "C10-R8")
    textparse.rule_host_parser_text_admitted(ctx, rep, "C10-R9", modules=("regex.parser",), floor=2)
    regexrules.rule_start_position_inside_subject(ctx, rep, "C10-R10")
    pairing.rule_saved_state_restored(ctx, rep, "C10-R11", modules=("regex.vm", "regex.regex"))
    rep.undecided += ["wall-clock time per match"]
