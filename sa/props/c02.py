"""C02 — Memory limit stops runaway stack growth, never stops bounded scripts."""

from ..rules import emitrules, limits, pairing, recursion


def run(ctx, rep):
    limits.rule_dispatch_loop_poll(ctx, rep, "C02-R1a", which="memory")
    limits.rule_memory_check_shape(ctx, rep, "C02-R1")
    recursion.rule_no_host_recursion_for_script_calls(ctx, rep, "C02-R2")
    recursion.rule_host_reentry_guarded(ctx, rep, "C02-R3")
    recursion.rule_data_recursion_guarded(ctx, rep, "C02-R3b", floor=4)
    recursion.rule_depth_budget_shared(ctx, rep, "C02-R3c")
    recursion.rule_host_wrappers_counted(ctx, rep, "C02-R3d")
    emitrules.report(
        ctx,
        rep,
        {"O1": "C02-R4", "O2": "C02-R4", "O3": "C02-R5", "O4": "C02-R5", "O5": "C02-R6", "O6": "C02-R6", "O7": "C02-R7", "O8": "C02-R8", "O11": "C02-R9", "O12b": "C02-R10", "O13": "C02-R11"},
        {
            "C02-R4": "every branch of the statement compiler is stack-neutral and every branch of the expression/value compilers nets +1 on every path (structural induction over the compiler's own source, opcode effects derived from the dispatcher)",
            "C02-R5": "every jump join, loop back edge and break/continue target is reached at one consistent operand depth",
            "C02-R6": "break/continue/return that cross a construct holding operands (iterator, switch discriminant) discard them",
            "C02-R7": "a throw restores the operand depth recorded when the try was entered",
            "C02-R8": "every way out of a try block (break/continue/return) removes its handler record",
            "C02-R9": "every jump placeholder is patched exactly once and every context's jump lists are patched by the branch that created it",
            "C02-R11": "what each context on the compiler's context stack declares (operands held, handler record registered, finally block pending) is what the statement branch really set up whenever it compiles a nested statement, so that break/continue/return undo exactly that",
            "C02-R10": "per-function compiler state (including flags that tell the VM what a function can leave behind) is saved, reset and restored by both function compilers",
        },
    )
    pairing.rule_undo_only_what_was_done(ctx, rep, "C02-R12")
    limits.rule_companion_counter_maintained(ctx, rep, "C02-R13")
    recursion.rule_native_to_native_counted(ctx, rep, "C02-R14")
    rep.undecided += [
        "heap growth (out of the property's scope)",
        "the numeric relation between memory_limit and the depth at which the error fires",
    ]
