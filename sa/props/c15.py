"""C15 — Evaluation is deterministic and independent of host hash randomisation."""

from ..rules import hashorder, isolation


def run(ctx, rep):
    hashorder.rule_hash_order(ctx, rep, "C15-R1")
    hashorder.rule_frame_positions(ctx, rep, "C15-R1b", only_if_hash_ordered=True)
    hashorder.rule_parallel_tables(ctx, rep, "C15-R1c", only_if_hash_ordered=True)
    hashorder.rule_no_slot_numbers_in_messages(ctx, rep, "C15-R1d")
    hashorder.rule_no_pick_from_set(ctx, rep, "C15-R1e")
    hashorder.rule_no_sequence_from_set(ctx, rep, "C15-R1f")
    isolation.rule_no_identity_in_messages(ctx, rep, "C15-R2")
    isolation.rule_clock_rng_allowlist(ctx, rep, "C15-R3")
    isolation.rule_no_shared_state(ctx, rep, "C15-R4")
    rep.undecided += []
