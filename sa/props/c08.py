"""C08 — Objects, prototypes, functions and this (structural clauses)."""

from ..rules import compiler_rules, emitrules, objmodel, optargs, textparse, operators


def run(ctx, rep):
    objmodel.rule_inherited_visibility(ctx, rep, "C08-R1")
    objmodel.rule_get_set_agreement(ctx, rep, "C08-R2")
    objmodel.rule_call_protocol(ctx, rep, "C08-R5")
    objmodel.rule_no_stale_link_caches(ctx, rep, "C08-R7")
    objmodel.rule_null_is_not_an_object(ctx, rep, "C08-R8")
    objmodel.rule_bind_composes(ctx, rep, "C08-R9")
    textparse.rule_canonical_index_keys(ctx, rep, "C08-R10")
    objmodel.rule_accessor_receiver(ctx, rep, "C08-R11")
    emitrules.report(ctx, rep, {"O9": "C08-R6"}, {"C08-R6": "call/apply/bind and callback re-entry return to their own caller (sound host re-entry)"})
    operators.rule_receiver_not_truth_tested(ctx, rep, "C08-R15")
    rep.undecided += [
        "agreement with a reference object model over histories of operations (runtime differential)",
    ]
    optargs.rule_missing_is_undefined(ctx, rep, "C08-R12", lambda f: any(p in f.qual for p in ("_create_object_constructor", "_make_object_method", "_make_function_method", "_create_function_constructor")), "Object, Object.prototype and Function.prototype", floor=3)
    objmodel.rule_data_accessor_exclusive(ctx, rep, "C08-R13")
    objmodel.rule_nearest_definition_decides(ctx, rep, "C08-R14")
    compiler_rules.rule_resolver_side_effects(ctx, rep, "C08-R16")
    compiler_rules.rule_computed_flag_consulted(ctx, rep, "C08-R17")
    objmodel.rule_arrow_this_is_lexical(ctx, rep, "C08-R18")
    objmodel.rule_delete_clears_every_table(ctx, rep, "C08-R19")
    objmodel.rule_constructor_result_objects_include_functions(ctx, rep, "C08-R20")
    objmodel.rule_own_questions_stay_on_the_receiver(ctx, rep, "C08-R21")
    objmodel.rule_delete_answers_gone(ctx, rep, "C08-R22")
    objmodel.rule_native_arrays_get_the_prototype(ctx, rep, "C08-R23")
    objmodel.rule_function_prototype_objects_are_ordinary(ctx, rep, "C08-R24")
    objmodel.rule_functions_have_a_chain(ctx, rep, "C08-R25")
