"""C01 — Time limit bounds every evaluation."""

from ..rules import frontend, limits, termination


def run(ctx, rep):
    limits.rule_dispatch_loop_poll(ctx, rep, "C01-R1")
    limits.rule_time_check_shape(ctx, rep, "C01-R2")
    limits.rule_matcher_loop_poll(ctx, rep, "C01-R3")
    limits.rule_regex_gets_callback(ctx, rep, "C01-R4")
    limits.rule_regex_timeout_translated(ctx, rep, "C01-R5")
    limits.rule_limit_errors_not_swallowed(ctx, rep, "C01-R6")
    limits.rule_one_deadline(ctx, rep, "C01-R7")
    limits.rule_deadline_coherent(ctx, rep, "C01-R9")
    termination.rule_native_loops_terminate(ctx, rep, "C01-R8")
    termination.rule_prototype_chains_acyclic(ctx, rep, "C01-R8b")
    frontend.rule_parse_polls_deadline(ctx, rep, "C01-R10")
    limits.rule_nested_interpreter_polls(ctx, rep, "C01-R11")
    from ..rules import isolation

    isolation.rule_running_interpreter_handed_back(ctx, rep, "C01-R12")
    rep.undecided += [
        "size of the overrun in seconds (runtime quantity)",
        "cost of a single native call on bounded operands (excluded by the property's scope)",
    ]
