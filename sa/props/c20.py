"""C20 — lastIndex protocol and regex-driven string methods (structural clauses)."""

from ..rules import builtins, limits, optargs, pairing, regexrules, termination


def run(ctx, rep):
    regexrules.rule_lastindex_sync(ctx, rep, "C20-R1")
    regexrules.rule_exec_test_agreement(ctx, rep, "C20-R2")
    limits.rule_regex_timeout_translated(ctx, rep, "C20-R3a")
    termination.rule_native_loops_terminate(ctx, rep, "C20-R3")
    regexrules.rule_lastindex_is_match_end(ctx, rep, "C20-R4")
    regexrules.rule_split_separator_discipline(ctx, rep, "C20-R5")
    regexrules.rule_start_position_inside_subject(ctx, rep, "C20-R9")
    regexrules.rule_scan_leaves_lastindex_zero(ctx, rep, "C20-R13")
    rep.undecided += [
        "the lastIndex state machine over histories of exec/test/assignment",
        "replacement-template expansion ($$, $&, $n ...) and split/match result values",
    ]
    optargs.rule_missing_is_undefined(ctx, rep, "C20-R6", lambda f: any(p in f.qual for p in ("_make_regexp_method", "_create_regexp_constructor", "_make_string_method.match", "_make_string_method.search", "_make_string_method.replace", "_make_string_method.split")), "the RegExp methods and constructor and the regex-driven String methods", floor=4)
    builtins.rule_template_single_pass(ctx, rep, "C20-R7")
    regexrules.rule_lastindex_conditions_agree(ctx, rep, "C20-R8")
    regexrules.rule_driver_not_bypassed(ctx, rep, "C20-R11")
    regexrules.rule_step_over_relative_to_match(ctx, rep, "C20-R12")
    pairing.rule_borrowed_slot_restored(ctx, rep, "C20-R10", lambda f: f.module.name in ("vm", "context", "values"), "the runtime")
