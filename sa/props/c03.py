"""C03 — Scripts can reach only JavaScript values, never host internals."""

from ..rules import objmodel


def run(ctx, rep):
    objmodel.rule_no_reflection(ctx, rep, "C03-R1")
    objmodel.rule_key_discipline(ctx, rep, "C03-R2")
    objmodel.rule_native_results_normalised(ctx, rep, "C03-R3")
    objmodel.rule_no_none_into_script_values(ctx, rep, "C03-R3b")
    objmodel.rule_prototype_values(ctx, rep, "C03-R4")
    objmodel.rule_host_callable_surface(ctx, rep, "C03-R5")
    objmodel.rule_internal_iterators(ctx, rep, "C03-R6")
    objmodel.rule_optional_groups_normalised(ctx, rep, "C03-R7")
    objmodel.rule_converters_convert_members(ctx, rep, "C03-R8")
    objmodel.rule_optional_attributes_mapped(ctx, rep, "C03-R9")
    objmodel.rule_embedder_values_stay_outside(ctx, rep, "C03-R10")
    objmodel.rule_one_spelling_of_nothing(ctx, rep, "C03-R11")
    rep.undecided += ["that every value computed by host arithmetic lies in the JavaScript value domain for all inputs (e.g. complex results of **): a value property"]
