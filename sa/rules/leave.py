"""Leaving enclosing constructs: what break, continue and return must undo (obligations O5, O6, O8, O12a).

The compiler keeps one stack of contexts (loops, switch, labels, try statements).  Each context DECLARES what a
jump out of it has to undo (`stack_items`, `handler_active`, `finalizer`); E3 (sa/emit.py, obligation O13) checks
that these declarations agree with what each statement branch really set up whenever it compiles a nested
statement.  This module checks the other half: that the code which resolves the target of break/continue and
walks the stack (the BreakStatement / ContinueStatement / ReturnStatement branches and the helper they call)
honours the declarations.  It does so by interpreting that code (sa/minieval.py: a finite-domain interpreter of
the compiler's own AST; nothing of the repository is executed) over every stack of up to three contexts built
from the context kinds the compiler constructs, and comparing the emitted sequence with the sequence the
declarations call for.
"""

from __future__ import annotations

import ast
import itertools
from typing import Any, Dict, List, Optional, Tuple

from ..core import AnalysisError, norm
from ..minieval import Aborted, Obj, Sim, Unsupported, _Return

LOOP_KINDS = {
    "WhileStatement": "while",
    "DoWhileStatement": "do-while",
    "ForStatement": "for",
    "ForInStatement": "for-in",
    "ForOfStatement": "for-of",
}


def context_kinds(ea) -> Dict[str, Dict[str, Any]]:
    """Kinds of context the statement compiler creates, with their declared attributes (from E3's CTX values)
    and, for try statements, one kind per region in which nested statements are compiled."""
    kinds: Dict[str, Dict[str, Any]] = {}
    for br in ea.run_chain("_compile_statement"):
        for e in br.ends:
            if e.raised:
                continue
            for c in e.ctxs:
                if c.is_try:
                    continue
                name = LOOP_KINDS.get(br.cls, "switch" if br.cls == "SwitchStatement" else ("label" if br.cls == "LabeledStatement" else br.cls))
                kinds[name] = dict(is_loop=c.is_loop, labelled=c.labelled, stack_items=c.stack_items, is_try=False, handler_active=False, finalizer=False, line=c.line, ctor=getattr(c, "ctor", None))
            # try regions: the declared state of the try context at every nested statement it encloses
            evs = e.events
            by_line = {c.line: c for c in e.ctxs}
            for c in e.ctxs:
                # the context under which the rethrowing copy of a finally block is compiled (exception on the stack)
                if c.is_try and not c.finalizer and c.stack_items:
                    kinds.setdefault("finally-rethrow", dict(is_loop=False, labelled=False, stack_items=c.stack_items, is_try=True, handler_active=False, finalizer=False, line=c.line))
            for i, ev in enumerate(evs):
                if ev[0] != "stmt":
                    continue
                region = {"node.block": "try-block", "node.handler.body": "catch-body"}.get(ev[1])
                if region is None or i == 0 or evs[i - 1][0] != "ctxs":
                    continue
                # the try context this statement is compiled under: the innermost one on the stack right now
                on_stack = [x for x in evs[i - 1][1] if x[3]]
                if not on_stack:
                    continue  # the region is compiled with no try context on the stack (catch body without finally)
                line, active, fin, _ = on_stack[-1]
                c = by_line.get(line)
                if c is None:
                    continue
                has_fin = bool(e.dec.get(c.finalizer)) if c.finalizer else False
                nm = f"{region}{'+finally' if has_fin else ''}"
                kinds.setdefault(nm, dict(is_loop=False, labelled=False, stack_items=c.stack_items, is_try=True, handler_active=bool(active), finalizer=has_fin, line=c.line))
    return kinds


def _methods_and_classes(ea) -> Tuple[Dict[str, ast.FunctionDef], Dict[str, ast.ClassDef]]:
    comp = ea.comp
    methods = {}
    for name, f in ea.methods.items():
        if name.startswith("_emit_") and name not in ("_emit_jump",) or name in ("_new_loop_context",):
            methods[name] = f.node
        elif not name.startswith(("_compile", "_emit", "_add_", "_get_", "_patch", "_set_loc", "_syntax_error", "__", "_find_", "_collect", "_is_")) and name not in ("compile",) and not isinstance(f.node, ast.Lambda):
            methods[name] = f.node
        elif name.startswith(("_find_", "_is_")) and not isinstance(f.node, ast.Lambda) and any(isinstance(x, ast.Attribute) and x.attr == "loop_stack" for x in ast.walk(f.node)):
            methods[name] = f.node  # target look-up helpers of the leave code
        elif name.startswith("_compile_") and not isinstance(f.node, ast.Lambda) and any(isinstance(x, ast.Call) and norm(x.func) == "isinstance" and len(x.args) == 2 and any(t in norm(x.args[1]) for t in ("BreakStatement", "ContinueStatement")) for x in ast.walk(f.node)) and name not in ("_compile_statement", "_compile_statement_for_value"):
            methods[name] = f.node  # a peephole that compiles a jump statement itself
    classes = {}
    for st in comp.module.tree.body:
        if isinstance(st, ast.ClassDef) and st.name.endswith("Context"):
            classes[st.name] = st
            for m in st.body:
                if isinstance(m, ast.FunctionDef):
                    methods[m.name] = m
    return methods, classes


def _mk(kinds, name: str, label: Optional[str], classes) -> Obj:
    k = kinds[name]
    if name == "label" and label is None:
        label = "ANON"  # a labelled statement always has its label
    o = Obj(_cls="LoopContext", kind=name, break_jumps=[], continue_jumps=[], label=(label if k["labelled"] else None), labels=[], is_loop=k["is_loop"],
            stack_items=k["stack_items"], is_try=k["is_try"], handler_active=k["handler_active"], finalizer=(Obj(kind="finally-of-" + name) if k["finalizer"] else None))
    # fields of the context class that the fixed model above does not know (a flag a refactoring added): taken from
    # the construction as the compiler writes it - the constructor, or the helper that builds the context - when its
    # arguments are constants; otherwise from the declared defaults
    for fld, val in _declared_fields(k.get("ctor"), classes).items():
        if not hasattr(o, fld):
            setattr(o, fld, val)
    return o


_FIELDS_CACHE: Dict[int, Dict[str, Any]] = {}
_METHODS_FOR_FIELDS: List[Dict[str, ast.FunctionDef]] = []


def _declared_fields(ctor: Optional[ast.Call], classes) -> Dict[str, Any]:
    key = id(ctor)
    if key in _FIELDS_CACHE:
        return _FIELDS_CACHE[key]
    out: Dict[str, Any] = {}
    cd = classes.get("LoopContext")
    methods = _METHODS_FOR_FIELDS[0] if _METHODS_FOR_FIELDS else {}
    built = None
    if ctor is not None and all(isinstance(a, ast.Constant) for a in ctor.args) and all(isinstance(kw.value, ast.Constant) for kw in ctor.keywords):
        sim = Sim({"self": Obj(_pending_labels=[], loop_stack=[]), "None": None, "True": True, "False": False}, methods, classes)
        try:
            built = sim.ev(ctor)
        except (Unsupported, Aborted, _Return, AttributeError, KeyError):
            built = None
    if isinstance(built, Obj):
        out = {k: v for k, v in built.__dict__.items() if not k.startswith("_")}
    elif cd is not None:
        sim = Sim({"None": None, "True": True, "False": False}, {}, classes)
        try:
            d = sim._construct("LoopContext", ast.Call(func=ast.Name(id="LoopContext", ctx=ast.Load()), args=[], keywords=[]))
            out = {k: v for k, v in d.__dict__.items() if not k.startswith("_")}
        except (Unsupported, Aborted):
            out = {}
    _FIELDS_CACHE[key] = out
    return out


def _expected(crossed_inner_first: List[Obj], drop_operands: bool) -> List[Tuple]:
    out: List[Tuple] = []
    for c in crossed_inner_first:
        if c.is_try:
            if c.handler_active:
                out.append(("emit", "TRY_END"))
            if c.finalizer is not None:
                out.append(("stmt", c.finalizer))
        if drop_operands:
            out.extend([("emit", "POP")] * c.stack_items)
    return out


def simulate(ea) -> List[Dict[str, Any]]:
    """Run every scenario; returns records with what was emitted and what the declarations call for."""
    kinds = context_kinds(ea)
    need = {"while", "for-in", "for-of", "switch", "label", "try-block"}
    if not need <= set(kinds):
        raise AnalysisError(f"context kinds not all recognised: have {sorted(kinds)}, need {sorted(need)}")
    methods, classes = _methods_and_classes(ea)
    _METHODS_FOR_FIELDS[:] = [methods]
    _FIELDS_CACHE.clear()
    f, chain, _ = ea.node_chain("_compile_statement")
    bodies = {}
    for classes_, body, line in chain:
        for c in classes_:
            bodies[c] = (body, line)
    records: List[Dict[str, Any]] = []
    crossables = sorted(kinds)
    targets_break = [k for k in kinds if not kinds[k]["is_try"]]
    loops = [k for k in kinds if kinds[k]["is_loop"]]

    def run(cls: str, stack: List[Obj], label: Optional[str], has_arg: bool = False) -> Dict[str, Any]:
        body, line = bodies[cls]
        node = Obj(label=(Obj(name=label) if label else None), loc=None, argument=(Obj(kind="argument") if has_arg else None))
        me = Obj(loop_stack=list(stack), _pending_labels=[])
        sim = Sim({"node": node, "self": me, "None": None, "True": True, "False": False}, methods, classes)
        rec: Dict[str, Any] = {"cls": cls, "line": line, "stack": stack, "label": label, "status": "ok"}
        try:
            sim.run(body)
        except _Return:
            pass  # the branch ends with an early `return`
        except Aborted:
            rec["status"] = "raised"
        except Unsupported as e:
            rec["status"] = f"unsupported: {e}"
        except Exception as e:  # an interpretation error is reported, never hidden
            rec["status"] = f"unsupported: {type(e).__name__}: {e}"
        rec["events"] = [ev for ev in sim.events if not (ev[0] == "emit" and ev[1] in ("JUMP", "RETURN", "RETURN_UNDEFINED"))]
        rec["tail"] = [ev[1] for ev in sim.events if ev[0] == "emit" and ev[1] in ("JUMP", "RETURN", "RETURN_UNDEFINED")]
        rec["selected"] = sim.env.get("ctx")
        rec["final_stack"] = list(me.loop_stack)
        return rec

    # break / continue: [outer-while?, target, crossed...]
    for what, cls in (("break", "BreakStatement"), ("continue", "ContinueStatement")):
        tkinds = targets_break if what == "break" else loops
        for tname in tkinds:
            for crossed in [()] + [(a,) for a in crossables] + [(a, b) for a in crossables for b in crossables if kinds[a]["is_try"] != kinds[b]["is_try"] or kinds[a]["stack_items"] != kinds[b]["stack_items"]]:
                for labelled in (False, True):
                    # language rule for the target of an unlabelled jump: innermost loop (continue) / loop or switch (break)
                    stack = [_mk(kinds, "while", "OUTER", classes), _mk(kinds, tname, "L" if labelled else None, classes)] + [_mk(kinds, c, "X%d" % i, classes) for i, c in enumerate(crossed)]
                    if not labelled:
                        def selectable(o):
                            return (o.is_loop if what == "continue" else (o.is_loop or (o.kind == "switch"))) and not o.is_try
                        want = next((o for o in reversed(stack) if selectable(o)), None)
                    else:
                        if not kinds[tname]["labelled"]:
                            continue
                        want = stack[1]
                    if want is None:
                        continue
                    rec = run(cls, stack, "L" if labelled else None)
                    rec.update(what=what, target_kind=tname, crossed=list(crossed), labelled=labelled, want=want)
                    i = stack.index(want)
                    rec["expected"] = _expected(list(reversed(stack[i + 1:])), True)
                    records.append(rec)
    # the same jumps with an enclosing construct that has EQUAL fields below the target (an unlabelled loop of the same
    # kind with no jump recorded yet) and a try with a finally in between: a search by value (list.index on a
    # dataclass) finds the outer one, and the jump then "leaves" a try it stays inside
    tb = next((k for k in kinds if k.startswith("try-block") and kinds[k]["finalizer"]), None)
    if tb is not None:
        for what, cls in (("break", "BreakStatement"), ("continue", "ContinueStatement")):
            for tname in loops:
                stack = [_mk(kinds, tname, None, classes), _mk(kinds, tb, "X0", classes), _mk(kinds, tname, None, classes)]
                want = stack[2]
                rec = run(cls, stack, None)
                rec.update(what=what, target_kind=tname, crossed=[], labelled=False, want=want, under=f"{tb} inside an equal {tname}")
                rec["expected"] = []
                records.append(rec)
    # a statement form that compiles `break` / `continue` itself (a peephole for `if (c) break;`): the same jump in
    # the same contexts has to leave the same things behind as the statement's own branch
    peephole = [nm for nm, fd in methods.items() if nm.startswith("_compile_") and nm in ea.methods]
    if peephole and "IfStatement" in bodies:
        for rec0 in [r for r in list(records) if r["what"] in ("break", "continue") and r["status"] == "ok"]:
            stack0 = rec0["stack"]
            # fresh copies of the contexts (the earlier run appended to their jump lists)
            stack = [_mk(kinds, c.kind, c.label, classes) for c in stack0]
            for new, old_ in zip(stack, stack0):
                new.label = old_.label
            cls_j = "BreakStatement" if rec0["what"] == "break" else "ContinueStatement"
            jump = Obj(_cls=cls_j, label=(Obj(name="L") if rec0["labelled"] else None), loc=None)
            node = Obj(_cls="IfStatement", test=Obj(kind="test"), consequent=jump, alternate=None, loc=None)
            body, line = bodies["IfStatement"]
            me = Obj(loop_stack=list(stack), _pending_labels=[])
            sim = Sim({"node": node, "self": me, "None": None, "True": True, "False": False}, methods, classes)
            status = "ok"
            try:
                sim.run(body)
            except _Return:
                pass  # the branch ends with an early `return`
            except Aborted:
                status = "raised"
            except Unsupported as e:
                status = f"unsupported: {e}"
            except Exception as e:
                status = f"unsupported: {type(e).__name__}: {e}"
            if any(ev[0] == "stmt" and ev[1] is jump for ev in sim.events):
                continue  # compiled through the statement's own branch: judged there
            if status == "raised":
                continue
            rec = {"cls": "IfStatement", "line": line, "stack": stack, "label": rec0["label"], "status": status}
            rec["events"] = [ev for ev in sim.events if not (ev[0] == "emit" and ev[1] in ("JUMP", "JUMP_IF_TRUE", "JUMP_IF_FALSE")) and not (ev[0] == "expr")]
            rec["tail"] = []
            sel = [c for c in stack if (c.break_jumps if rec0["what"] == "break" else c.continue_jumps)]
            rec["selected"] = sel[0] if sel else None
            rec["final_stack"] = list(me.loop_stack)
            i0 = stack0.index(rec0["want"])
            rec.update(what=rec0["what"], target_kind=rec0["target_kind"], crossed=rec0["crossed"], labelled=rec0["labelled"], want=stack[i0], guarded=True)
            rec["expected"] = _expected(list(reversed(stack[i0 + 1:])), True)
            if status == "ok" and rec["selected"] is None:
                continue  # nothing was attached: the peephole declined
            records.append(rec)
    # return: every context of the function is left; operands stay (RETURN discards them)
    for crossed in [()] + [(a,) for a in crossables] + [(a, b) for a in crossables for b in crossables if kinds[a]["is_try"] or kinds[b]["is_try"]]:
        for has_arg in (False, True):
            stack = [_mk(kinds, c, "X%d" % i, classes) for i, c in enumerate(crossed)]
            rec = run("ReturnStatement", stack, None, has_arg)
            rec.update(what="return", target_kind=None, crossed=list(crossed), labelled=False, want=None, has_arg=has_arg)
            rec["expected"] = _expected(list(reversed(stack)), False)
            records.append(rec)
    return records


def _describe(evs) -> str:
    out = []
    for ev in evs:
        if ev[0] == "emit":
            out.append(ev[1])
        elif ev[0] == "stmt":
            out.append(f"compile({getattr(ev[1], 'kind', '?')})")
        elif ev[0] == "expr":
            out.append("value")
    return "[" + ", ".join(out) + "]"


def check(rec) -> Dict[str, Optional[str]]:
    """Compare one scenario with its expectation, per concern: target, operands (POP), handlers (TRY_END),
    finalizers (which, in what order, compiled against which stack)."""
    res: Dict[str, Optional[str]] = {"target": None, "operands": None, "handlers": None, "finalizers": None}
    what = rec["what"]
    where = f"{'if (..) ' if rec.get('guarded') else ''}{what}{' L' if rec['labelled'] else ''} inside {' inside '.join(reversed(rec['crossed'])) or 'nothing else'}" + (f" inside {rec['target_kind']}" if rec["target_kind"] else "") + (f" (itself inside {rec['under']})" if rec.get("under") else "")
    if rec["status"].startswith("unsupported"):
        msg = f"{where}: the leave code uses a construct the analysis cannot interpret ({rec['status'][13:]})"
        return {k: msg for k in res}
    if rec["status"] == "raised":
        msg = f"{where}: the compiler rejects this legal jump"
        return {k: msg for k in res}
    if what != "return" and rec["selected"] is not rec["want"]:
        res["target"] = f"{where}: the jump is attached to the {getattr(rec['selected'], 'kind', 'no')} context instead of the {rec['want'].kind} one"
        return res
    got = [(ev[0], ev[1]) for ev in rec["events"] if ev[0] in ("emit", "stmt")]
    exp = rec["expected"]
    n = lambda seq, pred: sum(1 for x in seq if pred(x))
    gp, ep = n(got, lambda x: x == ("emit", "POP")), n(exp, lambda x: x == ("emit", "POP"))
    if gp != ep:
        res["operands"] = f"{where}: emits {gp} POP(s) but the crossed contexts hold {ep} operand(s): each execution {'leaks' if gp < ep else 'removes'} {abs(ep - gp)} operand(s)"
    gt, et = n(got, lambda x: x == ("emit", "TRY_END")), n(exp, lambda x: x == ("emit", "TRY_END"))
    if gt != et:
        res["handlers"] = f"{where}: emits {gt} TRY_END but crosses {et} active handler region(s): " + ("the handler record stays registered and a later throw lands in a stale catch" if gt < et else "a handler record of an enclosing try is removed")
    gf = [x[1] for x in got if x[0] == "stmt"]
    ef = [x[1] for x in exp if x[0] == "stmt"]
    if [id(x) for x in gf] != [id(x) for x in ef]:
        res["finalizers"] = f"{where}: runs the finally blocks {[getattr(x, 'kind', '?') for x in gf]} but has to run exactly {[getattr(x, 'kind', '?') for x in ef]} (those between the jump and its target, innermost first)"
    elif res["operands"] is None and res["handlers"] is None and got != exp:
        res["finalizers"] = f"{where}: emits {_describe(rec['events'])} but the order must be {_describe(exp)} (a handler record is dropped before its finally block runs; operands after)"
    # a finally block is compiled against the contexts outside its try statement
    for ev in rec["events"]:
        if ev[0] == "stmt" and isinstance(ev[1], Obj) and getattr(ev[1], "kind", "").startswith("finally-of-"):
            snap = ev[2]
            owner = next((c for c in rec["stack"] if c.finalizer is ev[1]), None)
            if owner is not None:
                i = rec["stack"].index(owner)
                outer = rec["stack"][:i]
                inner_real = [c for c in snap if c in rec["stack"][i:]]
                if inner_real:
                    res["finalizers"] = res["finalizers"] or f"{where}: the finally block is compiled while its own try (or a context inside it) is still on loop_stack: a break/return inside the finally block would run it again"
                extra = [c for c in snap if c not in rec["stack"]]
                pend = sum(getattr(c, "stack_items", 0) for c in extra)
                # return keeps the operands of the contexts it has already left (RETURN discards them with the frame):
                # they and the return value wait on the stack while the finally block runs
                want_pend = ((1 if rec.get("has_arg") else 0) + sum(c.stack_items for c in rec["stack"][i + 1:])) if what == "return" else 0
                if [c for c in snap if c in outer] != outer:
                    res["finalizers"] = res["finalizers"] or f"{where}: the finally block is compiled without the contexts that enclose its try on loop_stack"
                if pend != want_pend:
                    res["operands"] = res["operands"] or f"{where}: while the finally block is compiled {want_pend} operand(s) (return value, operands of the contexts already left) wait on the stack but the contexts declare {pend}: a break/continue inside the finally block leaves {'them behind' if pend < want_pend else 'too few operands'}"
    if rec["final_stack"] != rec["stack"] and [id(x) for x in rec["final_stack"]] != [id(x) for x in rec["stack"]]:
        res["finalizers"] = res["finalizers"] or f"{where}: loop_stack is not restored after the jump was compiled"
    return res


def continue_can_select_nonloop(ea) -> bool:
    """Does `continue L` accept a label L that names a statement which is not a loop (its continue list is then
    never patched)?  Interprets the ContinueStatement branch on [while, label L] and [label L]."""
    kinds = context_kinds(ea)
    methods, classes = _methods_and_classes(ea)
    f, chain, _ = ea.node_chain("_compile_statement")
    body = next((b for cl, b, ln in chain if "ContinueStatement" in cl), None)
    if body is None:
        raise AnalysisError("no ContinueStatement branch")
    for stack in ([_mk(kinds, "while", "OUTER", classes), _mk(kinds, "label", "L", classes)], [_mk(kinds, "label", "L", classes)]):
        node = Obj(label=Obj(name="L"), loc=None, argument=None)
        me = Obj(loop_stack=list(stack), _pending_labels=[])
        sim = Sim({"node": node, "self": me, "None": None, "True": True, "False": False}, methods, classes)
        try:
            sim.run(body)
        except Aborted:
            continue
        except Unsupported:
            return True
        sel = sim.env.get("ctx")
        if sel is not None and not getattr(sel, "is_loop", True):
            return True
    return False
