"""Rules about the time/memory limit machinery (C01, C02-R1)."""

from __future__ import annotations

import ast
from typing import Dict, List, Optional, Set, Tuple

from ..cfg import CFG, node_calls, path_str
from ..core import AnalysisError, Func, call_name, norm, short, walk_no_nested
from ..util import atoms, bind_args, elapsed_compare, guards_of, raises_in, single_assignments, subst, try_handlers_enclosing


def _resolves_to(ctx, call: ast.Call, fids: Set[int]) -> bool:
    cs = ctx.cg.site_of_call.get(id(call))
    return bool(cs and cs.kind in ("resolved",) and any(id(t) in fids for t in cs.targets))


def pollers(ctx, target: Func) -> Set[int]:
    """Functions every call of which executes `target` on all paths to their normal exit
    (target itself, plus wrappers that call it unconditionally)."""
    res = {id(target)}
    changed = True
    while changed:
        changed = False
        for f in ctx.tree.funcs:
            if id(f) in res or f.cls is not target.cls:
                continue
            cfg = ctx.facts.cfg(f)
            blocked = {n.id for n in cfg.nodes if node_calls(n, lambda c: _resolves_to(ctx, c, res))}
            if not blocked:
                continue
            if cfg.path_avoiding(cfg.entry.id, lambda n: n.id == cfg.exit.id, blocked) is None:
                res.add(id(f))
                changed = True
    return res


# ----------------------------------------------------------------------- C01-R1
def rule_dispatch_loop_poll(ctx, rep, rid: str, which: str = "time") -> None:
    rep.rule(rid, "every loop that drives the opcode dispatcher calls the limit check on every iteration path, before the dispatcher and before any continue", floor=2)
    lc = ctx.facts.limit_check() if which == "time" else ctx.facts.memory_check()
    poll = pollers(ctx, lc)
    disp = ctx.facts.dispatch_entry_ids()
    wrappers = {id(w) for w in ctx.facts.dispatch_wrappers()}
    for f, loop in ctx.facts.dispatch_loops():
        cfg = ctx.facts.cfg(f)
        head = cfg.loop_head[id(loop)]
        within = cfg.loop_nodes[id(loop)]
        blocked = {n.id for n in cfg.nodes if n.id in within and node_calls(n, lambda c: _resolves_to(ctx, c, poll))}
        key = f"{f.qual}:loop({short(loop.test if isinstance(loop, ast.While) else loop.iter, 60)})"
        is_disp = lambda n: node_calls(n, lambda c: _resolves_to(ctx, c, disp))
        p = cfg.path_avoiding(head.id, is_disp, blocked, within, start_succ=True)
        if p is not None:
            # not polled per instruction: is it polled at every safepoint instead?
            sp = _safepoint_discipline(ctx, poll)
            if sp[0]:
                rep.ok(rid, key, dict(sp[1], loop=f"{f.module.rel}:{loop.lineno}", discipline="safepoints: every backward jump the compiler can emit and every frame push passes the limit check; code between two safepoints is straight-line"))
                continue
            rep.bad(rid, key, f"loop in {f.qual}: path [{path_str(p)}] reaches the dispatcher without passing {lc.qual}, and the limit check is not made at every safepoint either: {sp[1]}", f"{f.module.rel}:{loop.lineno}", {"path_lines": [n.line for n in p]})
            continue
        p = cfg.path_avoiding(head.id, lambda n: n.id == head.id, blocked, within, start_succ=True)
        if p is not None:
            rep.bad(rid, key, f"loop in {f.qual}: an iteration path [{path_str(p)}] returns to the loop head without passing {lc.qual}", f"{f.module.rel}:{loop.lineno}", {"path_lines": [n.line for n in p]})
            continue
        rep.ok(rid, key, {"loop": f"{f.module.rel}:{loop.lineno}", "poll_nodes_lines": sorted(cfg.nodes[b].line for b in blocked), "limit_check": lc.qual})
    # the dispatcher may only be driven from loops (a direct call outside any loop would be unpolled recursion)
    for cs in ctx.cg.sites:
        if any(id(t) in disp for t in cs.targets) and cs.kind == "resolved":
            if id(cs.func) in wrappers:
                continue  # the wrapper's own callers are checked instead
            if not any(cs.func is f and _inside(cs.call, loop) for f, loop in ctx.facts.dispatch_loops()):
                rep.bad(rid, f"{cs.func.qual}:call-outside-loop", f"{cs.func.qual} calls the dispatcher outside a polled run loop", f"{cs.func.module.rel}:{cs.line}")


def _safepoint_discipline(ctx, poll: Set[int]):
    """(True, evidence) when the limit check is made (a) in the handler of every opcode the compiler can emit with a
    BACKWARD target, on the path that takes the jump, and (b) by every function that pushes a call frame (or that
    function runs under the host-depth budget).  Execution between two such points is straight-line code of one
    function, so it is bounded by the program's size.  (False, why) otherwise."""
    cached = getattr(ctx, "_safepoints", None)
    if cached is not None:
        return cached
    from .. import emit
    from .recursion import _has_depth_guard

    ea = emit.get(ctx)
    back: Set[str] = set()
    for chain in ("_compile_statement", "_compile_expression"):
        for br in ea.run_chain(chain):
            for e in br.ends:
                for ev in e.events:
                    if ev[0] == "backjump":
                        back |= set(str(ev[3]).split("/"))
    if not back:
        res = (False, "the compiler's backward jumps could not be determined")
        ctx._safepoints = res
        return res
    df, chain = ctx.facts.vm_dispatcher()
    backtests = ("arg<frame.ip", "arg<=frame.ip", "frame.ip>arg", "frame.ip>=arg")
    for op in sorted(back):
        body = chain.body_of(op)
        if body is None:
            res = (False, f"no handler for the backward-capable opcode {op}")
            ctx._safepoints = res
            return res
        holder = body[0]._parent
        writes = [a for s_ in body for a in ast.walk(s_) if isinstance(a, ast.Assign) and any(norm(t) == "frame.ip" for t in a.targets)]
        polls = [c for s_ in body for c in ast.walk(s_) if isinstance(c, ast.Call) and _resolves_to(ctx, c, poll)]
        ok = False
        for w in writes:
            wg = {(norm(t).replace(" ", ""), pol) for t, pol in guards_of(w, holder)}
            covered = False
            for c in polls:
                cg_ = {(norm(t).replace(" ", ""), pol) for t, pol in guards_of(c, holder)}
                extra = cg_ - wg
                if all(pol and t in backtests for t, pol in extra):
                    covered = True
            if not covered:
                res = (False, f"the compiler emits {op} with a backward target (a loop's closing jump), and its handler sets frame.ip (line {w.lineno}) on a path that does not make the limit check: a loop closed by {op} whose body calls no script function never reaches a safepoint")
                ctx._safepoints = res
                return res
            ok = True
        if not ok:
            res = (False, f"the handler of {op} does not write frame.ip: unrecognised jump handler")
            ctx._safepoints = res
            return res
    pushers = []
    for f in ctx.tree.funcs:
        if f.cls is not df.cls or isinstance(f.node, ast.Lambda):
            continue
        if any(isinstance(c, ast.Call) and norm(c.func) == "self.call_stack.append" for c in f.own_nodes()):
            pushers.append(f)
            if id(f) in poll:
                continue
            if _has_depth_guard(f, ctx):
                continue  # nested run loops are capped by the host-depth budget
            res = (False, f"{f.qual} pushes a call frame without making the limit check (and outside the host-depth budget): recursion through it passes no safepoint")
            ctx._safepoints = res
            return res
    if not pushers:
        res = (False, "no function pushing call frames found")
        ctx._safepoints = res
        return res
    res = (True, {"backward_capable_opcodes": sorted(back), "frame_pushers": [f.qual for f in pushers]})
    ctx._safepoints = res
    return res


def _inside(node, anc) -> bool:
    p = node
    while p is not None:
        if p is anc:
            return True
        p = getattr(p, "_parent", None)
    return False


# ----------------------------------------------------------------------- C01-R2
def _raise_guards(f: Func, r: ast.Raise):
    g = guards_of(r, f.node)
    out = []
    for test, pol in g:
        out.extend(atoms(test, pol))
    return out


def _predicate_call_is_elapsed(ctx, f: Func, e: ast.AST) -> bool:
    """`self.helper()` where the helper's every return is an elapsed/deadline comparison."""
    if not (isinstance(e, ast.Call) and isinstance(e.func, ast.Attribute) and norm(e.func.value) == "self" and not e.args):
        return False
    h = ctx.tree.find_method(f.cls, e.func.attr)
    if h is None:
        return False
    rets = [x.value for x in h.own_nodes() if isinstance(x, ast.Return) and x.value is not None]
    return bool(rets) and all(elapsed_compare(x) for x in rets)


def rule_deadline_coherent(ctx, rep, rid: str) -> None:
    """A cached absolute deadline (self.D = self.start_time + self.time_limit) is derived state: whoever writes
    start_time of an interpreter must refresh D of the same interpreter, or every comparison against D measures the
    wrong evaluation (or none: D stays None for an interpreter whose clock was inherited)."""
    from ..util import derived_deadline_attrs

    rep.rule(rid, "a cached deadline derived from start_time and time_limit is refreshed by every function that writes start_time of the same interpreter (or the interpreter keeps no cached deadline)", floor=1)
    lc = ctx.facts.limit_check()
    dattrs = derived_deadline_attrs(ctx.tree, lc.cls)
    if not dattrs:
        rep.ok(rid, "no-cached-deadline", {"note": "the time checks compute clock() - start_time > time_limit directly"})
        return
    computing = set()
    for m in lc.cls.all_methods:
        if any(isinstance(n, ast.Assign) and any(isinstance(t, ast.Attribute) and t.attr in dattrs and norm(t.value) == "self" for t in n.targets) for n in m.own_nodes()):
            computing.add(m.name)
    for f in ctx.tree.funcs:
        if f.module.name not in ("vm", "context"):
            continue
        for n in f.own_nodes():
            if not isinstance(n, ast.Assign):
                continue
            for t in n.targets:
                if isinstance(t, ast.Attribute) and t.attr == "start_time":
                    recv = norm(t.value)
                    key = f"{f.qual}:{recv}.start_time"
                    refreshed = False
                    for x in f.own_nodes():
                        if isinstance(x, ast.Assign) and any(isinstance(t2, ast.Attribute) and t2.attr in dattrs and norm(t2.value) == recv for t2 in x.targets):
                            refreshed = True
                        if isinstance(x, ast.Call) and isinstance(x.func, ast.Attribute) and norm(x.func.value) == recv and x.func.attr in computing and x.lineno >= n.lineno:
                            refreshed = True
                    if f.name in computing and recv == "self":
                        refreshed = True
                    if refreshed:
                        rep.ok(rid, key)
                    else:
                        rep.bad(rid, key, f"{f.qual} sets {recv}.start_time but not the cached deadline ({', '.join(sorted(dattrs))}) of the same interpreter: its time checks compare the clock with a stale or missing deadline, so the evaluation is not bounded by its time limit", f"{f.module.rel}:{n.lineno}")


def rule_time_check_shape(ctx, rep, rid: str) -> None:
    rep.rule(rid, "the limit check compares a clock reading minus start_time with time_limit and raises TimeLimitError, guarded only by 'limit configured' and 'every K-th instruction' (1<=K<=10000), outside any try", floor=1)
    lc = ctx.facts.limit_check()
    from ..util import derived_deadline_attrs

    dattrs = derived_deadline_attrs(ctx.tree, lc.cls)
    env = single_assignments(lc)
    rs = raises_in(lc.body(), "TimeLimitError")
    loc = lc.loc
    if not rs:
        raise AnalysisError("limit check lost its TimeLimitError raise")
    for r in rs:
        key = f"{lc.qual}:raise TimeLimitError"
        loc = f"{lc.module.rel}:{r.lineno}"
        if try_handlers_enclosing(r, lc.node):
            rep.bad(rid, key, "raise TimeLimitError is inside a try statement in the limit check", loc)
            continue
        probs = []
        have_elapsed = False
        counter_attr = None
        for a, pol in _raise_guards(lc, r):
            a2 = subst(a, env)
            txt = norm(a2)
            if pol and elapsed_compare(a2):
                have_elapsed = True
            elif pol and _predicate_call_is_elapsed(ctx, lc, a2):
                have_elapsed = True
            elif pol and txt in ("self.time_limit", "self.time_limit is not None") or (pol and txt in {f"self.{d} is not None" for d in dattrs}):
                pass
            elif pol and isinstance(a2, ast.Compare) and isinstance(a2.ops[0], ast.Eq) and isinstance(a2.left, ast.BinOp) and isinstance(a2.left.op, (ast.Mod, ast.BitAnd)):
                k = a2.left.right
                rhs = a2.comparators[0]
                if isinstance(a2.left.op, ast.BitAnd):
                    # `counter & (2**k - 1) == 0`: every 2**k-th value
                    if not (isinstance(k, ast.Constant) and isinstance(k.value, int) and 0 <= k.value < 16384 and (k.value + 1) & k.value == 0):
                        probs.append(f"poll mask {norm(k)} is not 2**k - 1 with 2**k <= 16384")
                elif not (isinstance(k, ast.Constant) and isinstance(k.value, int) and 1 <= k.value <= 10000):
                    probs.append(f"poll period {norm(k)} is not an integer literal in 1..10000")
                if not (isinstance(rhs, ast.Constant) and rhs.value == 0):
                    probs.append(f"poll phase test {txt} is not '== 0'")
                counter_attr = norm(a2.left.left)
            else:
                probs.append(f"unexpected guard on the time-limit raise: {'' if pol else 'not '}{txt}")
        if not have_elapsed:
            probs.append("no guard of the form clock() - self.start_time > self.time_limit")
        if counter_attr is not None:
            # the counter must be incremented by 1 unconditionally at the top level of the function
            inc = [s for s in lc.body() if isinstance(s, ast.AugAssign) and norm(s.target) == counter_attr and isinstance(s.op, ast.Add) and norm(s.value) == "1"]
            if not inc:
                # or inside the `limit configured` branch that also holds the raise: still once per call that can raise
                for s in lc.own_nodes():
                    if isinstance(s, ast.AugAssign) and norm(s.target) == counter_attr and isinstance(s.op, ast.Add) and norm(s.value) == "1":
                        blk_owner = getattr(s, "_parent", None)
                        gs = [norm(t_) for t_, pol_ in guards_of(s, lc.node) if pol_]
                        if isinstance(blk_owner, ast.If) and all(g_ in ("self.time_limit", "self.time_limit is not None") for g_ in gs) and any(x is r for x in ast.walk(blk_owner)):
                            inc = [s]
            if not inc:
                probs.append(f"{counter_attr} is not incremented unconditionally in {lc.name}")
            elif inc[0].lineno > r.lineno:
                probs.append(f"{counter_attr} is incremented after the time check")
            others = [n for n in lc.own_nodes() if isinstance(n, (ast.Assign, ast.AugAssign)) and any(norm(t) == counter_attr for t in (n.targets if isinstance(n, ast.Assign) else [n.target])) and n not in inc]
            if others:
                probs.append(f"{counter_attr} is also written at line {others[0].lineno}")
            # the `% K == 0` gate only sees every K-th value if the counter moves in unit steps everywhere
            cname = counter_attr.split(".")[-1]
            for g in ctx.tree.funcs:
                if g is lc or g.name == "__init__":
                    continue
                for n in g.own_nodes():
                    if isinstance(n, (ast.Assign, ast.AugAssign)):
                        tg = n.targets if isinstance(n, ast.Assign) else [n.target]
                        if any(isinstance(t, ast.Attribute) and t.attr == cname for t in tg):
                            unit = isinstance(n, ast.AugAssign) and isinstance(n.op, ast.Add) and norm(n.value) == "1"
                            reset = isinstance(n, ast.Assign) and isinstance(n.value, ast.Constant) and n.value.value == 0
                            if not (unit or reset):
                                probs.append(f"{g.qual} moves {cname} by `{short(n, 40)}` (line {n.lineno}): the clock is only read when the counter is an exact multiple of the period, and a step other than 1 can jump over every multiple, so the time limit is never checked again")
        if probs:
            rep.bad(rid, key, "; ".join(probs), loc, {"guards": [norm(a) for a, _ in _raise_guards(lc, r)]})
        else:
            rep.ok(rid, key, {"guards": [("" if p else "not ") + norm(a) for a, p in _raise_guards(lc, r)], "at": loc})
    # the check must not return early before the time test
    for n in lc.own_nodes():
        if isinstance(n, ast.Return) and n.lineno < max(r.lineno for r in rs):
            rep.bad(rid, f"{lc.qual}:early-return", "limit check returns before the time test", f"{lc.module.rel}:{n.lineno}")


# ----------------------------------------------------------------------- C02-R1
def _const_lower_bound(e: ast.AST) -> Optional[float]:
    """A lower bound of a non-negative cost expression: constants, sums, and products with len(..) (>= 0)."""
    if isinstance(e, ast.Constant) and isinstance(e.value, (int, float)) and not isinstance(e.value, bool):
        return float(e.value)
    if isinstance(e, ast.BinOp) and isinstance(e.op, ast.Add):
        a, b = _const_lower_bound(e.left), _const_lower_bound(e.right)
        return None if a is None or b is None else a + b
    if isinstance(e, ast.BinOp) and isinstance(e.op, ast.Mult):
        for x, y in ((e.left, e.right), (e.right, e.left)):
            if isinstance(x, ast.Call) and norm(x.func) == "len" and _const_lower_bound(y) is not None and _const_lower_bound(y) >= 0:
                return 0.0
        return None
    if isinstance(e, ast.Call) and norm(e.func) == "len":
        return 0.0
    return None


def companion_counters(ctx) -> Dict[str, Dict[str, Any]]:
    """Counters the interpreter keeps ALONGSIDE its call stack: an attribute that is increased in the statement next to
    a push of self.call_stack.  attribute text -> {'per_frame': lower bound of the increase, 'pushes': [...]}.  (Helper
    methods such as _push_frame are read as their statements by the loader.)"""
    got = ctx.__dict__.get("_companions")
    if got is not None:
        return got
    vmcls = ctx.facts.vm_dispatcher()[0].cls
    out: Dict[str, Dict[str, Any]] = {}
    for m in vmcls.all_methods:
        if isinstance(m.node, ast.Lambda):
            continue
        for st in m.own_nodes():
            if not (isinstance(st, ast.Expr) and isinstance(st.value, ast.Call) and norm(st.value.func) == "self.call_stack.append"):
                continue
            par = getattr(st, "_parent", None)
            for field in ("body", "orelse", "finalbody"):
                blk = getattr(par, field, None)
                if isinstance(blk, list) and any(q is st for q in blk):
                    i = [k for k, q in enumerate(blk) if q is st][0]
                    for nb in blk[max(0, i - 1): i + 2]:
                        if isinstance(nb, ast.AugAssign) and isinstance(nb.op, ast.Add) and norm(nb.target).startswith("self."):
                            v = nb.value
                            # the cost may come from a small pure method: read its return expression
                            if isinstance(v, ast.Call) and isinstance(v.func, ast.Attribute) and norm(v.func.value) == "self":
                                h = ctx.tree.find_method(vmcls, v.func.attr)
                                rets = [r.value for r in (h.own_nodes() if h is not None else []) if isinstance(r, ast.Return) and r.value is not None]
                                v = rets[0] if len(rets) == 1 else v
                            lb = _const_lower_bound(v)
                            d = out.setdefault(norm(nb.target), {"per_frame": lb, "pushes": []})
                            d["pushes"].append((m, st.lineno))
                            if lb is not None and (d["per_frame"] is None or lb < d["per_frame"]):
                                d["per_frame"] = lb
    ctx.__dict__["_companions"] = out
    return out


def _linear_len_terms(e: ast.AST, companions: Optional[Dict[str, Dict[str, Any]]] = None) -> Optional[Dict[str, float]]:
    """e as sum of len(X)*c terms -> {X: c}; None if not of that shape.  A counter kept alongside the call stack
    (increased by at least k at every push) counts as k per frame."""
    out: Dict[str, float] = {}

    def term(t) -> bool:
        if companions and norm(t) in companions and companions[norm(t)]["per_frame"] is not None:
            out["self.call_stack"] = out.get("self.call_stack", 0) + companions[norm(t)]["per_frame"]
            return True
        if isinstance(t, ast.BinOp) and isinstance(t.op, ast.Add):
            return term(t.left) and term(t.right)
        if isinstance(t, ast.BinOp) and isinstance(t.op, ast.Mult):
            a, b = t.left, t.right
            if isinstance(b, ast.Call):
                a, b = b, a
            if isinstance(a, ast.Call) and norm(a.func) == "len" and isinstance(b, ast.Constant) and isinstance(b.value, (int, float)):
                k = norm(a.args[0])
                out[k] = out.get(k, 0) + b.value
                return True
            return False
        if isinstance(t, ast.Call) and norm(t.func) == "len":
            k = norm(t.args[0])
            out[k] = out.get(k, 0) + 1
            return True
        if isinstance(t, ast.Constant) and isinstance(t.value, (int, float)) and t.value >= 0:
            return True
        return False

    return out if term(e) else None


def rule_memory_check_shape(ctx, rep, rid: str) -> None:
    rep.rule(rid, "the limit check compares a positive linear estimate of operand-stack and call-stack length (>=8 per slot, >=56 per frame) with memory_limit on every call and raises MemoryLimitError", floor=1)
    lc = ctx.facts.memory_check()
    env = single_assignments(lc)
    rs = raises_in(lc.body(), "MemoryLimitError")
    if not rs:
        rep.bad(rid, f"{lc.qual}:raise MemoryLimitError", "the limit check no longer raises MemoryLimitError", lc.loc)
        return
    for r in rs:
        key = f"{lc.qual}:raise MemoryLimitError"
        loc = f"{lc.module.rel}:{r.lineno}"
        probs = []
        if try_handlers_enclosing(r, lc.node):
            probs.append("raise is inside a try statement")
        have = False
        for a, pol in _raise_guards(lc, r):
            a2 = subst(a, env)
            txt = norm(a2)
            if pol and txt in ("self.memory_limit", "self.memory_limit is not None"):
                continue
            if pol and isinstance(a2, ast.Compare) and len(a2.ops) == 1 and isinstance(a2.ops[0], (ast.Gt, ast.GtE)) and norm(a2.comparators[0]) == "self.memory_limit":
                terms = _linear_len_terms(a2.left, companion_counters(ctx))
                if terms is None:
                    probs.append(f"usage estimate {norm(a2.left)} is not a positive linear combination of stack lengths")
                else:
                    have = True
                    if terms.get("self.stack", 0) < 8:
                        probs.append(f"operand stack weighted {terms.get('self.stack', 0)} per slot (< 8 bytes: under-counts real memory)")
                    if terms.get("self.call_stack", 0) < 56:
                        probs.append(f"call stack weighted {terms.get('self.call_stack', 0)} per frame (< 56 bytes: under-counts real memory)")
                continue
            probs.append(f"unexpected guard on the memory-limit raise: {'' if pol else 'not '}{txt}")
        if not have and not probs:
            probs.append("no guard of the form <estimate> > self.memory_limit")
        if probs:
            rep.bad(rid, key, "; ".join(probs), loc)
        else:
            rep.ok(rid, key, {"guards": [norm(subst(a, env)) for a, _ in _raise_guards(lc, r)], "at": loc})


# ----------------------------------------------------------------------- C01-R3
def _poll_shape(scope_node: ast.AST, stmts: List[ast.stmt], r: ast.Raise) -> Tuple[List[str], Optional[str], Optional[ast.If]]:
    """Check the guards of a `raise RegexTimeoutError` found in `stmts` (a loop body or a helper body).
    Returns (problems, counter expression text, outermost guarding if)."""
    probs: List[str] = []
    counter = None
    poll_called = False
    for a, pol in [x for t, p in guards_of(r, scope_node) for x in atoms(t, p)]:
        txt = norm(a)
        if pol and isinstance(a, ast.Compare) and isinstance(a.left, ast.BinOp) and isinstance(a.left.op, ast.Mod) and isinstance(a.ops[0], ast.Eq) and norm(a.comparators[0]) == "0":
            counter = norm(a.left.left)
            k = a.left.right
            if not (norm(k) == "self.poll_interval" or (isinstance(k, ast.Constant) and isinstance(k.value, int) and 1 <= k.value <= 10000)):
                probs.append(f"poll period {norm(k)} is neither self.poll_interval nor a literal in 1..10000")
        elif pol and txt in ("self.poll_callback", "self.poll_callback is not None"):
            pass
        elif pol and txt == "self.poll_callback()":
            poll_called = True
        else:
            probs.append(f"unexpected guard on the deadline poll: {'' if pol else 'not '}{txt}")
    if not poll_called:
        probs.append("RegexTimeoutError is not guarded by a call of self.poll_callback()")
    if counter is None:
        probs.append("deadline poll is not keyed to a step counter modulo the poll interval")
    return probs, counter, _outermost_if(r, scope_node)


def _poll_helpers(ctx) -> Dict[int, Tuple[Func, str]]:
    """Methods of the regex VM that count a step and poll the deadline on every call: id -> (func, counter)."""
    cls = ctx.facts.regex_vm_class()
    out: Dict[int, Tuple[Func, str]] = {}
    loopf = {id(f) for f, _ in ctx.facts.matcher_loops()}
    for m in cls.methods.values():
        if id(m) in loopf:
            continue
        rs = raises_in(m.body(), "RegexTimeoutError")
        if not rs:
            continue
        probs, counter, outer = _poll_shape(m.node, m.body(), rs[0])
        if probs or counter is None or outer is None:
            continue
        top = m.body()
        if outer not in top or any(isinstance(s, ast.Return) for s in top[: top.index(outer)]):
            continue
        if counter in m.params():
            # the loop passes its own counter: the call site is checked for an increment before it
            out[id(m)] = (m, "param:" + counter)
            continue
        # otherwise the helper itself counts the step, unconditionally and before the poll
        inc = [s for s in top if isinstance(s, ast.AugAssign) and norm(s.target) == counter and isinstance(s.op, ast.Add)]
        if inc and top.index(inc[0]) < top.index(outer):
            out[id(m)] = (m, counter)
    return out


def rule_matcher_loop_poll(ctx, rep, rid: str, budgets: bool = False, rid_budget: str = "") -> None:
    rep.rule(rid, "every regex matcher loop increments a step counter and polls the deadline callback every poll_interval steps on every iteration path (inline or through a helper it calls unconditionally), raising RegexTimeoutError; nothing the loop calls resets the counter", floor=1)
    if budgets:
        rep.rule(rid_budget, "every regex matcher loop checks the step budget and the backtrack-stack budget on every iteration path", floor=1)
    helpers = _poll_helpers(ctx)
    cg = ctx.cg
    for f, loop in ctx.facts.matcher_loops():
        cfg = ctx.facts.cfg(f)
        head = cfg.loop_head[id(loop)]
        within = cfg.loop_nodes[id(loop)]
        key = f"{f.qual}:matcher-loop"
        loc = f"{f.module.rel}:{loop.lineno}"
        rs = [r for r in raises_in(loop.body, "RegexTimeoutError")]
        probs: List[str] = []
        counter = None
        pn = None
        via = None
        via_param = False
        if rs:
            probs, counter, poll_stmt = _poll_shape(loop, loop.body, rs[0])
            pn = cfg.node_of_stmt.get(id(poll_stmt)) if poll_stmt is not None else None
            if pn is None:
                probs.append("deadline poll is not inside an if statement of the loop")
        else:
            # a helper that polls, called on every iteration
            calls = [n for n in cfg.nodes if n.id in within and node_calls(n, lambda c: any(id(t) in helpers for t in (cg.site_of_call.get(id(c)).targets if cg.site_of_call.get(id(c)) else [])))]
            if not calls:
                rep.bad(rid, key, f"matcher loop in {f.qual} neither raises RegexTimeoutError nor calls a helper that counts a step and polls the deadline", loc)
                if budgets:
                    _budget_checks(ctx, rep, rid_budget, f, loop, cfg, head, within, helpers)
                continue
            pn = calls[0]
            hid = [id(t) for c in walk_no_nested(pn.ast) if isinstance(c, ast.Call) and cg.site_of_call.get(id(c)) for t in cg.site_of_call[id(c)].targets if id(t) in helpers][0]
            via, counter = helpers[hid]
            if counter.startswith("param:"):
                # counter passed as an argument: resolve it to the loop's local and check it like the inline form
                from ..util import bind_args

                call = [c for c in walk_no_nested(pn.ast) if isinstance(c, ast.Call) and cg.site_of_call.get(id(c)) and any(id(t) == hid for t in cg.site_of_call[id(c)].targets)][0]
                a = bind_args(call, via).get(counter[6:])
                counter = norm(a) if a is not None else None
                if counter is None:
                    probs.append("the polling helper is called without its step-counter argument")
                via_param = True
            else:
                via_param = False
        if pn is not None:
            p = cfg.path_avoiding(head.id, lambda n: n.id == head.id, {pn.id}, within, start_succ=True)
            if p is not None:
                probs.append(f"an iteration path [{path_str(p)}] reaches the loop head again without passing the poll at line {pn.line}")
        if counter is not None and (via is None or via_param):
            incs = [n for n in cfg.nodes if n.id in within and isinstance(n.ast, ast.AugAssign) and norm(n.ast.target) == counter and isinstance(n.ast.op, ast.Add)]
            if not incs:
                probs.append(f"step counter {counter} is never incremented in the loop")
            else:
                p = cfg.path_avoiding(head.id, lambda n: n.id == head.id, {n.id for n in incs}, within, start_succ=True)
                if p is not None:
                    probs.append(f"an iteration path [{path_str(p)}] does not increment {counter}")
                if pn is not None:
                    p = cfg.path_avoiding(head.id, lambda n: n.id == pn.id, {n.id for n in incs}, within, start_succ=True)
                    if p is not None:
                        probs.append(f"poll test reachable before {counter} is incremented")
        if counter is not None:
            resets = [n for n in cfg.nodes if n.id in within and isinstance(n.ast, ast.Assign) and any(norm(t) == counter for t in n.ast.targets)]
            if resets:
                probs.append(f"step counter {counter} is reset inside the loop at line {resets[0].line}")
            if counter.startswith("self."):
                # an attribute counter is shared: nothing reachable from the loop body may overwrite it
                roots: List[Func] = []
                for n in cfg.nodes:
                    if n.id in within and n.ast is not None:
                        for c in walk_no_nested(n.ast):
                            if isinstance(c, ast.Call) and cg.site_of_call.get(id(c)) and cg.site_of_call[id(c)].kind == "resolved":
                                roots.extend(cg.site_of_call[id(c)].targets)
                par = cg.reach(roots)
                for fid in par:
                    g = cg._func_by_id[fid]
                    if g.name == "__init__":
                        continue  # construction of another object
                    for x in g.own_nodes():
                        if isinstance(x, ast.Assign) and any(norm(t) == counter for t in x.targets):
                            probs.append(f"{g.qual} (reachable from the loop body) overwrites the shared step counter {counter} at line {x.lineno}: every nested assertion restarts the outer loop's step count, so neither the poll period nor the step budget is ever reached")
        if counter is not None and not counter.startswith("self.") and not via_param:
            # a local counter starts at 0 with every run of the function: where the function runs once per subject
            # position (a search over start positions, a lookbehind over the positions before it), runs shorter than
            # the poll period never ask for the deadline, however many of them there are
            callers_in_loops = []
            for cs in cg.sites:
                if cs.kind == "resolved" and any(t is f for t in cs.targets) and cs.func.cls is f.cls:
                    up = getattr(cs.call, "_parent", None)
                    while up is not None and up is not cs.func.node:
                        if isinstance(up, (ast.For, ast.While)):
                            callers_in_loops.append((cs.func, cs.call.lineno))
                            break
                        up = getattr(up, "_parent", None)
                    # a caller that is itself called from a loop (search -> _execute -> _run)
                    for cs2 in cg.sites:
                        if cs2.kind == "resolved" and any(t is cs.func for t in cs2.targets) and cs2.func.cls is f.cls:
                            up2 = getattr(cs2.call, "_parent", None)
                            while up2 is not None and up2 is not cs2.func.node:
                                if isinstance(up2, (ast.For, ast.While)):
                                    callers_in_loops.append((cs2.func, cs2.call.lineno))
                                    break
                                up2 = getattr(up2, "_parent", None)
            if callers_in_loops:
                g, ln = callers_in_loops[0]
                probs.append(f"the poll is gated on the local `{counter}`, which starts at 0 with every call, and {f.name} is run from a loop over subject positions ({g.qual}, line {ln}): runs shorter than the poll period never ask for the deadline, so /(?<=b)/ on a long subject runs for minutes under any time limit")
        if probs:
            rep.bad(rid, key, f"matcher loop in {f.qual}: " + "; ".join(dict.fromkeys(probs)), loc)
        else:
            rep.ok(rid, key, {"loop": loc, "poll_line": pn.line if pn else None, "counter": counter, "via": via.qual if via else "inline"})
        if budgets:
            _budget_checks(ctx, rep, rid_budget, f, loop, cfg, head, within, helpers)


def _outermost_if(node: ast.AST, stop: ast.AST) -> Optional[ast.If]:
    out = None
    p = getattr(node, "_parent", None)
    while p is not None and p is not stop:
        if isinstance(p, ast.If):
            out = p
        p = getattr(p, "_parent", None)
    return out


def _budget_checks(ctx, rep, rid, f, loop, cfg, head, within, helpers=None) -> None:
    loc = f"{f.module.rel}:{loop.lineno}"
    cg = ctx.cg
    helpers = helpers or {}
    for what, limit_attr in (("step", "self.step_limit"), ("stack", "self.stack_limit")):
        key = f"{f.qual}:matcher-loop:{what}-budget"
        tests = []
        for n in cfg.nodes:
            if n.id in within and n.kind == "test" and isinstance(n.ast, ast.Compare) and limit_attr in norm(n.ast) and isinstance(n.ast.ops[0], (ast.Gt, ast.GtE)):
                tests.append(n)
        if not tests and f.cls is not None:
            # the countdown form: a budget that starts at the limit, loses one per iteration and is compared with zero
            countdowns = {norm(t) for m in f.cls.all_methods if not isinstance(m.node, ast.Lambda) for a in m.own_nodes() if isinstance(a, ast.Assign) and limit_attr in norm(a.value) for t in a.targets if isinstance(t, (ast.Attribute, ast.Name))}
            stepped = {norm(a.target) for n in cfg.nodes if n.id in within and n.ast is not None for a in ast.walk(n.ast) if isinstance(a, ast.AugAssign) and isinstance(a.op, ast.Sub) and isinstance(a.value, ast.Constant) and a.value.value == 1}
            for n in cfg.nodes:
                if n.id in within and n.kind == "test" and isinstance(n.ast, ast.Compare) and isinstance(n.ast.ops[0], (ast.Lt, ast.LtE)) and norm(n.ast.left) in (countdowns & stepped) and isinstance(n.ast.comparators[0], ast.Constant) and n.ast.comparators[0].value == 0:
                    tests.append(n)
        if not tests:
            # the budget may be enforced by the per-step helper (it must raise there: it cannot return for the loop)
            via = None
            for n in cfg.nodes:
                if n.id in within and n.ast is not None:
                    for c in walk_no_nested(n.ast):
                        cs = cg.site_of_call.get(id(c)) if isinstance(c, ast.Call) else None
                        for t in (cs.targets if cs else []):
                            if id(t) in helpers:
                                for x in t.own_nodes():
                                    if isinstance(x, ast.If) and isinstance(x.test, ast.Compare) and limit_attr in norm(x.test) and any(isinstance(s, ast.Raise) for s in x.body) and x in t.body():
                                        via = (n, t)
            if via:
                p = cfg.path_avoiding(head.id, lambda n: n.id == head.id, {via[0].id}, within, start_succ=True)
                if p is None:
                    rep.ok(rid, key, {"via": via[1].qual})
                    continue
            rep.bad(rid, key, f"matcher loop in {f.qual} has no {what} budget test against {limit_attr}", loc)
            continue
        p = cfg.path_avoiding(head.id, lambda n: n.id == head.id, {t.id for t in tests}, within, start_succ=True)
        if p is not None:
            rep.bad(rid, key, f"matcher loop in {f.qual}: iteration path [{path_str(p)}] skips the {what} budget test", loc)
            continue
        # the test must terminate the loop (return/raise) when it fires
        t = tests[0]
        body = t.stmt.body
        if not any(isinstance(s, (ast.Return, ast.Raise)) for s in body):
            rep.bad(rid, key, f"{what} budget test in {f.qual} does not leave the loop", f"{f.module.rel}:{t.line}")
            continue
        rep.ok(rid, key, {"test": norm(t.ast), "line": t.line})


# ----------------------------------------------------------------------- C01-R4
def _regex_classes(ctx):
    t = ctx.tree
    facade = t.modules["regex.regex"].classes.get("RegExp")
    js = t.modules["values"].classes.get("JSRegExp")
    if facade is None or js is None:
        raise AnalysisError("regex facade classes not found (anchor vanished)")
    return facade, js


def _lca(a: ast.AST, b: ast.AST) -> Optional[ast.AST]:
    anc = set()
    p = a
    while p is not None:
        anc.add(id(p))
        p = getattr(p, "_parent", None)
    p = b
    while p is not None:
        if id(p) in anc:
            return p
        p = getattr(p, "_parent", None)
    return None


def deadline_factory(ctx, fn: Func) -> bool:
    """fn returns, on every path, either None under `self.time_limit is None` (no limit configured) or a closure
    defined in fn whose result is clock() - self.start_time > self.time_limit."""
    from ..util import derived_deadline_attrs

    if fn.cls is not None:
        derived_deadline_attrs(ctx.tree, fn.cls)  # elapsed_compare accepts the class's cached-deadline attributes
    rets = [x for x in fn.own_nodes() if isinstance(x, ast.Return)]
    if not rets:
        return False
    n_closure = 0
    for r in rets:
        v = r.value
        if v is None or (isinstance(v, ast.Constant) and v.value is None):
            g = [norm(t) for t, pol in guards_of(r, fn.node) if pol]
            if not any(x.replace(" ", "") in ("self.time_limitisNone", "notself.time_limit") for x in g):
                return False
            continue
        if isinstance(v, ast.IfExp) and isinstance(v.orelse, ast.Constant) and v.orelse.value is None and norm(v.test).replace(" ", "") in ("self.time_limit", "self.time_limitisnotNone"):
            v = v.body  # `<callback> if self.time_limit else None`
        if isinstance(v, ast.Attribute) and norm(v.value) == "self":
            h = ctx.tree.find_method(fn.cls, v.attr) if fn.cls is not None else None
            hr = [x.value for x in h.own_nodes() if isinstance(x, ast.Return) and x.value is not None] if h is not None else []
            if hr and all(elapsed_compare(x) for x in hr):
                n_closure += 1
                continue
            return False
        if isinstance(v, ast.Name) and v.id in fn.children:
            c = fn.children[v.id]
            crets = [x.value for x in c.own_nodes() if isinstance(x, ast.Return) and x.value is not None]
            if not crets or not all(elapsed_compare(x) for x in crets):
                return False
            if any(norm(a.value) != "self" for x in crets for a in ast.walk(x) if isinstance(a, ast.Attribute) and a.attr in ("start_time", "time_limit")):
                return False
            n_closure += 1
            continue
        return False
    return n_closure >= 1


def _callback_def_ok(ctx, f: Func, name: str, site: ast.AST) -> Tuple[bool, List[str], int]:
    """All definitions of local `name` in f are None or deadline closures. Returns (ok, problems, n_closures)."""
    probs: List[str] = []
    closures = 0
    for n in f.own_nodes():
        if isinstance(n, ast.Assign) and any(isinstance(t, ast.Name) and t.id == name for t in n.targets):
            v = n.value
            if isinstance(v, ast.Constant) and v.value is None:
                continue
            fn: Optional[Func] = None
            if isinstance(v, ast.Name) and v.id in f.children:
                fn = f.children[v.id]
            elif isinstance(v, ast.Lambda):
                fn = ctx.tree.func_of_node.get(id(v))
            elif isinstance(v, ast.Call):
                # a factory method of the interpreter: returns None when no limit is configured, else a closure
                # comparing the clock with that interpreter's start_time/time_limit
                cs = ctx.cg.site_of_call.get(id(v))
                facs = [t_ for t_ in (cs.targets if cs and cs.kind in ("resolved", "byname") else []) if deadline_factory(ctx, t_)]
                if cs and cs.targets and len(facs) == len(cs.targets):
                    closures += 1
                    for test, pol in guards_of(n, _lca(n, site) or f.node):
                        for a, p in atoms(test, pol):
                            txt = norm(a)
                            if "time_limit" not in txt and "_current_vm" not in txt:
                                probs.append(f"deadline callback only installed under unrelated condition '{txt}'")
                    continue
            if fn is None:
                probs.append(f"{name} = {short(v, 50)} is neither None nor a local deadline closure")
                continue
            closures += 1
            # body returns an elapsed comparison
            rets = [x.value for x in fn.own_nodes() if isinstance(x, ast.Return) and x.value is not None]
            if isinstance(fn.node, ast.Lambda):
                rets = [fn.node.body]
            if not rets or not all(elapsed_compare(rv) for rv in rets):
                probs.append(f"deadline closure {fn.name} does not return clock() - <vm>.start_time > <vm>.time_limit")
            # guard of the assignment mentions only the presence of a time limit
            for test, pol in guards_of(n, _lca(n, site) or f.node):
                for a, p in atoms(test, pol):
                    txt = norm(a)
                    if "time_limit" not in txt and "_current_vm" not in txt:
                        probs.append(f"deadline closure only installed under unrelated condition '{txt}'")
    return (not probs, probs, closures)


def rule_regex_gets_callback(ctx, rep, rid: str) -> None:
    rep.rule(rid, "every script-reachable construction of a regex passes a deadline-polling callback (None only when no time limit is configured) and every forwarding link down to the matcher keeps it", floor=8)
    t = ctx.tree
    facade, js = _regex_classes(ctx)
    targets = {id(facade): facade, id(js): js}
    sr = ctx.facts.script_reachable()
    n_sites = 0
    forwarders: Set[int] = set()
    work = []
    for cs in ctx.cg.sites:
        if cs.ext and cs.ext.startswith("class:"):
            ci = [c for c in targets.values() if c.qual == cs.ext[6:]]
            if ci:
                work.append((cs, ci[0]))
    for cs, ci in work:
        f = cs.func
        if id(f) not in sr and not (f.cls is js):
            continue  # convenience helpers of the standalone regex package
        n_sites += 1
        init = t.find_method(ci, "__init__")
        b = bind_args(cs.call, init)
        key = f"{f.qual}:{ci.name}({short(cs.call.args[0], 30) if cs.call.args else ''})"
        loc = f"{f.module.rel}:{cs.line}"
        arg = b.get("poll_callback")
        if arg is None:
            rep.bad(rid, key, f"{ci.name}(...) constructed without a deadline callback in script-reachable {f.qual}", loc)
            continue
        if isinstance(arg, ast.Name) and arg.id in f.params():
            forwarders.add(id(f))
            rep.ok(rid, key, {"site": loc, "callback": f"parameter {arg.id} forwarded"})
            continue
        if isinstance(arg, ast.Name):
            ok, probs, ncl = _callback_def_ok(ctx, f, arg.id, cs.call)
            if ncl == 0:
                probs.append(f"{arg.id} is never bound to a deadline closure")
            if probs:
                rep.bad(rid, key, "; ".join(probs), loc)
            else:
                rep.ok(rid, key, {"site": loc, "callback": f"local {arg.id}: None or deadline closure"})
            continue
        rep.bad(rid, key, f"deadline callback argument {short(arg, 40)} is not a local bound to a deadline closure", loc)
    # callbacks installed later (a regex object adopted by the evaluation that runs it): same requirement
    for f in t.funcs:
        if id(f) not in sr or f.module.name.startswith("regex"):
            continue
        for n in f.own_nodes():
            arg = None
            if isinstance(n, ast.Call) and isinstance(n.func, ast.Attribute) and n.func.attr == "set_poll_callback" and n.args:
                arg = n.args[0]
            elif isinstance(n, ast.Assign) and any(isinstance(tg, ast.Attribute) and tg.attr in ("_poll_callback", "poll_callback") for tg in n.targets):
                arg = n.value
            if arg is None:
                continue
            key = f"{f.qual}:adopt:{short(arg, 30)}"
            loc = f"{f.module.rel}:{n.lineno}"
            okc = False
            if isinstance(arg, ast.Call):
                cs2 = ctx.cg.site_of_call.get(id(arg))
                okc = bool(cs2 and cs2.targets and all(deadline_factory(ctx, t_) for t_ in cs2.targets))
            elif isinstance(arg, ast.Name) and arg.id in f.params():
                okc = True
            if okc:
                rep.ok(rid, key)
            else:
                rep.bad(rid, key, f"{f.qual} installs {short(arg, 40)} as the regex engine's poll callback: not the running interpreter's deadline (a match started afterwards is not bounded by the time limit)", loc)
    # forwarding links inside the regex package
    init = t.find_method(facade, "__init__")
    stored = None
    for s in init.body():
        if isinstance(s, ast.Assign) and isinstance(s.value, ast.Name) and s.value.id == "poll_callback" and isinstance(s.targets[0], ast.Attribute) and norm(s.targets[0].value) == "self":
            stored = s.targets[0].attr
    if stored is None:
        rep.bad(rid, f"{init.qual}:store", "RegExp.__init__ does not store poll_callback unconditionally", init.loc)
    else:
        rep.ok(rid, f"{init.qual}:store", {"attr": stored})
    vmcls = ctx.facts.regex_vm_class()
    vinit = t.find_method(vmcls, "__init__")
    vstored = None
    for s in vinit.body():
        if isinstance(s, ast.Assign) and isinstance(s.value, ast.Name) and s.value.id == "poll_callback" and isinstance(s.targets[0], ast.Attribute) and norm(s.targets[0].value) == "self":
            vstored = s.targets[0].attr
    if vstored != "poll_callback":
        rep.bad(rid, f"{vinit.qual}:store", "RegexVM.__init__ does not store poll_callback as self.poll_callback (the name the matcher loops read)", vinit.loc)
    else:
        rep.ok(rid, f"{vinit.qual}:store", {"attr": vstored})
    nvm = 0
    for cs in ctx.cg.sites:
        if cs.ext == "class:" + vmcls.qual:
            nvm += 1
            b = bind_args(cs.call, vinit)
            arg = b.get("poll_callback")
            key = f"{cs.func.qual}:RegexVM(...)"
            loc = f"{cs.func.module.rel}:{cs.line}"
            if arg is None or norm(arg) != f"self.{stored}":
                rep.bad(rid, key, f"RegexVM constructed with poll_callback={norm(arg) if arg is not None else '<missing>'} instead of self.{stored}", loc)
            else:
                rep.ok(rid, key, {"site": loc})
    if nvm == 0:
        raise AnalysisError("no RegexVM construction found")
    # JSRegExp.__init__ forwards its parameter
    rep.analysed["regex_construction_sites"] = n_sites


# ----------------------------------------------------------------------- C01-R5
def rule_regex_timeout_translated(ctx, rep, rid: str, exc: str = "RegexTimeoutError", to: str = "TimeLimitError", floor: int = 8) -> None:
    rep.rule(rid, f"every call from the interpreter into the regex matcher is inside a try whose {exc} handler raises {to} (or all callers of the enclosing function are)", floor=floor)
    loops = {id(f) for f, _ in ctx.facts.matcher_loops()}
    cg = ctx.cg
    # functions that reach a matcher loop through resolved edges
    reach_cache: Dict[int, bool] = {}

    def reaches(fn: Func) -> bool:
        if id(fn) not in reach_cache:
            reach_cache[id(fn)] = any(x in loops for x in cg.reach([fn]))
        return reach_cache[id(fn)]

    def protected(call: ast.Call, f: Func) -> Optional[str]:
        for tr, in_body in try_handlers_enclosing(call, f.node):
            if not in_body:
                continue
            for h in tr.handlers:
                if h.type is not None and exc in norm(h.type):
                    if raises_in(h.body, to):
                        return "ok"
                    return f"handler for {exc} at line {h.lineno} does not raise {to}"
        return None

    def callers_protected(f: Func, depth: int, seen: frozenset = frozenset()) -> Tuple[bool, str]:
        sites = [cs for cs in cg.sites if any(t is f for t in cs.targets) and not cs.func.module.name.startswith("regex")]
        if not sites or depth == 0:
            return False, "no protected caller"
        for cs in sites:
            r = protected(cs.call, cs.func)
            if r == "ok":
                continue
            if r is not None:
                return False, r
            if id(cs.func) in seen:
                continue  # a cycle of the call graph adds no new way in
            ok, why = callers_protected(cs.func, depth - 1, seen | {id(f)})
            if not ok:
                return False, f"caller {cs.func.qual}:{cs.line} unprotected ({why})"
        return True, ""

    for cs in cg.sites:
        f = cs.func
        if f.module.name.startswith("regex"):
            continue
        if cs.kind not in ("resolved", "byname"):
            continue
        tg = [t for t in cs.targets if t.module.name.startswith("regex") or (t.cls is not None and t.cls.name == "JSRegExp")]
        if not tg or not any(reaches(t) for t in tg):
            continue
        if all(t.name == "__init__" for t in tg):
            continue  # construction, not matching
        key = f"{f.qual}:{short(cs.call, 50)}"
        loc = f"{f.module.rel}:{cs.line}"
        r = protected(cs.call, f)
        if r == "ok":
            rep.ok(rid, key, {"site": loc, "handler": f"except {exc} -> raise {to}"})
        elif r is not None:
            rep.bad(rid, key, r, loc)
        else:
            ok, why = callers_protected(f, 8)
            if ok:
                rep.ok(rid, key, {"site": loc, "protected_by": "all callers"})
            else:
                rep.bad(rid, key, f"call into the regex matcher in {f.qual} is not inside try/except {exc} -> {to} ({why})", loc)


# ----------------------------------------------------------------------- C01-R6
def rule_limit_errors_not_swallowed(ctx, rep, rid: str) -> None:
    rep.rule(rid, "no handler that can catch TimeLimitError/MemoryLimitError/RegexTimeoutError around code that can raise them swallows or re-labels the error (translation RegexTimeoutError->TimeLimitError excepted)", floor=20)
    t = ctx.tree
    cg = ctx.cg
    lc = ctx.facts.limit_check()
    loops = {id(f) for f, _ in ctx.facts.matcher_loops()}
    errors_mod = t.mod("errors")
    limit_raisers: Set[int] = {id(lc)}
    for f in t.funcs:
        for n in f.own_nodes():
            if isinstance(n, ast.Raise) and n.exc is not None and ("TimeLimitError" in norm(n.exc) or "MemoryLimitError" in norm(n.exc)):
                limit_raisers.add(id(f))
    translators: Set[int] = set()
    for f in t.funcs:
        for n in f.own_nodes():
            if isinstance(n, ast.ExceptHandler) and n.type is not None and "RegexTimeoutError" in norm(n.type) and raises_in(n.body, "TimeLimitError"):
                translators.add(id(f))
    n_try = 0
    for f in t.funcs:
        for n in f.own_nodes():
            if not isinstance(n, ast.Try):
                continue
            n_try += 1
            # what can the body reach?
            body_calls = [c for s in n.body for c in walk_no_nested(s) if isinstance(c, ast.Call)]
            roots: List[Func] = []
            dynamic = False
            for c in body_calls:
                cs = cg.site_of_call.get(id(c))
                if cs is None:
                    continue
                roots.extend(cs.targets)
                if cs.kind == "dynamic":
                    dynamic = True
            if dynamic:
                roots.extend(v[0] for v in cg.natives.values())
            par = cg.reach(roots)
            can_limit = any(x in par for x in limit_raisers) or bool(raises_in(n.body, "TimeLimitError") or raises_in(n.body, "MemoryLimitError"))
            # RegexTimeoutError is caught by the translating functions (C01-R5), which act as barriers
            par_rx = cg.reach([r for r in roots if id(r) not in translators], stop=translators)
            can_regex = any(x in par_rx for x in loops)
            might = []
            if can_limit:
                might += [("TimeLimitError", errors_mod), ("MemoryLimitError", errors_mod)]
            if can_regex:
                might += [("RegexTimeoutError", t.mod("regex.vm"))]
            responsible: Dict[int, List[str]] = {}
            for exc, emod in might:
                for h in n.handlers:  # first matching handler wins
                    if t.handler_catches(f.module, h, exc, emod):
                        responsible.setdefault(id(h), []).append(exc)
                        break
            for h in n.handlers:
                catches = responsible.get(id(h), [])
                key = f"{f.qual}:except {norm(h.type) if h.type else '<bare>'}"
                loc = f"{f.module.rel}:{h.lineno}"
                if not catches:
                    rep.ok(rid, key)
                    continue
                if _reraises_same(h):
                    rep.ok(rid, key, {"handler": loc, "catches": catches, "action": "re-raises the same exception"})
                    continue
                if catches == ["RegexTimeoutError"] and raises_in(h.body, "TimeLimitError") and h.type is not None and norm(h.type).endswith("RegexTimeoutError"):
                    rep.ok(rid, key, {"handler": loc, "action": "translates RegexTimeoutError to TimeLimitError"})
                    continue
                rep.bad(rid, key, f"handler in {f.qual} can catch {'/'.join(catches)} raised under its try body and does not re-raise it unchanged", loc, {"handler_body": [short(s, 80) for s in h.body]})
    rep.analysed["try_statements"] = n_try


def _reraises_same(h: ast.ExceptHandler) -> bool:
    """Every normal path through the handler body ends in `raise` / `raise <bound name>`."""
    if not h.body:
        return False
    first = h.body[0]
    # accept: an isinstance-limit guard that re-raises before anything else
    last = h.body[-1]

    def is_reraise(s):
        return isinstance(s, ast.Raise) and (s.exc is None or (isinstance(s.exc, ast.Name) and s.exc.id == h.name)) and s.cause is None

    if is_reraise(last) and not any(isinstance(x, (ast.Return, ast.Continue, ast.Break)) for s in h.body for x in walk_no_nested(s)):
        return True
    # `if isinstance(e, (TimeLimitError, MemoryLimitError)): raise` as first statement
    if isinstance(first, ast.If) and first.body and is_reraise(first.body[0]):
        tst = norm(first.test)
        if "isinstance" in tst and "TimeLimitError" in tst and "MemoryLimitError" in tst:
            return True
    return False


# ----------------------------------------------------------------------- C01-R7
def rule_one_deadline(ctx, rep, rid: str) -> None:
    rep.rule(rid, "every interpreter created while a script is running inherits the running interpreter's start_time, and the function that stamps start_time does not overwrite an inherited value", floor=2)
    t = ctx.tree
    df, _ = ctx.facts.vm_dispatcher()
    vmcls = df.cls
    sr = ctx.facts.script_reachable()
    stampers = []
    for m in t.mro(vmcls)[0].methods.values():
        for n in m.own_nodes():
            if isinstance(n, ast.Assign) and any(norm(tg) == "self.start_time" for tg in n.targets) and m.name != "__init__":
                from ..util import is_clock_call

                if any(is_clock_call(x) for x in ast.walk(n.value)):
                    stampers.append((m, n))  # only assignments that read the clock stamp a deadline
    nested = 0
    for cs in ctx.cg.sites:
        if cs.ext != "class:" + vmcls.qual:
            continue
        f = cs.func
        key = f"{f.qual}:VM(...)"
        loc = f"{f.module.rel}:{cs.line}"
        if id(f) not in sr:
            rep.ok(rid, key, {"site": loc, "kind": "top-level (not reachable from running script code)"})
            continue
        nested += 1
        # the variable bound to the new VM
        st = cs.call
        p = getattr(st, "_parent", None)
        var = None
        if isinstance(p, ast.Assign) and len(p.targets) == 1 and isinstance(p.targets[0], ast.Name):
            var = p.targets[0].id
        inherits = False
        for kw in cs.call.keywords:
            if kw.arg and "start" in kw.arg and "start_time" in norm(kw.value):
                inherits = True
        if var is not None:
            for n in f.own_nodes():
                from ..util import single_assignments, subst

                env_ = single_assignments(f)
                # the value may be a local that holds the running interpreter's clock:
                # `started = outer.start_time if outer is not None else time.monotonic()`
                if isinstance(n, ast.Assign) and any(norm(tg) == f"{var}.start_time" for tg in n.targets) and "start_time" in norm(subst(n.value, env_)):
                    if not guards_of(n, f.node) or all("start_time" in norm(subst(g, env_)) or "_current_vm" in norm(subst(g, env_)) for g, _ in guards_of(n, f.node)):
                        inherits = True
        if not inherits:
            rep.bad(rid, key, f"nested interpreter created in script-reachable {f.qual} does not inherit the running interpreter's start_time (it gets a fresh or missing deadline)", loc)
        else:
            rep.ok(rid, key, {"site": loc, "kind": "nested, inherits start_time"})
    for m, n in stampers:
        key = f"{m.qual}:stamp start_time"
        loc = f"{m.module.rel}:{n.lineno}"
        g = [norm(a) for tst, pol in guards_of(n, m.node) for a, p in atoms(tst, pol)]
        guarded = any("self.start_time is None" in x for x in g)
        if not guarded:
            # a stamping helper is fine when every call of it is guarded by `<receiver>.start_time is None`
            sites = [cs for cs in ctx.cg.sites if cs.kind == "resolved" and any(t_ is m for t_ in cs.targets)]
            def site_ok(cs) -> bool:
                if any(".start_time is None" in norm(a) for tst, pol in guards_of(cs.call, cs.func.node) for a, p in atoms(tst, pol) if p):
                    return True
                # a freshly constructed interpreter that does not inherit a clock on this path
                fn_ = cs.call.func
                if isinstance(fn_, ast.Attribute) and isinstance(fn_.value, ast.Name):
                    v = fn_.value.id
                    g_ = cs.func
                    fresh = any(isinstance(x, ast.Assign) and any(isinstance(t_, ast.Name) and t_.id == v for t_ in x.targets) and isinstance(x.value, ast.Call) and ctx.cg._class_visible(call_name(x.value) or "", g_) is m.cls for x in g_.own_nodes())
                    if fresh:
                        inh = [x for x in g_.own_nodes() if isinstance(x, ast.Assign) and any(norm(t_) == f"{v}.start_time" for t_ in x.targets)]
                        if not inh:
                            return True
                        # the inheriting assignment sits in the other branch of the same `if`
                        for x in inh:
                            p_ = getattr(x, "_parent", None)
                            if isinstance(p_, ast.If) and any(x is b for b in p_.body) and any(cs.call in list(ast.walk(o)) for o in p_.orelse):
                                return True
                return False

            if sites and all(site_ok(cs) for cs in sites):
                guarded = True
        if nested and not guarded:
            rep.bad(rid, key, f"{m.qual} stamps start_time unconditionally, overwriting a deadline inherited by a nested interpreter", loc)
        else:
            rep.ok(rid, key, {"guards": g})


# ---- what is counted at every push is given back at every pop ------------------------------------------------------
def _decreases(ctx, vmcls, st: ast.stmt, attr: str, depth: int) -> bool:
    """st takes something off the counter: `attr -= ..` itself, or a call of a method of the interpreter whose body does
    so outside any branch (the clean-up helper the return paths share)."""
    if isinstance(st, ast.AugAssign) and isinstance(st.op, ast.Sub) and norm(st.target) == attr:
        return True
    if depth <= 0 or not isinstance(st, (ast.Expr, ast.Assign)):
        return False
    for c in ast.walk(st):
        if isinstance(c, ast.Call) and isinstance(c.func, ast.Attribute) and norm(c.func.value) == "self":
            h = ctx.tree.find_method(vmcls, c.func.attr)
            if h is not None and any(_decreases(ctx, vmcls, b, attr, depth - 1) for b in h.body()):
                return True
    return False


def rule_companion_counter_maintained(ctx, rep, rid: str) -> None:
    """When the interpreter keeps a running total next to its call stack (the estimated size of the frames, say) and
    the limit check reads that total, every place that takes a frame off the stack has to take its share off the total:
    the unwinding loop of a throw pops frames too, and a total that only ever grows stops a bounded program that
    catches enough exceptions."""
    rep.rule(rid, "a counter that is increased next to every push of the call stack is decreased next to every pop of it (the pops of return and of exception unwinding alike), or the interpreter keeps no such counter", floor=1)
    comps = companion_counters(ctx)
    if not comps:
        rep.ok(rid, "call-stack:no-companion-counter", {"note": "the limit check measures the stacks themselves"})
        return
    vmcls = ctx.facts.vm_dispatcher()[0].cls
    for attr, info in sorted(comps.items()):
        n = 0
        ordinal: Dict[str, int] = {}
        for m in vmcls.all_methods:
            if isinstance(m.node, ast.Lambda):
                continue
            for c in m.own_nodes():
                if not (isinstance(c, ast.Call) and norm(c.func) == "self.call_stack.pop"):
                    continue
                n += 1
                st = c
                while not isinstance(st, ast.stmt):
                    st = st._parent
                par = getattr(st, "_parent", None)
                paired = False
                for field in ("body", "orelse", "finalbody"):
                    blk = getattr(par, field, None)
                    if isinstance(blk, list) and any(q is st for q in blk):
                        i = [k for k, q in enumerate(blk) if q is st][0]
                        paired = any(_decreases(ctx, vmcls, nb, attr, 2) for nb in blk[max(0, i - 1): i + 3])
                ordinal[m.qual] = ordinal.get(m.qual, 0) + 1
                key = f"{m.qual}:call_stack.pop#{ordinal[m.qual]}:{attr}"
                if paired:
                    rep.ok(rid, key)
                else:
                    rep.bad(rid, key, f"{m.qual} pops a frame off the call stack (line {c.lineno}) without decreasing {attr}, which {info['pushes'][0][0].name} increases at every push and the limit check reads: frames discarded here (by an exception that unwinds them) stay charged, so a bounded program that catches enough exceptions is stopped with MemoryLimitError", f"{m.module.rel}:{c.lineno}")
        if n == 0:
            raise AnalysisError(f"{rid}: no pop of the call stack found")


# ---- an interpreter that joins a running evaluation reads the clock before it runs ----------------------


def _poll_methods(ctx) -> Tuple[Dict[int, Func], Dict[int, Func]]:
    """(P, E): methods of the interpreter that raise TimeLimitError under the deadline comparison alone (no counter in
    any enclosing condition), and methods that call one of those under conditions that mention no counter either (an
    entry poll: `if self.start_time is None: .. else: self._poll_deadline()`)."""
    vmcls = ctx.facts.vm_dispatcher()[0].cls
    from ..util import guards_of

    def counter_free(n, m) -> bool:
        for t, _ in guards_of(n, m.node):
            if any(isinstance(x, ast.Attribute) and ("count" in x.attr or "tick" in x.attr or "budget" in x.attr) for x in ast.walk(t)) or any(isinstance(x, ast.BinOp) and isinstance(x.op, ast.Mod) for x in ast.walk(t)):
                return False
        return True

    def reads_clock(t, depth: int = 0) -> bool:
        txt = norm(t)
        if "monotonic" in txt or "perf_counter" in txt or "deadline" in txt.lower():
            return True
        if depth < 2:
            for c in ast.walk(t):
                if isinstance(c, ast.Call) and isinstance(c.func, ast.Attribute) and norm(c.func.value) == "self":
                    h = ctx.tree.find_method(vmcls, c.func.attr)
                    if h is not None and any(isinstance(r, ast.Return) and r.value is not None and reads_clock(r.value, depth + 1) for r in h.own_nodes()) and not any(isinstance(x, ast.BinOp) and isinstance(x.op, ast.Mod) for x in h.own_nodes()):
                        return True
        return False

    P: Dict[int, Func] = {}
    for m in vmcls.all_methods:
        if isinstance(m.node, ast.Lambda):
            continue
        for n in m.own_nodes():
            if isinstance(n, ast.Raise) and n.exc is not None and "TimeLimitError" in norm(n.exc) and counter_free(n, m) and any(reads_clock(t) for t, _ in guards_of(n, m.node)):
                P[id(m)] = m
    E: Dict[int, Func] = {}
    for m in vmcls.all_methods:
        if isinstance(m.node, ast.Lambda) or id(m) in P:
            continue
        for c in m.own_nodes():
            if isinstance(c, ast.Call) and isinstance(c.func, ast.Attribute) and norm(c.func.value) == "self" and any(p.name == c.func.attr for p in P.values()) and counter_free(c, m):
                # not inside a loop: once, on entry
                par = getattr(c, "_parent", None)
                in_loop = False
                while par is not None and par is not m.node:
                    if isinstance(par, (ast.While, ast.For)):
                        in_loop = True
                    par = getattr(par, "_parent", None)
                if not in_loop:
                    E[id(m)] = m
    return P, E


def rule_nested_interpreter_polls(ctx, rep, rid: str) -> None:
    """The time limit is looked at every N instructions of ONE interpreter, and an interpreter created while an
    evaluation runs (eval, Function, host-driven calls such as a sort comparator) counts from zero.  A script that
    keeps creating such interpreters, each for fewer than N instructions, never reaches the periodic check of any of
    them: recursion through eval with a short loop per level runs for ever.  So an interpreter that adopts the running
    evaluation's start time reads the clock once before it runs anything."""
    rep.rule(rid, "every script-reachable site that creates an interpreter and hands it the running evaluation's start time reads the clock for it before its run loop starts: through an entry method that polls when the start time is already set, or an explicit poll after the adoption", floor=1)
    vmcls = ctx.facts.vm_dispatcher()[0].cls
    sr = ctx.facts.script_reachable()
    P, E = _poll_methods(ctx)
    loopfuncs = {id(f) for f, _ in ctx.facts.dispatch_loops()}
    runners = {m.name for m in vmcls.all_methods if not isinstance(m.node, ast.Lambda) and (id(m) in loopfuncs or any(x in loopfuncs for x in ctx.cg.reach([m])))}
    n = 0
    for f in ctx.tree.funcs:
        if isinstance(f.node, ast.Lambda) or id(f) not in sr:
            continue
        for a in f.own_nodes():
            if not (isinstance(a, ast.Assign) and isinstance(a.value, ast.Call) and call_name(a.value) == vmcls.name and len(a.targets) == 1 and isinstance(a.targets[0], ast.Name)):
                continue
            v = a.targets[0].id
            adopts = [x for x in f.own_nodes() if isinstance(x, ast.Assign) and len(x.targets) == 1 and isinstance(x.targets[0], ast.Attribute) and norm(x.targets[0].value) == v and "start" in x.targets[0].attr and isinstance(x.value, ast.Attribute) and x.value.attr == x.targets[0].attr]
            if not adopts:
                continue
            n += 1
            key = f"{f.qual}:{v} = {vmcls.name}(..):clock-read-on-entry"
            cfg = ctx.facts.cfg(f)

            def calls_on_v(nd, names) -> bool:
                return nd.ast is not None and any(isinstance(c, ast.Call) and isinstance(c.func, ast.Attribute) and norm(c.func.value) == v and c.func.attr in names for c in ast.walk(nd.ast if not isinstance(nd.ast, (ast.If, ast.While)) else nd.ast.test))

            pollnames = {m.name for m in P.values()} | {m.name for m in E.values()}
            polls = {nd.id for nd in cfg.nodes if calls_on_v(nd, pollnames)}
            starts = [nd for nd in cfg.nodes if nd.ast is not None and any(x is ad for ad in adopts for x in ast.walk(nd.ast))]
            bad = None
            for s0 in starts:
                p = cfg.path_avoiding(s0.id, lambda nd: nd.id not in polls and calls_on_v(nd, runners - pollnames), polls, None, start_succ=True)
                if p is not None:
                    bad = p
            if bad is None and (polls or not any(calls_on_v(nd, runners) for nd in cfg.nodes)):
                rep.ok(rid, key, {"polls": sorted(pollnames), "at": f"{f.module.rel}:{a.lineno}"})
            else:
                line = bad[-1].line if bad else a.lineno
                rep.bad(rid, key, f"{f.qual} creates an interpreter, gives it the running evaluation's start time (line {adopts[0].lineno}) and runs it (line {line}) without reading the clock first: the new interpreter counts its instructions from zero, so a script that keeps starting such interpreters for fewer instructions than the polling period (recursion through eval with a short loop per level) is never stopped by the time limit", f"{f.module.rel}:{line}")
    if n == 0:
        raise AnalysisError(f"{rid}: no script-reachable site adopts a running evaluation's start time")
