"""Host-recursion rules (C02-R2, C02-R3; reused by C11-R5 and C19-R4)."""

from __future__ import annotations

import ast
from typing import Dict, List, Optional, Set, Tuple

from ..core import AnalysisError, Func, norm, short, walk_no_nested
from ..util import guards_of, raises_in

import re

_JSFUNC_TEST = re.compile(r"^isinstance\(\w+, JSFunction\)$")

# Self-recursive functions whose recursion depth is bounded by construction, with the reason.
BOUNDED_RECURSION = {
    "vm:VM._abstract_equals": "recurses only after replacing a boolean operand by the literal 1/0, so at most twice",
}


def frame_pushers(ctx) -> List[Func]:
    """Methods of the VM class that push a CallFrame (self.call_stack.append)."""
    df, _ = ctx.facts.vm_dispatcher()
    out = []
    for m in df.cls.methods.values():
        for n in m.own_nodes():
            if isinstance(n, ast.Call) and norm(n.func) == "self.call_stack.append":
                if m.name not in ("run",):
                    out.append(m)
                break
    return out


def rule_no_host_recursion_for_script_calls(ctx, rep, rid: str) -> None:
    rep.rule(rid, "the CALL/CALL_METHOD/NEW handlers run script functions by pushing a frame, never by re-entering a run loop (no host recursion for script-to-script calls)", floor=3)
    df, chain = ctx.facts.vm_dispatcher()
    cg = ctx.cg
    pushers = {id(m) for m in frame_pushers(ctx) if m is not None}
    if not pushers:
        raise AnalysisError("no frame-pushing method found (anchor vanished)")
    loopfuncs = {id(f) for f, _ in ctx.facts.dispatch_loops()}
    for f in list(ctx.tree.funcs):
        if f.name == "run" and f.cls is df.cls:
            loopfuncs.add(id(f))
    for pid in pushers:
        par = cg.reach([cg._func_by_id[pid]])
        hit = [x for x in par if x in loopfuncs]
        key = f"{cg._func_by_id[pid].qual}:pushes-frame"
        if hit:
            rep.bad(rid, key, f"{cg._func_by_id[pid].qual} can reach run loop {cg._func_by_id[hit[0]].qual}: script calls recurse in the host", cg._func_by_id[pid].loc)
        else:
            rep.ok(rid, key, {"frame_pusher": cg._func_by_id[pid].qual})
    for opn in ("CALL", "CALL_METHOD", "NEW"):
        body = chain.body_of(opn)
        if body is None:
            raise AnalysisError(f"dispatcher has no branch for {opn}")
        helpers: List[Func] = []
        for s in body:
            for c in walk_no_nested(s):
                if isinstance(c, ast.Call):
                    cs = cg.site_of_call.get(id(c))
                    if cs and cs.kind == "resolved":
                        helpers.extend(t for t in cs.targets if t.cls is df.cls)
        key = f"{df.qual}:{opn}"
        loc = f"{df.module.rel}:{body[0].lineno}"
        found_push = False
        bad = None
        for h in helpers:
            for n in h.own_nodes():
                if isinstance(n, ast.If) and _JSFUNC_TEST.match(norm(n.test)):
                    roots = []
                    for s in n.body:
                        for c in walk_no_nested(s):
                            if isinstance(c, ast.Call):
                                cs = cg.site_of_call.get(id(c))
                                if cs:
                                    roots.extend(cs.targets)
                                    if any(id(t) in pushers for t in cs.targets):
                                        found_push = True
                    par = cg.reach(roots)
                    hit = [x for x in par if x in loopfuncs]
                    if hit:
                        bad = f"{h.qual}: the JSFunction branch reaches run loop {cg._func_by_id[hit[0]].qual}"
        if bad:
            rep.bad(rid, key, bad + " (script-to-script call recurses in the host)", loc)
        elif not found_push:
            rep.bad(rid, key, f"handler of {opn} never pushes a frame for a JSFunction callee", loc)
        else:
            rep.ok(rid, key, {"handler": loc, "helpers": [h.qual for h in helpers]})


def _has_depth_guard(f: Func) -> Optional[str]:
    """An `if <depth-like> > <bound>: raise <JSError family>` in f. Returns description."""
    for n in f.own_nodes():
        if isinstance(n, ast.If) and isinstance(n.test, ast.Compare) and len(n.test.ops) == 1 and isinstance(n.test.ops[0], (ast.Gt, ast.GtE)):
            left = norm(n.test.left)
            if any(w in left.lower() for w in ("depth", "nesting", "reentr", "recursion")):
                for s in n.body:
                    if isinstance(s, ast.Raise) and s.exc is not None and any(k in norm(s.exc) for k in ("MemoryLimitError", "JSRangeError", "JSError", "JSTypeError", "RangeError")):
                        return f"line {n.lineno}: if {norm(n.test)}: {short(s, 60)}"
    return None


def rule_host_reentry_guarded(ctx, rep, rid: str) -> None:
    rep.rule(rid, "every run loop that script code can re-enter through a native (callbacks, accessors, conversions, call/apply, eval/Function) is protected by a constant host-depth guard that raises a JSError-family error", floor=2)
    cg = ctx.cg
    df, _ = ctx.facts.vm_dispatcher()
    disp_reach = cg.reach([df])
    for f, loop in ctx.facts.dispatch_loops():
        if id(f) not in disp_reach:
            rep.ok(rid, f"{f.qual}:not-reentrant")
            continue
        # direct script-reachable callers of the loop function
        callers = sorted({cs.func.qual: cs.func for cs in cg.sites if any(t is f for t in cs.targets) and id(cs.func) in disp_reach and cs.func is not f}.items())
        g = _has_depth_guard(f)
        if g:
            rep.ok(rid, f"{f.qual}:reentrant", {"guard": g})
            continue
        unguarded = [qn for qn, caller in callers if not _has_depth_guard(caller)]
        key = f"{f.qual}:reentrant"
        if not unguarded:
            rep.ok(rid, key, {"guarded_callers": [qn for qn, _ in callers]})
        else:
            rep.bad(rid, key, f"run loop {f.qual} is re-entered from {len(unguarded)} script-reachable caller(s) ({', '.join(u.split(':')[-1] for u in unguarded[:6])}{', ...' if len(unguarded) > 6 else ''}) with no host-depth guard in the loop function or the callers: unbounded native-mediated recursion overflows the host stack", f.loc, {"unguarded_callers": unguarded})


def self_recursive(ctx, modules=("values", "vm", "context")) -> List[Tuple[Func, List[ast.Call]]]:
    """Functions of the runtime modules that call themselves (resolved edges only)."""
    out = []
    for f in ctx.tree.funcs:
        if f.module.name not in modules:
            continue
        calls = []
        for cs in ctx.cg.sites_of[id(f)]:
            if cs.kind == "resolved" and any(t is f for t in cs.targets):
                calls.append(cs.call)
            # method recursion through another object of the same class: self._prototype.get(key)
            elif (
                cs.kind == "byname"
                and isinstance(cs.call.func, ast.Attribute)
                and cs.call.func.attr == f.name
                and f.is_method
                and isinstance(cs.call.func.value, ast.Attribute)
                and norm(cs.call.func.value.value) == "self"
                and _attr_holds_own_class(ctx, f, cs.call.func.value.attr)
            ):
                calls.append(cs.call)
        if calls:
            out.append((f, calls))
    return out


def _attr_holds_own_class(ctx, f: Func, attr: str) -> bool:
    """self.<attr> is assigned (in any method of f's class) from a parameter annotated with the class itself."""
    names = {c.name for c in ctx.tree.mro(f.cls)}
    for c in ctx.tree.mro(f.cls):
        for m in c.methods.values():
            ann = {a.arg: norm(a.annotation) for a in m.node.args.args if a.annotation is not None}
            for n in m.own_nodes():
                if isinstance(n, ast.Assign) and any(norm(t) == f"self.{attr}" for t in n.targets) and isinstance(n.value, ast.Name):
                    if any(nm in ann.get(n.value.id, "") for nm in names):
                        return True
                if isinstance(n, ast.AnnAssign) and norm(n.target) == f"self.{attr}" and any(nm in norm(n.annotation) for nm in names):
                    return True
    return False


def _recursion_guard(f: Func) -> Optional[str]:
    """visited-set / depth-parameter idioms."""
    params = f.params()
    for p in params:
        if any(w in p.lower() for w in ("seen", "visited", "depth", "stack", "memo")):
            return f"parameter {p}"
    g: Optional[Func] = f.parent
    # closure over a visited set defined in the parent
    for n in f.own_nodes():
        if isinstance(n, ast.Compare) and isinstance(n.ops[0], (ast.In, ast.NotIn)) and any(w in norm(n.comparators[0]).lower() for w in ("seen", "visited", "stack")):
            return f"membership test {norm(n)}"
    d = _has_depth_guard(f)
    return d


def rule_data_recursion_guarded(ctx, rep, rid: str, only: Optional[Set[str]] = None, floor: int = 1) -> None:
    rep.rule(rid, "every self-recursive runtime helper whose depth is controlled by script or embedder data (prototype chains, nested/cyclic containers) has a visited set or depth guard", floor=floor)
    for f, calls in self_recursive(ctx):
        if only is not None and f.qual not in only:
            continue
        key = f"{f.qual}:self-recursion"
        if f.qual in BOUNDED_RECURSION:
            # verify the reason still applies: each recursive call passes a literal-valued conditional
            okc = all(any(isinstance(a, ast.IfExp) and isinstance(a.body, ast.Constant) and isinstance(a.orelse, ast.Constant) for a in c.args) for c in calls)
            if okc:
                rep.ok(rid, key, {"bounded_because": BOUNDED_RECURSION[f.qual]})
                continue
        g = _recursion_guard(f)
        if g:
            rep.ok(rid, key, {"guard": g})
        else:
            rep.bad(rid, key, f"{f.qual} recurses on script/embedder-controlled structure ({short(calls[0], 50)}) without a visited set or depth guard: cycles or long chains overflow the host stack", f"{f.module.rel}:{calls[0].lineno}")
