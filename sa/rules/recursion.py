"""Host-recursion rules (C02-R2, C02-R3; reused by C11-R5 and C19-R4)."""

from __future__ import annotations

import ast
from typing import Dict, List, Optional, Set, Tuple

from ..core import AnalysisError, Func, call_name, norm, short, walk_no_nested
from ..util import guards_of, raises_in

import re

_JSFUNC_TEST = re.compile(r"^isinstance\(\w+, JSFunction\)$")

# Self-recursive functions whose recursion depth is bounded by construction, with the reason.
BOUNDED_RECURSION = {
    "vm:VM._abstract_equals": "recurses only after replacing a boolean operand by the literal 1/0, so at most twice",
}


def frame_pushers(ctx) -> List[Func]:
    """Methods of the VM class that push a CallFrame (self.call_stack.append)."""
    df, _ = ctx.facts.vm_dispatcher()
    out = []
    for m in df.cls.methods.values():
        for n in m.own_nodes():
            if isinstance(n, ast.Call) and norm(n.func) == "self.call_stack.append":
                if m.name not in ("run",):
                    out.append(m)
                break
    return out


def rule_no_host_recursion_for_script_calls(ctx, rep, rid: str) -> None:
    rep.rule(rid, "the CALL/CALL_METHOD/NEW handlers run script functions by pushing a frame, never by re-entering a run loop (no host recursion for script-to-script calls)", floor=3)
    df, chain = ctx.facts.vm_dispatcher()
    cg = ctx.cg
    pushers = {id(m) for m in frame_pushers(ctx) if m is not None}
    if not pushers:
        raise AnalysisError("no frame-pushing method found (anchor vanished)")
    loopfuncs = {id(f) for f, _ in ctx.facts.dispatch_loops()}
    for f in list(ctx.tree.funcs):
        if f.name == "run" and f.cls is df.cls:
            loopfuncs.add(id(f))
    for pid in pushers:
        par = cg.reach([cg._func_by_id[pid]])
        hit = [x for x in par if x in loopfuncs]
        key = f"{cg._func_by_id[pid].qual}:pushes-frame"
        if hit:
            rep.bad(rid, key, f"{cg._func_by_id[pid].qual} can reach run loop {cg._func_by_id[hit[0]].qual}: script calls recurse in the host", cg._func_by_id[pid].loc)
        else:
            rep.ok(rid, key, {"frame_pusher": cg._func_by_id[pid].qual})
    for opn in ("CALL", "CALL_METHOD", "NEW"):
        body = chain.body_of(opn)
        if body is None:
            raise AnalysisError(f"dispatcher has no branch for {opn}")
        helpers: List[Func] = []
        for s in body:
            for c in walk_no_nested(s):
                if isinstance(c, ast.Call):
                    cs = cg.site_of_call.get(id(c))
                    if cs and cs.kind == "resolved":
                        helpers.extend(t for t in cs.targets if t.cls is df.cls)
        key = f"{df.qual}:{opn}"
        loc = f"{df.module.rel}:{body[0].lineno}"
        found_push = False
        bad = None
        for h in helpers:
            for n in h.own_nodes():
                if isinstance(n, ast.If) and _JSFUNC_TEST.match(norm(n.test)):
                    roots = []
                    for s in n.body:
                        for c in walk_no_nested(s):
                            if isinstance(c, ast.Call):
                                cs = cg.site_of_call.get(id(c))
                                if cs:
                                    roots.extend(cs.targets)
                                    if any(id(t) in pushers for t in cs.targets):
                                        found_push = True
                    par = cg.reach(roots)
                    hit = [x for x in par if x in loopfuncs]
                    if hit:
                        bad = f"{h.qual}: the JSFunction branch reaches run loop {cg._func_by_id[hit[0]].qual}"
        if bad:
            rep.bad(rid, key, bad + " (script-to-script call recurses in the host)", loc)
        elif not found_push:
            rep.bad(rid, key, f"handler of {opn} never pushes a frame for a JSFunction callee", loc)
        else:
            rep.ok(rid, key, {"handler": loc, "helpers": [h.qual for h in helpers]})


def _has_depth_guard(f: Func, ctx=None, _seen=None) -> Optional[str]:
    """An `if <depth-like> > <bound>: raise <JSError family>` in f, or in a method f calls unconditionally at the
    top level of its body (a shared `enter one more host level` helper). Returns description."""
    if ctx is not None and f.cls is not None:
        _seen = _seen or set()
        if id(f) not in _seen:
            _seen.add(id(f))
            for st in walk_no_nested(f.node):
                if isinstance(st, ast.Expr) and isinstance(st.value, ast.Call) and isinstance(st.value.func, ast.Attribute) and norm(st.value.func.value) == "self":
                    # not under an `if`/loop of f: only try/with blocks may enclose it
                    p = getattr(st, "_parent", None)
                    cond = False
                    while p is not None and p is not f.node:
                        if isinstance(p, (ast.If, ast.For, ast.While)) and not (isinstance(p, ast.If) and "isinstance" in norm(p.test)):
                            cond = True
                        p = getattr(p, "_parent", None)
                    if cond:
                        continue
                    h = ctx.tree.find_method(f.cls, st.value.func.attr)
                    if h is not None and h is not f:
                        g = _has_depth_guard(h, None)
                        if g:
                            return f"{h.name}: {g}"
    for n in f.own_nodes():
        if isinstance(n, ast.If) and isinstance(n.test, ast.Compare) and len(n.test.ops) == 1 and isinstance(n.test.ops[0], (ast.Gt, ast.GtE)):
            left = norm(n.test.left)
            if any(w in left.lower() for w in ("depth", "nesting", "reentr", "recursion")):
                for s in n.body:
                    if isinstance(s, ast.Raise) and s.exc is not None and any(k in norm(s.exc) for k in ("MemoryLimitError", "JSRangeError", "JSError", "JSTypeError", "RangeError")):
                        return f"line {n.lineno}: if {norm(n.test)}: {short(s, 60)}"
    return None


def rule_host_reentry_guarded(ctx, rep, rid: str) -> None:
    rep.rule(rid, "every run loop that script code can re-enter through a native (callbacks, accessors, conversions, call/apply, eval/Function) is protected by a constant host-depth guard that raises a JSError-family error", floor=2)
    cg = ctx.cg
    df, _ = ctx.facts.vm_dispatcher()
    disp_reach = cg.reach([df])
    for f, loop in ctx.facts.dispatch_loops():
        if id(f) not in disp_reach:
            rep.ok(rid, f"{f.qual}:not-reentrant")
            continue
        # direct script-reachable callers of the loop function
        callers = sorted({cs.func.qual: cs.func for cs in cg.sites if any(t is f for t in cs.targets) and id(cs.func) in disp_reach and cs.func is not f}.items())
        g = _has_depth_guard(f, ctx)
        if g:
            rep.ok(rid, f"{f.qual}:reentrant", {"guard": g})
            continue
        unguarded = [qn for qn, caller in callers if not _has_depth_guard(caller, ctx)]
        key = f"{f.qual}:reentrant"
        if not unguarded:
            rep.ok(rid, key, {"guarded_callers": [qn for qn, _ in callers]})
        else:
            rep.bad(rid, key, f"run loop {f.qual} is re-entered from {len(unguarded)} script-reachable caller(s) ({', '.join(u.split(':')[-1] for u in unguarded[:6])}{', ...' if len(unguarded) > 6 else ''}) with no host-depth guard in the loop function or the callers: unbounded native-mediated recursion overflows the host stack", f.loc, {"unguarded_callers": unguarded})


def self_recursive(ctx, modules=("values", "vm", "context")) -> List[Tuple[Func, List[ast.Call]]]:
    """Functions of the runtime modules that call themselves (resolved edges only)."""
    out = []
    for f in ctx.tree.funcs:
        if f.module.name not in modules:
            continue
        calls = []
        for cs in ctx.cg.sites_of[id(f)]:
            if cs.kind == "resolved" and any(t is f for t in cs.targets):
                calls.append(cs.call)
            # method recursion through another object of the same class: self._prototype.get(key)
            elif (
                cs.kind == "byname"
                and isinstance(cs.call.func, ast.Attribute)
                and cs.call.func.attr == f.name
                and f.is_method
                and isinstance(cs.call.func.value, ast.Attribute)
                and norm(cs.call.func.value.value) == "self"
                and _attr_holds_own_class(ctx, f, cs.call.func.value.attr)
            ):
                calls.append(cs.call)
        if calls:
            out.append((f, calls))
    return out


def _attr_holds_own_class(ctx, f: Func, attr: str) -> bool:
    """self.<attr> is assigned (in any method of f's class) from a parameter annotated with the class itself."""
    names = {c.name for c in ctx.tree.mro(f.cls)}
    for c in ctx.tree.mro(f.cls):
        for m in c.methods.values():
            ann = {a.arg: norm(a.annotation) for a in m.node.args.args if a.annotation is not None}
            for n in m.own_nodes():
                if isinstance(n, ast.Assign) and any(norm(t) == f"self.{attr}" for t in n.targets) and isinstance(n.value, ast.Name):
                    if any(nm in ann.get(n.value.id, "") for nm in names):
                        return True
                if isinstance(n, ast.AnnAssign) and norm(n.target) == f"self.{attr}" and any(nm in norm(n.annotation) for nm in names):
                    return True
    return False


def _local_helpers(ctx, f: Func) -> List[Func]:
    """Functions called from f that are resolved (closures, methods) — one level, enough for enter()/leave() helpers."""
    out = []
    for site in ctx.cg.sites_of.get(id(f), []):
        if site.kind == "resolved":
            for t in site.targets:
                if t is not f and t not in out:
                    out.append(t)
    return out


def _guard_containers(ctx, f: Func) -> dict:
    """container name -> (description, function holding the test).  A guard container is a plain name that is
    (a) tested by membership (`x in C`) or scanned for identity (`for a in C: if a is x`) and (b) grown
    (`C.add/append(...)`, `C[k] = ...`) — both inside f or a helper f calls."""
    found = {}
    scope = [f] + _local_helpers(ctx, f)
    grown = set()
    for h in scope:
        for n in h.own_nodes():
            if isinstance(n, ast.Call) and isinstance(n.func, ast.Attribute) and n.func.attr in ("add", "append") and isinstance(n.func.value, ast.Name):
                grown.add(n.func.value.id)
            if isinstance(n, ast.Assign) and any(isinstance(t, ast.Subscript) and isinstance(t.value, ast.Name) for t in n.targets):
                grown.update(t.value.id for t in n.targets if isinstance(t, ast.Subscript) and isinstance(t.value, ast.Name))
    for h in scope:
        for n in h.own_nodes():
            if isinstance(n, ast.Compare) and isinstance(n.ops[0], (ast.In, ast.NotIn)) and isinstance(n.comparators[0], ast.Name) and n.comparators[0].id in grown:
                found.setdefault(n.comparators[0].id, (f"membership test {norm(n)} in {h.name}", h))
            if isinstance(n, ast.For) and isinstance(n.iter, ast.Name) and n.iter.id in grown and isinstance(n.target, ast.Name):
                tv = n.target.id
                for m in ast.walk(n):
                    if isinstance(m, ast.Compare) and isinstance(m.ops[0], ast.Is) and (norm(m.left) == tv or norm(m.comparators[0]) == tv):
                        found.setdefault(n.iter.id, (f"identity scan of {n.iter.id} in {h.name}", h))
    return found


def _uncovered_recursive_calls(ctx, f: Func, calls) -> list:
    """Recursive calls of f that are not preceded, in their own block or an enclosing one, by the guard (a call
    of the helper that holds the membership/identity test, or the test itself)."""
    gc = _guard_containers(ctx, f)
    if not gc:
        return []
    helpers = {h.name for _, h in gc.values() if h is not f}
    tests_inline = any(h is f for _, h in gc.values())

    def is_guard_stmt(st) -> bool:
        # only a statement that runs unconditionally at this level dominates what follows: a simple statement,
        # or the test of an if (not something nested in one of its branches)
        if isinstance(st, (ast.If, ast.While)):
            st = ast.Expr(value=st.test)
        elif isinstance(st, (ast.For, ast.Try, ast.With, ast.FunctionDef)):
            return False
        for n in ast.walk(st):
            if isinstance(n, ast.Call) and isinstance(n.func, ast.Name) and n.func.id in helpers:
                return True
            if isinstance(n, ast.Call) and isinstance(n.func, ast.Attribute) and n.func.attr in helpers:
                return True
            if tests_inline and isinstance(n, ast.Compare) and isinstance(n.ops[0], (ast.In, ast.NotIn)) and isinstance(n.comparators[0], ast.Name) and n.comparators[0].id in gc:
                return True
        return False

    out = []
    for c in calls:
        covered = False
        child, p = c, getattr(c, "_parent", None)
        while p is not None and not covered:
            for field in ("body", "orelse", "finalbody"):
                blk = getattr(p, field, None)
                if isinstance(blk, list) and any(child is x for x in blk):
                    i = [k for k, x in enumerate(blk) if x is child][0]
                    if any(is_guard_stmt(x) for x in blk[:i]):
                        covered = True
            if isinstance(p, (ast.If, ast.While)) and tests_inline and is_guard_stmt(ast.Expr(value=p.test)):
                covered = True
            if isinstance(p, ast.With) and any(child is x for x in p.body) and any(is_guard_stmt(ast.Expr(value=it.context_expr)) for it in p.items):
                covered = True  # the guard is a context manager entered around the recursive call
            if p is f.node:
                break
            child, p = p, getattr(p, "_parent", None)
        if not covered:
            out.append(c)
    return out


def _recursion_guard(f: Func, ctx=None) -> Optional[str]:
    """visited-set / depth-parameter idioms."""
    params = f.params()
    for p in params:
        if any(w in p.lower() for w in ("seen", "visited", "depth", "stack", "memo")):
            return f"parameter {p}"
    if ctx is not None:
        gc = _guard_containers(ctx, f)
        if gc:
            return "; ".join(v[0] for v in gc.values())
    for n in f.own_nodes():
        if isinstance(n, ast.Compare) and isinstance(n.ops[0], (ast.In, ast.NotIn)) and any(w in norm(n.comparators[0]).lower() for w in ("seen", "visited", "stack", "path", "ancestors", "active", "parents")):
            return f"membership test {norm(n)}"
    d = _has_depth_guard(f)
    return d


def rule_data_recursion_guarded(ctx, rep, rid: str, only: Optional[Set[str]] = None, floor: int = 1, only_pred=None) -> None:
    rep.rule(rid, "every self-recursive runtime helper whose depth is controlled by script or embedder data (prototype chains, nested/cyclic containers) has a visited set or depth guard", floor=floor)
    for f, calls in self_recursive(ctx):
        if only is not None and f.qual not in only:
            continue
        if only_pred is not None and not only_pred(f.qual):
            continue
        key = f"{f.qual}:self-recursion"
        if f.qual in BOUNDED_RECURSION:
            # verify the reason still applies: each recursive call passes a literal-valued conditional
            okc = all(any(isinstance(a, ast.IfExp) and isinstance(a.body, ast.Constant) and isinstance(a.orelse, ast.Constant) for a in c.args) for c in calls)
            if okc:
                rep.ok(rid, key, {"bounded_because": BOUNDED_RECURSION[f.qual]})
                continue
        g = _recursion_guard(f, ctx)
        unc = _uncovered_recursive_calls(ctx, f, calls) if g and not g.startswith("parameter") else []
        if g and unc:
            c = unc[0]
            rep.bad(rid, key, f"{f.qual} has a cycle/depth guard ({g}) but the recursive call {short(c, 40)} at line {c.lineno} is not preceded by it on its branch: containers of that kind can still close a cycle or nest without bound", f"{f.module.rel}:{c.lineno}")
        elif g:
            rep.ok(rid, key, {"guard": g})
        else:
            rep.bad(rid, key, f"{f.qual} recurses on script/embedder-controlled structure ({short(calls[0], 50)}) without a visited set or depth guard: cycles or long chains overflow the host stack", f"{f.module.rel}:{calls[0].lineno}")


def rule_cycle_guard_is_path_scoped(ctx, rep, rid: str, only: Set[str]) -> None:
    """A cycle guard that substitutes a placeholder for an already-seen container must forget the container
    once its children are done (an on-path set).  A visited-anywhere set also drops containers that are merely
    shared (reachable twice without a cycle)."""
    rep.rule(rid, "a converter that replaces already-seen containers by a placeholder keeps its seen-set scoped to the current path (entries are removed after the children are converted, or a copy is passed down)", floor=1)
    n = 0
    for f, calls in self_recursive(ctx):
        if f.qual not in only:
            continue
        n += 1
        key = f"{f.qual}:seen-set-scope"
        seen_names = set()
        for x in f.own_nodes():
            if isinstance(x, ast.Compare) and isinstance(x.ops[0], ast.In) and isinstance(x.comparators[0], ast.Name):
                # `id(v) in seen` / `key in seen` guarding a return of a placeholder
                p = getattr(x, "_parent", None)
                if isinstance(p, ast.If) and any(isinstance(s, ast.Return) for s in p.body):
                    seen_names.add(x.comparators[0].id)
        if not seen_names:
            rep.ok(rid, key, {"note": "no placeholder-returning seen-set"})
            continue
        for sn in seen_names:
            adds = [x for x in f.own_nodes() if isinstance(x, ast.Call) and norm(x.func) == f"{sn}.add"]
            removes = [x for x in f.own_nodes() if isinstance(x, ast.Call) and norm(x.func) in (f"{sn}.discard", f"{sn}.remove", f"{sn}.pop")]
            copies = [c for c in calls if any(isinstance(a, ast.BinOp) and sn in norm(a) for a in list(c.args) + [k.value for k in c.keywords])]
            raises_on_seen = False
            for x in f.own_nodes():
                if isinstance(x, ast.If) and isinstance(x.test, ast.Compare) and sn in norm(x.test) and any(isinstance(s, ast.Raise) for s in x.body):
                    raises_on_seen = True
            if adds and not removes and not copies and not raises_on_seen:
                rep.bad(rid, key, f"{f.qual} adds every container to `{sn}` and never removes it, while an already-seen container is replaced by a placeholder: a container that is merely referenced twice (no cycle) is silently dropped from the second occurrence on", f"{f.module.rel}:{adds[0].lineno}")
            else:
                rep.ok(rid, key)
    if n == 0:
        rep.ok(rid, "no-self-recursive-converter")


def rule_guard_state_is_per_call(ctx, rep, rid: str, only: Set[str]) -> None:
    """The container a cycle guard tests must be created by the call that does the conversion (a parameter, or a
    local of the native that starts it) — or be cleaned up in `finally`.  A guard container that lives in the
    factory scope survives an exception thrown half-way and poisons later calls."""
    rep.rule(rid, "the seen/path container of a cycle guard is created per conversion (parameter or local of the entry native) or its entries are removed in a finally block", floor=1)
    n = 0
    natives = ctx.cg.natives
    for f, calls in self_recursive(ctx):
        if not any(o in f.qual for o in only):
            continue
        n += 1
        key = f"{f.qual}:guard-state"
        guards = {g: v for g, v in _guard_containers(ctx, f).items() if g not in f.params()}
        if not guards:
            rep.ok(rid, key, {"note": "no closure guard container"})
            continue
        bad = None
        leak = None
        for gname, (desc, holder) in guards.items():
            owner = None
            h = holder
            while h is not None:
                if any(isinstance(x, (ast.Assign, ast.AnnAssign)) and any(isinstance(t, ast.Name) and t.id == gname for t in (x.targets if isinstance(x, ast.Assign) else [x.target])) for x in h.own_nodes()):
                    owner = h
                    break
                h = h.parent
            if owner is None or owner is f or owner is holder and holder is f:
                continue
            if id(owner) in natives:
                continue  # created by the entry native: one container per conversion
            removes_in_finally = False
            for hh in [f] + _local_helpers(ctx, f):
                for x in hh.own_nodes():
                    if isinstance(x, ast.Try) and x.finalbody and any(gname in norm(st) for st in x.finalbody):
                        removes_in_finally = True
            if not removes_in_finally:
                bad = (gname, owner)
                continue
            # the finally only undoes what was added before its try was entered: a function that adds to the
            # container and can still raise afterwards (the depth test placed after the add) leaks that entry
            for hh in [f] + _local_helpers(ctx, f):
                cfg = ctx.facts.cfg(hh)
                adds = [nd for nd in cfg.nodes if nd.ast is not None and any(isinstance(c, ast.Call) and isinstance(c.func, ast.Attribute) and c.func.attr in ("add", "append") and norm(c.func.value) == gname for c in ast.walk(nd.ast))]
                for ad in adds:
                    # inside a try whose finally removes: covered
                    tries = [x for x in hh.own_nodes() if isinstance(x, ast.Try) and x.finalbody and any(gname in norm(st) for st in x.finalbody) and any(ad.ast is y or any(ad.ast is z for z in ast.walk(y)) for y in x.body)]
                    if tries:
                        continue
                    raises = [nd for nd in cfg.nodes if nd.ast is not None and isinstance(nd.ast, ast.Raise)]
                    for r in raises:
                        if r.id in cfg.reachable([ad.id], set(), None) and r.id != ad.id:
                            leak = (gname, owner, hh, ad, r)
        if leak:
            gname, owner, hh, ad, r = leak
            rep.bad(rid, key, f"{hh.qual} adds to the cycle-guard container `{gname}` (line {ad.line}), which lives in {owner.qual} and outlives the conversion, and can raise after that (line {r.line}) before any try/finally that removes the entry is entered: the refused container stays registered, so later conversions in the same context report acyclic values as circular and lose nesting budget", f"{hh.module.rel}:{r.line}")
            continue
        if bad:
            rep.bad(rid, key, f"{f.qual} keeps its cycle-guard container `{bad[0]}` in {bad[1].qual}, which outlives a single conversion, and never removes entries in a finally block: after a conversion that throws (e.g. on a cycle) the entries stay and later acyclic values are rejected", f.loc)
        else:
            rep.ok(rid, key, {"containers": sorted(guards)})
    if n == 0:
        rep.ok(rid, "no-self-recursive-converter")


# ---- the host-depth budget is ONE counter for all interpreters of an evaluation -----------------------
def _depth_counter_attr(ctx) -> Optional[Tuple[str, Func, ast.If]]:
    """(attribute name, function, guard) of the interpreter's host-depth guard: `if self.<attr>[..] >= bound: raise`."""
    vmcls = ctx.facts.vm_dispatcher()[0].cls
    for m in vmcls.all_methods:
        for n in m.own_nodes():
            if isinstance(n, ast.If) and isinstance(n.test, ast.Compare) and isinstance(n.test.ops[0], (ast.Gt, ast.GtE)) and any(isinstance(s, ast.Raise) and s.exc is not None and "MemoryLimitError" in norm(s.exc) for s in n.body):
                left = n.test.left
                base = left.value if isinstance(left, ast.Subscript) else left
                if isinstance(base, ast.Attribute) and norm(base.value) == "self" and any(w in base.attr.lower() for w in ("depth", "nesting", "level")):
                    return base.attr, m, n
    return None


def _reinit(ctx):
    from .isolation import reinitialisers

    return reinitialisers(ctx)


def rule_depth_budget_shared(ctx, rep, rid: str) -> None:
    """Nested interpreters (eval, Function, host-driven calls) run on the same host stack as the interpreter that
    created them, so the nesting counter has to be one shared cell: adopted by reference when a nested
    interpreter is created while an evaluation runs, and only ever updated in place."""
    rep.rule(rid, "the host-stack nesting counter is one cell per evaluation: every interpreter created by script-reachable code adopts the running interpreter's counter object, and the counter is only updated in place (an adopted immutable number would be a private copy that forgets the levels in between)", floor=3)
    found = _depth_counter_attr(ctx)
    if found is None:
        raise AnalysisError("host-depth guard (if self.<depth> >= bound: raise MemoryLimitError) not found in the interpreter class")
    attr, gf, guard = found
    vmcls = ctx.facts.vm_dispatcher()[0].cls
    sr = ctx.facts.script_reachable()
    n_sites = 0
    adopted = False
    source_is_innermost = True  # until a site is seen that adopts without registering the new interpreter
    for f in ctx.tree.funcs:
        if isinstance(f.node, ast.Lambda):
            continue
        for n in f.own_nodes():
            if not (isinstance(n, ast.Assign) and isinstance(n.value, ast.Call) and call_name(n.value) == vmcls.name and len(n.targets) == 1 and isinstance(n.targets[0], ast.Name)):
                continue
            v = n.targets[0].id
            ad = [a for a in f.own_nodes() if isinstance(a, ast.Assign) and len(a.targets) == 1 and isinstance(a.targets[0], ast.Attribute) and a.targets[0].attr == attr and norm(a.targets[0].value) == v]
            key = f"{f.qual}:{v} = {vmcls.name}(..):adopts-{attr}"
            if id(f) not in sr:
                continue  # a top-level entry point: no evaluation of this context is running on the host stack
            n_sites += 1
            good = [a for a in ad if isinstance(a.value, ast.Attribute) and a.value.attr == attr]
            if good:
                adopted = True
                # does this site make the new interpreter the one later sites adopt from (innermost-running discipline)?
                src = good[0].value.value
                if not any(isinstance(a, ast.Assign) and any(norm(t) == norm(src) for t in a.targets) and isinstance(a.value, ast.Name) and a.value.id == v for a in f.own_nodes()):
                    source_is_innermost = False
                rep.ok(rid, key, {"from": norm(good[0].value)})
            elif ad:
                rep.bad(rid, key, f"{f.qual} sets {v}.{attr} from {short(ad[0].value, 40)} rather than from the running interpreter's {attr}: the nested interpreter counts host levels on its own", f"{f.module.rel}:{ad[0].lineno}")
            else:
                rep.bad(rid, key, f"{f.qual} creates an interpreter while script code is running without adopting the running interpreter's {attr}: nesting through this path is not counted (host stack overflow instead of MemoryLimitError)", f"{f.module.rel}:{n.lineno}")
    if n_sites == 0:
        raise AnalysisError("no script-reachable interpreter creation site found")
    # in-place updates only
    init_ok = False
    for m in vmcls.all_methods:
        for n in m.own_nodes():
            tgts = n.targets if isinstance(n, ast.Assign) else ([n.target] if isinstance(n, (ast.AugAssign, ast.AnnAssign)) else [])
            for t in tgts:
                if isinstance(t, ast.Attribute) and t.attr == attr and norm(t.value) == "self":
                    key = f"{m.qual}:{norm(t)}:binding"
                    val = getattr(n, "value", None)
                    if m.name == "__init__" and isinstance(val, (ast.List, ast.Dict)) or (isinstance(val, ast.Call) and call_name(val) in ("list", "dict")):
                        init_ok = True
                        rep.ok(rid, key, {"initial": short(val, 30)})
                    elif id(m) in _reinit(ctx) and isinstance(val, ast.List):
                        # preparing the interpreter for another top-level run stands for construction
                        rep.ok(rid, key, {"initial": short(val, 30), "re-initialiser": m.name})
                    elif adopted and not source_is_innermost:
                        rep.bad(rid, key, f"{m.qual} re-binds self.{attr} ({short(n, 50)}) although nested interpreters adopt it by assignment: each interpreter then counts on a private copy, and since the interpreter they adopt from is not replaced by the nested one while it runs, an eval/Function nested inside another starts again from the outer value", f"{m.module.rel}:{n.lineno}")
                    else:
                        rep.ok(rid, key)
                elif isinstance(t, ast.Subscript) and isinstance(t.value, ast.Attribute) and t.value.attr == attr and norm(t.value.value) == "self":
                    rep.ok(rid, f"{m.qual}:{norm(t)}:in-place")
    if adopted and not source_is_innermost and not init_ok:
        rep.bad(rid, f"{vmcls.name}.__init__:{attr}:cell", f"self.{attr} is adopted by nested interpreters but is not created as a mutable cell in __init__", gf.loc)


# ---- host wrappers around script-supplied callables cannot be stacked without being counted ------------
def rule_host_wrappers_counted(ctx, rep, rid: str) -> None:
    """A native that the script can hold as a value and that calls a host callable it CAPTURED when it was made
    (fn.call / fn.apply / fn.bind wrappers) can be wrapped in itself any number of times by the script
    (g = g.call in a loop); calling the result nests one host frame per level.  Each such call is either made
    under the host-depth budget, or the wrapper provably never wraps its own kind (bind flattens)."""
    rep.rule(rid, "a script-obtainable host function that calls a callable captured at its creation does so under the host-depth budget, and a callable host object that forwards to a stored target is never constructed around an object of its own class (stacked wrappers cannot overflow the host stack)", floor=2)
    cg = ctx.cg
    sr = ctx.facts.script_reachable()
    natives = {i: v[0] for i, v in cg.natives.items()}
    n_obl = 0
    for w in natives.values():
        if isinstance(w.node, ast.Lambda) or id(w) not in sr:
            continue
        # dynamic calls in w and in the local closures it calls (one level)
        group = [w] + [t for cs in cg.sites_of.get(id(w), []) if cs.kind == "resolved" for t in cs.targets if t.parent is not None and t.parent is w.parent and t is not w]
        for g in group:
            own_names = set(g.params())
            for n in g.own_nodes():
                if isinstance(n, ast.Name) and isinstance(n.ctx, ast.Store):
                    own_names.add(n.id)
            for cs in cg.sites_of.get(id(g), []):
                if cs.kind != "dynamic":
                    continue
                fn = cs.call.func
                if isinstance(fn, ast.Name) and fn.id not in own_names:
                    # a captured callable
                    n_obl += 1
                    key = f"{w.qual}:{fn.id}(..)" + ("" if g is w else f":via {g.name}")
                    guard = _has_depth_guard(g, ctx)
                    if guard:
                        rep.ok(rid, key, {"guard": guard})
                    else:
                        rep.bad(rid, key, f"{w.qual} is a function value scripts can hold, and it calls the captured callable `{fn.id}` ({short(cs.call, 40)}) outside the host-depth budget: wrapping the wrapper in a loop (g = g.{w.name.replace('_fn', '')}) and calling the result overflows the host stack (RecursionError instead of MemoryLimitError)", f"{g.module.rel}:{cs.line}")
                elif isinstance(fn, ast.Attribute) and norm(fn.value) == "self" and w.name == "__call__" and w.cls is not None:
                    # a callable object forwarding to a stored target: never built around its own class
                    n_obl += 1
                    key = f"{w.qual}:self.{fn.attr}(..)"
                    if _has_depth_guard(g, ctx):
                        rep.ok(rid, key, {"guard": "host-depth budget"})
                        continue
                    bad = _constructed_around_itself(ctx, w.cls, fn.attr)
                    if bad is None:
                        rep.ok(rid, key, {"flat": f"every {w.cls.name}(..) gets a target that is not a {w.cls.name}"})
                    elif bad == "open":
                        rep.ok(rid, key, {"note": "targets come from the embedder or a fixed table, not from script-held values"})
                    else:
                        rep.bad(rid, key, f"{w.cls.name} objects forward calls to self.{fn.attr} outside the host-depth budget, and {bad}: a chain of them built by the script nests one host frame per link", w.loc)
    if n_obl == 0:
        raise AnalysisError("no host wrapper around a captured callable found (call/apply/bind helpers vanished?)")


def _constructed_around_itself(ctx, ci, slot: str) -> Optional[str]:
    """None when every construction of class ci passes, for the constructor parameter stored in `slot`, a value that
    cannot be a ci instance: the slot of an existing instance (flattening), or a name excluded by an earlier
    `if isinstance(name, ci): return ...`.  "open" when no construction site takes a script-held value."""
    init = ctx.tree.find_method(ci, "__init__")
    if init is None:
        return f"{ci.name} has no constructor to inspect"
    pname = None
    for n in init.own_nodes():
        if isinstance(n, ast.Assign) and isinstance(n.value, ast.Name) and any(isinstance(t, ast.Attribute) and t.attr == slot and norm(t.value) == "self" for t in n.targets):
            pname = n.value.id
    if pname is None:
        return f"{ci.name}.__init__ does not store a parameter in self.{slot}"
    params = [p for p in init.params() if p != "self"]
    idx = params.index(pname)
    sr = ctx.facts.script_reachable()
    n_sites = 0
    for f in ctx.tree.funcs:
        for n in f.own_nodes():
            if not (isinstance(n, ast.Call) and isinstance(n.func, ast.Name) and ctx.cg._class_visible(n.func.id, f) is ci):
                continue
            arg = n.args[idx] if idx < len(n.args) else next((k.value for k in n.keywords if k.arg == pname), None)
            if arg is None:
                continue
            if id(f) not in sr:
                continue
            n_sites += 1
            if isinstance(arg, ast.Attribute) and arg.attr == slot:
                continue  # the target of an existing instance: by induction not an instance itself
            if isinstance(arg, ast.Name):
                # excluded by an earlier `if isinstance(arg, ci): return` in the same block chain
                excluded = False
                for m in f.own_nodes():
                    if isinstance(m, ast.If) and m.lineno < n.lineno and norm(m.test) == f"isinstance({arg.id}, {ci.name})" and m.body and isinstance(m.body[-1], (ast.Return, ast.Raise)):
                        excluded = True
                if excluded:
                    continue
            return f"{f.qual} constructs one around {short(arg, 30)} (line {n.lineno}), which may itself be a {ci.name}"
    return None if n_sites else "open"


# ---- the guard container travels with the recursion -----------------------------------------------------
def rule_guard_passed_along(ctx, rep, rid: str, only_pred=None, floor: int = 1) -> None:
    """A recursive converter whose cycle/depth guard lives in an optional parameter (`_path=None`, made on the first
    call) has to hand that container to every recursive call: a call that leaves it out starts a fresh, empty one,
    and cycles through that branch (and its depth) are never seen."""
    rep.rule(rid, "a self-recursive converter that keeps its cycle/depth guard in an optional parameter passes that container on in every recursive call (a call without it starts an empty guard: cycles through that branch recurse until the host stack overflows)", floor=floor)
    from ..util import bind_args

    n = 0
    for f, calls in self_recursive(ctx):
        if only_pred is not None and not only_pred(f.qual):
            continue
        if isinstance(f.node, ast.Lambda):
            continue
        a = f.node.args
        defaults = dict(zip([x.arg for x in a.args][len(a.args) - len(a.defaults):], a.defaults))
        optional = [p for p, d in defaults.items() if isinstance(d, ast.Constant) and d.value is None]
        guard_params = []
        for p in optional:
            # the parameter (or a local made from it: `path = [] if p is None else p`) feeds a guard: a membership /
            # identity test, or a helper call that receives it together with the value
            derived = {p}
            for x in f.own_nodes():
                if isinstance(x, ast.Assign) and len(x.targets) == 1 and isinstance(x.targets[0], ast.Name) and any(isinstance(y, ast.Name) and y.id == p for y in ast.walk(x.value)):
                    derived.add(x.targets[0].id)
            used_as_guard = False
            for x in f.own_nodes():
                if isinstance(x, ast.Compare) and isinstance(x.ops[0], (ast.In, ast.NotIn)) and isinstance(x.comparators[0], ast.Name) and x.comparators[0].id in derived:
                    used_as_guard = True
                if isinstance(x, ast.Call) and isinstance(x.func, ast.Attribute) and any(w in x.func.attr.lower() for w in ("enter", "guard", "check", "descend")) and any(isinstance(y, ast.Name) and y.id in derived for y in x.args):
                    used_as_guard = True
                if isinstance(x, ast.Call) and isinstance(x.func, ast.Attribute) and x.func.attr in ("add", "append") and isinstance(x.func.value, ast.Name) and x.func.value.id in derived:
                    used_as_guard = True
            if used_as_guard:
                guard_params.append((p, derived))
        if not guard_params:
            continue
        n += 1
        key = f"{f.qual}:guard-passed-along"
        bad = None
        for c in calls:
            b = bind_args(c, f)
            for p, derived in guard_params:
                arg = b.get(p)
                if arg is None or not (isinstance(arg, ast.Name) and arg.id in derived):
                    bad = (c, p)
        if bad:
            c, p = bad
            rep.bad(rid, key, f"{f.qual} calls itself at line {c.lineno} ({short(c, 40)}) without its guard container `{p}`: that branch starts an empty guard, so a cycle (or unbounded nesting) through it is not detected and the recursion runs into the host's stack limit", f"{f.module.rel}:{c.lineno}")
        else:
            rep.ok(rid, key, {"guard_parameters": [p for p, _ in guard_params], "recursive_calls": len(calls)})
    if n == 0:
        rep.ok(rid, "no-parameter-carried-guard")


# ---- what a converter pushes on its path it pops on every way out ------------------------------------------
def rule_path_entries_released(ctx, rep, rid: str, only_pred) -> None:
    """A converter that registers the container it is working on in a path list (directly, or through a helper
    that appends to the list it is given) has to take it off again on every normal way out: an early `return`
    between the push and the `try/finally` that pops leaves the container registered, so a sibling that refers to it
    again looks like a cycle and every such leftover eats nesting budget."""
    rep.rule(rid, "in the boundary converters and serializers, every path from a push onto the path/guard list (an append, or a helper that appends to the list it is handed) to a normal exit passes the matching pop: nothing returns between the push and the try/finally that undoes it", floor=2)
    # helpers that append to a parameter: name -> parameter position (self excluded)
    pushers: Dict[str, int] = {}
    for h in ctx.tree.funcs:
        if isinstance(h.node, ast.Lambda):
            continue
        ps = [p for p in h.params() if p != "self"]
        for c in h.own_nodes():
            if isinstance(c, ast.Call) and isinstance(c.func, ast.Attribute) and c.func.attr in ("append", "add") and isinstance(c.func.value, ast.Name) and c.func.value.id in ps and not any(isinstance(x, ast.Call) and isinstance(x.func, ast.Attribute) and x.func.attr in ("pop", "discard", "remove") and norm(x.func.value) == c.func.value.id for x in h.own_nodes()):
                pushers[h.name] = ps.index(c.func.value.id)
    # helpers that append to a path list kept on the object itself: name -> attribute
    attr_pushers: Dict[str, str] = {}
    for lst, ps_ in persistent_path_lists(ctx).items():
        for h, _c in ps_:
            attr_pushers[h.name] = lst
    n = 0
    for f in ctx.tree.funcs:
        if isinstance(f.node, ast.Lambda) or not only_pred(f.qual):
            continue
        pushes = []  # (node, list name)
        for c in f.own_nodes():
            if not isinstance(c, ast.Call):
                continue
            if isinstance(c.func, ast.Attribute) and c.func.attr in attr_pushers and norm(c.func.value) in ("self", "ctx") and f.name not in attr_pushers:
                pushes.append((c, attr_pushers[c.func.attr]))
            elif isinstance(c.func, ast.Attribute) and c.func.attr in pushers and norm(c.func.value) in ("self", "ctx") and len(c.args) > pushers[c.func.attr] and isinstance(c.args[pushers[c.func.attr]], ast.Name):
                pushes.append((c, c.args[pushers[c.func.attr]].id))
            elif isinstance(c.func, ast.Name) and c.func.id in pushers and len(c.args) > pushers[c.func.id] and isinstance(c.args[pushers[c.func.id]], ast.Name):
                pushes.append((c, c.args[pushers[c.func.id]].id))
            elif isinstance(c.func, ast.Attribute) and c.func.attr == "append" and isinstance(c.func.value, ast.Name) and c.func.value.id in ("path", "_path", "seen", "stack_path") and f.name not in pushers:
                pushes.append((c, c.func.value.id))
        if not pushes:
            continue
        cfg = ctx.facts.cfg(f)
        for c, lst in pushes:
            pops = {nd.id for nd in cfg.nodes if nd.ast is not None and any(isinstance(x, ast.Call) and isinstance(x.func, ast.Attribute) and x.func.attr in ("pop", "discard", "remove") and norm(x.func.value).replace("ctx.", "self.") == lst for x in ast.walk(nd.ast))}
            if not pops:
                continue  # a list that is never popped here: not a path (judged by the scope rules)
            n += 1
            key = f"{f.qual}:{short(c, 40)}:released"
            start = [nd for nd in cfg.nodes if nd.ast is not None and any(x is c for x in ast.walk(nd.ast))]
            bad = None
            for s in start:
                # exits by `return` / falling off the end; raising is the refusal of the whole conversion
                p = cfg.path_avoiding(s.id, lambda nd: nd.id == cfg.exit.id, pops, None, start_succ=True)
                if p is not None and not any(x.kind == "raise" for x in p):
                    bad = p
            if bad is None:
                rep.ok(rid, key)
            else:
                rep.bad(rid, key, f"{f.qual} pushes onto `{lst}` with `{short(c, 40)}` and can return through lines {[x.line for x in bad if x.line][:6]} without popping it (its other exits pop in a finally): the container stays on the path, so a second reference to it is reported as a cycle and every leftover uses up nesting budget", f"{f.module.rel}:{c.lineno}")
    if n == 0:
        # the converters keep their path through a context manager (its cleanup is the pairing rule's obligation); read
        # as the statements it stands for, that is a registration followed by a try whose finally removes the entry
        uses_with = any(isinstance(w, ast.With) for f in ctx.tree.funcs if not isinstance(f.node, ast.Lambda) and only_pred(f.qual) for w in f.own_nodes())
        guarded_try = any(isinstance(w, ast.Try) and any(isinstance(x, ast.Delete) or (isinstance(x, ast.Call) and isinstance(x.func, ast.Attribute) and x.func.attr in ("pop", "discard", "remove")) for fb in w.finalbody for x in ast.walk(fb)) for f in ctx.tree.funcs if not isinstance(f.node, ast.Lambda) and only_pred(f.qual) for w in f.own_nodes())
        uses_with = uses_with or any(getattr(f.node, "_inlined_cms", None) for f in ctx.tree.funcs if not isinstance(f.node, ast.Lambda) and only_pred(f.qual))
        if not uses_with and not guarded_try:
            raise AnalysisError(f"{rid}: no push/pop pair and no guard context manager found in the converters")
        rep.ok(rid, "converters:path-through-context-manager", {"note": "no explicit push/pop: the path is kept by a context manager"})
        rep.ok(rid, "converters:path-through-context-manager:2", {"note": "see the context-manager cleanup rule"})


# ---- a path list that outlives the conversion stays balanced on every exit, exceptions included ----------
def _attr_aliases(h: Func) -> Dict[str, str]:
    """local name -> attribute expression it aliases (`path = self._converting`)."""
    out: Dict[str, str] = {}
    for a in h.own_nodes():
        if isinstance(a, ast.Assign) and len(a.targets) == 1 and isinstance(a.targets[0], ast.Name) and isinstance(a.value, ast.Attribute) and isinstance(a.value.value, ast.Name) and a.value.value.id in ("self", "ctx"):
            out[a.targets[0].id] = norm(a.value).replace("ctx.", "self.")
    return out


def _list_expr(e: ast.AST, aliases: Dict[str, str]) -> Optional[str]:
    if isinstance(e, ast.Name):
        return aliases.get(e.id)
    if isinstance(e, ast.Attribute) and isinstance(e.value, ast.Name) and e.value.id in ("self", "ctx"):
        return norm(e).replace("ctx.", "self.")
    return None


def persistent_path_lists(ctx, modules=("context",)) -> Dict[str, List[Tuple[Func, ast.Call]]]:
    """Attributes of a long-lived object (self.X) used as a cycle/path guard: some function appends to the attribute
    (directly or through a local alias) and the same function scans it for the identity of, or tests membership of,
    what it appends.  attribute -> [(function, append call)]."""
    out: Dict[str, List[Tuple[Func, ast.Call]]] = {}
    for h in ctx.tree.funcs:
        if isinstance(h.node, ast.Lambda) or h.module.name not in modules:
            continue
        al = _attr_aliases(h)
        for c in h.own_nodes():
            if not (isinstance(c, ast.Call) and isinstance(c.func, ast.Attribute) and c.func.attr in ("append", "add") and len(c.args) == 1):
                continue
            lst = _list_expr(c.func.value, al)
            if lst is None:
                continue
            item = norm(c.args[0])
            tested = False
            for n in h.own_nodes():
                if isinstance(n, ast.For) and _list_expr(n.iter, al) == lst and isinstance(n.target, ast.Name):
                    tv = n.target.id
                    if any(isinstance(m, ast.Compare) and isinstance(m.ops[0], ast.Is) and {norm(m.left), norm(m.comparators[0])} == {tv, item} for m in ast.walk(n)):
                        tested = True
                if isinstance(n, ast.Compare) and isinstance(n.ops[0], (ast.In, ast.NotIn)) and _list_expr(n.comparators[0], al) == lst and norm(n.left) in (item, f"id({item})"):
                    tested = True
            if tested:
                out.setdefault(lst, []).append((h, c))
    return out


def rule_persistent_path_balanced(ctx, rep, rid: str) -> None:
    """A path list kept on the context (not created by the conversion that uses it) survives every exception, so it
    has to be balanced on every way out: whoever registers a container either is still able to refuse before the
    registration, or un-registers before refusing; and each caller un-registers in a `finally` that is entered
    directly after the registration."""
    rep.rule(rid, "a cycle/path list of the boundary converters that lives on the context (an attribute, not a list created by the conversion) is balanced on every exit: the function that registers a container cannot raise after the registration, and every call of it is directly followed by a try whose finally removes the entry; a path that is created per conversion needs neither", floor=1)
    # positive control: the scanner recognises an attribute path list
    ctl = ast.parse("class C:\n    def enter(self, c):\n        p = self._path\n        for a in p:\n            if a is c:\n                raise E()\n        p.append(c)\n")
    fn = ctl.body[0].body[0]
    for n_ in ast.walk(fn):
        for ch in ast.iter_child_nodes(n_):
            ch._parent = n_

    class _F:
        node = fn
        module = type("M", (), {"name": "context"})
        name = "enter"

        def own_nodes(self):
            return list(ast.walk(fn))

    class _T:
        funcs = [_F()]

    if list(persistent_path_lists(type("C", (), {"tree": _T}))) != ["self._path"]:
        raise AnalysisError(f"{rid}: positive control failed (attribute path list not recognised)")
    lists = persistent_path_lists(ctx)
    if not lists:
        rep.ok(rid, "converters:path-per-conversion", {"note": "no path list is kept on a long-lived object: an exception discards the path with the conversion"})
        return
    for lst, pushes in sorted(lists.items()):
        for h, c in pushes:
            cfg = ctx.facts.cfg(h)
            start = [nd for nd in cfg.nodes if nd.ast is not None and any(x is c for x in ast.walk(nd.ast))]
            al = _attr_aliases(h)
            pops = {nd.id for nd in cfg.nodes if nd.ast is not None and any(isinstance(x, ast.Call) and isinstance(x.func, ast.Attribute) and x.func.attr in ("pop", "discard", "remove") and _list_expr(x.func.value, al) == lst for x in ast.walk(nd.ast))}
            key = f"{h.qual}:{lst}:no-refusal-after-registration"
            late = None
            for s in start:
                reach = cfg.reachable([s.id], pops, None)
                for nd in cfg.nodes:
                    if nd.id in reach and nd.id != s.id and nd.ast is not None and isinstance(nd.ast, ast.Raise):
                        late = nd
            if late is not None:
                rep.bad(rid, key, f"{h.qual} appends the container to `{lst}` (line {c.lineno}) and can still refuse it afterwards (raise at line {late.line}) without taking it off: the list lives on the context, so the entry of the refused conversion stays for good; later conversions find an unrelated container 'on their path' (acyclic values reported as circular) and lose one level of nesting budget per refusal", f"{h.module.rel}:{late.line}")
            else:
                rep.ok(rid, key)
            # callers: the registration is directly followed by the try/finally that undoes it
            if pops:
                continue  # the function pops itself: judged by the release rule
            for cs in ctx.cg.sites:
                if not any(t is h for t in cs.targets):
                    continue
                g = cs.func
                st = cs.call
                while not isinstance(st, ast.stmt):
                    st = st._parent
                par = st._parent
                nxt = None
                for field in ("body", "orelse", "finalbody"):
                    blk = getattr(par, field, None)
                    if isinstance(blk, list) and any(q is st for q in blk):
                        i = [k for k, q in enumerate(blk) if q is st][0]
                        nxt = blk[i + 1] if i + 1 < len(blk) else None
                k2 = f"{g.qual}:{short(cs.call, 30)}@{lst}:finally-follows"
                gal = _attr_aliases(g)
                ok = isinstance(nxt, ast.Try) and any(isinstance(x, ast.Call) and isinstance(x.func, ast.Attribute) and x.func.attr in ("pop", "discard", "remove") and _list_expr(x.func.value, gal) == lst for fb in nxt.finalbody for x in ast.walk(fb))
                # or the call itself sits in the body of such a try and nothing before it in that body can leave
                if ok:
                    rep.ok(rid, k2)
                else:
                    rep.bad(rid, k2, f"{g.qual} registers a container with {short(cs.call, 30)} on `{lst}`, which lives on the context, and the next statement is not a try whose finally removes it: an exception in between leaves the entry behind for every later conversion", f"{g.module.rel}:{cs.call.lineno}")


# ---- a native that hands control to a script-supplied native does so under the host-depth budget -------


def _host_call_helpers(ctx) -> Dict[int, Tuple[Func, int, Optional[int]]]:
    """Methods whose body calls one of their own parameters with another parameter spread out (`fn(*args)`):
    id -> (helper, index of the callee parameter, index of the argument-list parameter), self not counted."""
    out = {}
    for f in ctx.tree.funcs:
        if isinstance(f.node, ast.Lambda) or f.cls is None:
            continue
        params = [p for p in f.params() if p != "self"]
        for n in f.own_nodes():
            if isinstance(n, ast.Call) and isinstance(n.func, ast.Name) and n.func.id in params:
                spread = [a.value.id for a in n.args if isinstance(a, ast.Starred) and isinstance(a.value, ast.Name) and a.value.id in params]
                if spread and not any(isinstance(x, ast.Call) and _JSFUNC_TEST.match(norm(x)) for x in f.own_nodes()):
                    out[id(f)] = (f, params.index(n.func.id), params.index(spread[0]))
    return out


def _guard_nodes(ctx, f: Func, cfg) -> Set[int]:
    """CFG nodes of f that charge one host level: a call of a method holding the depth guard, or the guard itself."""
    out = set()
    for nd in cfg.nodes:
        if nd.ast is None:
            continue
        a = nd.ast
        if isinstance(a, ast.If):
            a = a.test
        for x in ast.walk(a) if not isinstance(a, (ast.FunctionDef, ast.ClassDef)) else []:
            if isinstance(x, ast.Call) and isinstance(x.func, ast.Attribute) and f.cls is not None and norm(x.func.value) == "self":
                h = ctx.tree.find_method(f.cls, x.func.attr)
                if h is not None and h is not f and _has_depth_guard(h, None):
                    out.add(nd.id)
    return out


def _site_guarded(ctx, f: Func, call: ast.Call) -> bool:
    """Every path from f's entry to the statement holding `call` charges a host level first."""
    if isinstance(f.node, ast.Lambda):
        return False
    cfg = ctx.facts.cfg(f)
    guards = _guard_nodes(ctx, f, cfg)
    if not guards:
        return False
    at = [nd for nd in cfg.nodes if nd.ast is not None and nd.id not in guards and any(x is call for x in ast.walk(nd.ast if not isinstance(nd.ast, ast.If) else nd.ast.test))]
    if not at:
        return False
    return all(cfg.path_avoiding(cfg.entry.id, lambda nd, t=t: nd.id == t.id, guards, None) is None for t in at)


def rule_native_to_native_counted(ctx, rep, rid: str) -> None:
    """Natives take callbacks, and a callback may itself be a native (forEach handed to forEach, with the array
    holding forEach).  A helper that forwards a caller-supplied argument LIST to a script-supplied host callable is a
    link native -> native of arbitrary arity: a script can close the cycle, every turn of it is a host frame, and
    none of them is a script frame the call-stack limit would count.  Such a forwarding call either charges the
    host-depth budget itself, or cannot be reached from a native except through calls that do."""
    rep.rule(rid, "a helper that forwards a caller-supplied argument list to a script-supplied host callable (a native used as a callback) makes that call under the host-depth budget whenever natives can reach the helper without being charged on the way (native -> native cycles nest host frames only)", floor=1)
    cg = ctx.cg
    helpers = _host_call_helpers(ctx)
    if not helpers:
        raise AnalysisError("no helper calling a host callable with a forwarded argument list found (`fn(*args)` on parameters)")
    # forwarding sites: helper(p, .., lst) where p and lst are parameters of the caller, or p(*lst) with the same
    sites = []
    fixed = []
    for f in ctx.tree.funcs:
        if isinstance(f.node, ast.Lambda) or id(f) in helpers:
            continue
        params = set(f.params()) - {"self"}
        tests = {m.group(1) for n in f.own_nodes() if isinstance(n, ast.Call) for m in [re.match(r"^isinstance\((\w+), JSFunction\)$", norm(n))] if m}
        for cs in cg.sites_of.get(id(f), []):
            c = cs.call
            callee = lst = None
            if cs.kind == "resolved" and any(id(t) in helpers for t in cs.targets):
                h, ci, li = helpers[[id(t) for t in cs.targets if id(t) in helpers][0]]
                if len(c.args) > max(ci, li) and not any(isinstance(a, ast.Starred) for a in c.args):
                    callee, lst = c.args[ci], c.args[li]
            elif cs.kind == "dynamic" and isinstance(c.func, ast.Name):
                callee = c.func
                sp = [a.value for a in c.args if isinstance(a, ast.Starred)]
                lst = sp[0] if sp else ast.List(elts=list(c.args), ctx=ast.Load())
            if callee is None or not isinstance(callee, ast.Name) or callee.id not in tests:
                continue  # not a dispatch on what kind of function value this is
            if isinstance(lst, ast.Name):
                sites.append((f, cs, callee.id, lst.id))
            else:
                fixed.append((f, cs, callee.id, norm(lst)))
    if not sites:
        raise AnalysisError("no site forwarding a caller's argument list to a script-supplied host callable found (callback helper vanished?)")
    # functions natives reach without being charged: follow resolved calls, skipping the ones made under the budget
    q = [v[0] for v in cg.natives.values()]
    par: Dict[int, Optional[int]] = {id(x): None for x in q}
    funcs = {id(x): x for x in q}
    memo: Dict[int, bool] = {}
    while q:
        g = q.pop(0)
        for cs in cg.sites_of.get(id(g), []):
            if cs.kind != "resolved":
                continue
            new = [t for t in cs.targets if id(t) not in par]
            if not new:
                continue
            k = id(cs.call)
            if k not in memo:
                memo[k] = _site_guarded(ctx, g, cs.call)
            if memo[k]:
                continue
            for t in new:
                par[id(t)] = id(g)
                funcs[id(t)] = t
                q.append(t)
    for f, cs, callee, lst in sites:
        key = f"{f.qual}:{callee}(*{lst})"
        loc = f"{f.module.rel}:{cs.line}"
        if _site_guarded(ctx, f, cs.call):
            rep.ok(rid, key, {"charged": "every path to the call passes the host-depth guard", "at": loc})
        elif id(f) not in par:
            rep.ok(rid, key, {"unreachable": "natives reach this helper only through calls made under the budget (the run loop)", "at": loc})
        else:
            chain = []
            cur: Optional[int] = id(f)
            while cur is not None and len(chain) < 6:
                chain.append(funcs[cur].qual.split(":")[-1])
                cur = par.get(cur)
            rep.bad(rid, key, f"{f.qual} hands the caller's argument list `{lst}` to the host callable `{callee}` ({short(cs.call, 50)}) without charging a host level, and natives reach it uncharged ({' <- '.join(chain)}): a native passed to a native as its callback, with itself among the values it is called with (a.push(a.forEach); a.forEach(a.forEach)), recurses in host frames only and ends in the host's RecursionError instead of the engine's limit error", loc)
    for f, cs, callee, lst in fixed:
        rep.ok(rid, f"{f.qual}:{callee}({lst}):fixed-arguments", {"note": "a fixed argument list: closing a cycle needs a native that re-enters with these arguments only; not decided statically", "at": f"{f.module.rel}:{cs.line}"})
