"""Instruction encoding rules (C14-R1..R3, C04-R3)."""

from __future__ import annotations

import ast
from typing import Dict, List, Optional, Set, Tuple

from .. import emit
from ..core import AnalysisError, Func, norm, opcode_member, short, walk_no_nested
from ..util import guards_of, raises_in

CAPS = {1: (255, 256), 2: (65535, 65536)}


def _const_int(e: ast.AST) -> Optional[int]:
    if isinstance(e, ast.Constant) and isinstance(e.value, int):
        return e.value
    return None


def _range_guard(f: Func, var: str, width: int, before_line: int, t) -> Optional[str]:
    """An `if` before `before_line` that compares the unmasked var with the field capacity and raises a JSError-family class."""
    cap = CAPS[width]
    for n in f.own_nodes():
        if not isinstance(n, ast.If) or n.lineno >= before_line:
            continue
        tst = n.test
        txt = norm(tst)
        if var not in [x.id for x in ast.walk(tst) if isinstance(x, ast.Name)]:
            continue
        consts = {c for c in (_const_int(x) for x in ast.walk(tst)) if c is not None}
        if not (consts & set(cap)):
            continue
        if "&" in txt or ">>" in txt:
            continue  # compares a masked value
        if not _precedes_in_block(n, before_line):
            continue  # the guard must be an earlier statement of a block that also contains the write
        for s in n.body:
            if isinstance(s, ast.Raise) and s.exc is not None:
                cls = norm(s.exc.func) if isinstance(s.exc, ast.Call) else norm(s.exc)
                if "JSError" in t.exc_ancestors(f.module, cls.split(".")[-1]):
                    return f"line {n.lineno}: if {txt}: raise {cls}"
    return None


def _checking_helpers(comp, t) -> Dict[str, Tuple[int, int]]:
    """Methods that refuse a value their field cannot hold: name -> (parameter position without self, width).  The
    body has `if <param outside the capacity>: raise <JSError family>` as a top-level statement."""
    out: Dict[str, Tuple[int, int]] = {}
    for m in comp.methods.values():
        if isinstance(m.node, ast.Lambda):
            continue
        ps = [p for p in m.params() if p != "self"]
        for i, p in enumerate(ps):
            for wd in (2, 1):
                for n in m.node.body:
                    if not isinstance(n, ast.If) or p not in [x.id for x in ast.walk(n.test) if isinstance(x, ast.Name)]:
                        continue
                    consts = {c for c in (_const_int(x) for x in ast.walk(n.test)) if c is not None}
                    if not (consts & set(CAPS[wd])) or "&" in norm(n.test) or ">>" in norm(n.test):
                        continue
                    for s in n.body:
                        if isinstance(s, ast.Raise) and s.exc is not None:
                            cls = norm(s.exc.func) if isinstance(s.exc, ast.Call) else norm(s.exc)
                            if "JSError" in t.exc_ancestors(m.module, cls.split(".")[-1]) and m.name not in out:
                                out[m.name] = (i, wd)
    return out


def _checked_position_helpers(comp, t) -> Set[str]:
    """Methods without parameters that return a value after handing it to a checking helper (`_here()`)."""
    chk = _checking_helpers(comp, t)
    out: Set[str] = set()
    for m in comp.methods.values():
        if isinstance(m.node, ast.Lambda) or [p for p in m.params() if p != "self"]:
            continue
        rets = [r for r in m.own_nodes() if isinstance(r, ast.Return) and r.value is not None]
        if not rets or not all(isinstance(r.value, ast.Name) for r in rets):
            continue
        ok = True
        for r in rets:
            v = r.value.id
            passed = [c for c in m.own_nodes() if isinstance(c, ast.Call) and isinstance(c.func, ast.Attribute) and norm(c.func.value) == "self" and c.func.attr in chk and len(c.args) > chk[c.func.attr][0] and norm(c.args[chk[c.func.attr][0]]) == v and c.lineno < r.lineno]
            if not passed:
                ok = False
        if ok:
            out.add(m.name)
    return out


def _helper_guard(f: Func, var: str, width: int, before_line: int, comp, t) -> Optional[str]:
    """`self.<checking helper>(var)` as an earlier statement of a block that also contains the write."""
    chk = _checking_helpers(comp, t)
    for n in f.own_nodes():
        if isinstance(n, ast.Expr) and isinstance(n.value, ast.Call) and isinstance(n.value.func, ast.Attribute) and norm(n.value.func.value) == "self" and n.value.func.attr in chk and n.lineno < before_line:
            pos, wd = chk[n.value.func.attr]
            if wd == width and len(n.value.args) > pos and norm(n.value.args[pos]) == var and _precedes_in_block(n, before_line):
                return f"line {n.lineno}: self.{n.value.func.attr}({var})"
    return None


def _unchecked_explicit_arguments(comp, m: Func, var: str, t) -> Optional[List[Tuple[Func, ast.Call, str]]]:
    """m checks `var` only when the caller left it out (`if var is None: var = self.<checked position>()`).  Then every
    caller that passes it owes the check: returns the call sites whose argument is not a checked position, or None
    when m does not have that shape."""
    cps = _checked_position_helpers(comp, t)
    ps = [p for p in m.params() if p != "self"]
    if var not in ps:
        return None
    shape = False
    for n in m.node.body:
        if isinstance(n, ast.If) and norm(n.test) == f"{var} is None" and len(n.body) == 1 and isinstance(n.body[0], ast.Assign) and norm(n.body[0].targets[0]) == var:
            v = n.body[0].value
            if isinstance(v, ast.Call) and isinstance(v.func, ast.Attribute) and norm(v.func.value) == "self" and v.func.attr in cps:
                shape = True
    if not shape:
        return None
    idx = ps.index(var)

    def checked_value(e: ast.AST, g: Func, depth: int = 0) -> Optional[str]:
        """None when e is a checked position in g, else the text of the unchecked source."""
        if depth > 3:
            return norm(e)
        if isinstance(e, ast.Call) and isinstance(e.func, ast.Attribute) and norm(e.func.value) == "self" and e.func.attr in cps:
            return None
        if isinstance(e, ast.Name):
            defs = [a.value for a in g.own_nodes() if isinstance(a, ast.Assign) and any(isinstance(tg, ast.Name) and tg.id == e.id for tg in a.targets)]
            if not defs:
                return f"{e.id} (not assigned in {g.name})"
            for d in defs:
                r = checked_value(d, g, depth + 1)
                if r is not None:
                    return f"{e.id} = {r}"
            return None
        if isinstance(e, ast.Subscript) and isinstance(e.value, ast.Name):
            apps = [c for c in g.own_nodes() if isinstance(c, ast.Call) and isinstance(c.func, ast.Attribute) and c.func.attr == "append" and norm(c.func.value) == e.value.id and c.args]
            if not apps:
                return f"{e.value.id}[..] (never appended to in {g.name})"
            for c in apps:
                r = checked_value(c.args[0], g, depth + 1)
                if r is not None:
                    return f"{e.value.id}.append({r}) at line {c.lineno}"
            return None
        return short(e, 40)

    bad: List[Tuple[Func, ast.Call, str]] = []
    for g in comp.methods.values():
        for c in g.own_nodes():
            if isinstance(c, ast.Call) and isinstance(c.func, ast.Attribute) and norm(c.func.value) == "self" and c.func.attr == m.name:
                arg = c.args[idx] if len(c.args) > idx else next((k.value for k in c.keywords if k.arg == var), None)
                if arg is None or (isinstance(arg, ast.Constant) and arg.value is None):
                    continue
                r = checked_value(arg, g)
                if r is not None:
                    bad.append((g, c, r))
    return bad


def _precedes_in_block(guard: ast.stmt, write_line: int) -> bool:
    parent = getattr(guard, "_parent", None)
    for field in ("body", "orelse", "finalbody"):
        blk = getattr(parent, field, None)
        if isinstance(blk, list) and guard in blk:
            i = blk.index(guard)
            for later in blk[i + 1 :]:
                end = getattr(later, "end_lineno", later.lineno)
                if later.lineno <= write_line <= end:
                    return True
    return False


def _units_length_checked(ctx, t):
    """(all sinks checked?, [checking functions], first unchecked sink) for the places where the compiler freezes its
    bytecode buffer (`bytes(self.bytecode)`): a sink is checked when its function compares len(self.bytecode) with a
    bound of at most 65536 and raises a JSError-family error above it, before the sink."""
    cached = getattr(ctx, "_units_checked", None)
    if cached is not None:
        return cached
    comp = ctx.tree.class_named("Compiler")
    checkers, unchecked = [], None
    n_sinks = 0
    for m in comp.methods.values():
        sinks = [c for c in m.own_nodes() if isinstance(c, ast.Call) and norm(c.func) == "bytes" and c.args and norm(c.args[0]) == "self.bytecode"]
        if not sinks:
            continue
        n_sinks += len(sinks)
        ok = False
        for i in m.own_nodes():
            if not isinstance(i, ast.If):
                continue
            names = {x.id for x in ast.walk(i.test) if isinstance(x, ast.Name)}
            lens = [a for a in m.own_nodes() if isinstance(a, ast.Assign) and isinstance(a.value, ast.Call) and norm(a.value) == "len(self.bytecode)" and isinstance(a.targets[0], ast.Name)]
            about_len = "len(self.bytecode)" in norm(i.test) or any(a.targets[0].id in names for a in lens)
            if not about_len or not isinstance(i.test, ast.Compare) or not isinstance(i.test.ops[0], (ast.Gt, ast.GtE)):
                continue
            bound = i.test.comparators[0]
            val = _const_int(bound)
            if val is None and isinstance(bound, ast.Attribute):
                for st in comp.node.body:
                    if isinstance(st, ast.Assign) and norm(st.targets[0]) == bound.attr:
                        val = _const_int(st.value)
            if val is None or val > 65536:
                continue
            for s_ in i.body:
                for r in ast.walk(s_):
                    if isinstance(r, ast.Raise) and r.exc is not None:
                        cls = (norm(r.exc.func) if isinstance(r.exc, ast.Call) else norm(r.exc)).split(".")[-1]
                        if "JSError" in t.exc_ancestors(m.module, cls) and all(i.lineno < s0.lineno for s0 in sinks):
                            ok = True
        if ok:
            checkers.append(m.name)
        elif unchecked is None:
            unchecked = f"{m.name} (line {sinks[0].lineno})"
    res = (bool(checkers) and unchecked is None and n_sinks > 0, checkers, unchecked)
    ctx._units_checked = res
    return res


def rule_checked_encoding(ctx, rep, rid: str) -> None:
    rep.rule(rid, "every operand byte the compiler writes into the bytecode is range-checked against its field width (255 / 65535) before any masking, with a JSError-family refusal", floor=2)
    comp = ctx.tree.class_named("Compiler")
    t = ctx.tree
    for m in comp.methods.values():
        writes = []
        for n in m.own_nodes():
            if isinstance(n, ast.Call) and norm(n.func) == "self.bytecode.append" and n.args:
                writes.append((n.args[0], n.lineno))
            elif isinstance(n, ast.Assign) and any(isinstance(tg, ast.Subscript) and norm(tg.value) == "self.bytecode" for tg in n.targets):
                writes.append((n.value, n.lineno))
        by_var: Dict[Tuple[str, int], List[Tuple[ast.AST, int]]] = {}
        for e, line in writes:
            if opcode_member(e) or (_const_int(e) == 0):
                continue
            names = [x.id for x in ast.walk(e) if isinstance(x, ast.Name)]
            if names == ["opcode"] or (isinstance(e, ast.Name) and e.id in ("opcode", "op")):
                continue  # the opcode byte itself (an IntEnum member < 256)
            if not names:
                rep.bad(rid, f"{m.qual}:write:{short(e, 30)}", f"{m.name} writes {short(e, 30)} into the bytecode: not an operand derived from a checked variable", f"{m.module.rel}:{line}")
                continue
            # writes are grouped by the statement block they sit in: one block = one operand field
            blk = 0
            p = getattr(e, "_parent", None)
            while p is not None and not isinstance(p, ast.stmt):
                p = getattr(p, "_parent", None)
            if p is not None:
                blk = id(getattr(p, "_parent", None)) * 2 + (1 if p in getattr(getattr(p, "_parent", None), "orelse", []) else 0)
            by_var.setdefault((names[0], blk), []).append((e, line))
        for (var, _blk), ws in by_var.items():
            wd = 2 if any(">>" in norm(w[0]) for w in ws) else 1
            key = f"{m.qual}:{var}:{wd * 8}-bit"
            line = min(l for _, l in ws)
            g = _range_guard(m, var, wd, line, t) or _helper_guard(m, var, wd, line, comp, t)
            explicit = None if g else _unchecked_explicit_arguments(comp, m, var, t)
            if g:
                rep.ok(rid, key, {"guard": g, "writes": [short(e, 40) for e, _ in ws]})
            elif explicit is not None:
                # the check is made where a position is recorded: every caller that passes one owes it
                if not explicit:
                    rep.ok(rid, key, {"guard": f"`{var}` is a checked position: the default comes from a helper that checks it, and every caller passes one obtained the same way", "writes": [short(e, 40) for e, _ in ws]})
                for g2, c2, src in explicit:
                    rep.bad(rid, f"{m.qual}:{var}:{wd * 8}-bit:{g2.name}:{short(c2, 40)}", f"{m.name} writes `{var}` into a 16-bit field and checks it only when the caller leaves it out; {g2.name} passes `{short(c2.args[-1] if c2.args else c2, 40)}`, which is not a checked position ({src}): a target recorded there above 65535 is written modulo 65536 and the jump lands somewhere else", f"{g2.module.rel}:{c2.lineno}")
            elif wd == 2 and _units_length_checked(ctx, t)[0]:
                # jump targets are positions inside the unit: a unit of at most 65536 bytes has none above 65535
                rep.ok(rid, key, {"guard": "every code unit is refused above 65536 bytes when it is finished", "writes": [short(e, 40) for e, _ in ws], "finishers": _units_length_checked(ctx, t)[1]})
            elif wd == 2 and _units_length_checked(ctx, t)[1]:
                bad_site = _units_length_checked(ctx, t)[2]
                rep.bad(rid, key, f"{m.name} writes `{var}` into a 16-bit field without a range check of its own, relying on the length check made when a code unit is finished ({', '.join(_units_length_checked(ctx, t)[1])}) - but {bad_site} turns the bytecode buffer into a code unit without that check: a unit built there may be longer than 65536 bytes, and its jump targets wrap silently", f"{m.module.rel}:{line}")
            else:
                how = "masked with & 0xFF / >> 8" if wd == 2 else ("masked with & 0xFF" if any("&" in norm(w[0]) for w in ws) else "appended as one byte")
                rep.bad(rid, key, f"{m.name} writes `{var}` into a {wd * 8}-bit field ({how}) without first comparing it with {CAPS[wd][0]} and refusing with a JSError: " + ("larger jump targets wrap silently" if wd == 2 else "operands above 255 are truncated or surface as a host ValueError from bytes()"), f"{m.module.rel}:{line}")


def rule_single_encoder(ctx, rep, rid: str) -> None:
    rep.rule(rid, "only the emit helpers write the bytecode buffer; every other compiler method goes through them", floor=3)
    comp = ctx.tree.class_named("Compiler")
    writers = []
    for m in comp.methods.values():
        for n in m.own_nodes():
            w = False
            if isinstance(n, ast.Call) and norm(n.func).startswith("self.bytecode.") and norm(n.func).split(".")[-1] in ("append", "extend", "insert", "__setitem__"):
                w = True
            if isinstance(n, (ast.Assign, ast.AugAssign)):
                tgts = n.targets if isinstance(n, ast.Assign) else [n.target]
                if any(isinstance(tg, ast.Subscript) and norm(tg.value) == "self.bytecode" for tg in tgts):
                    w = True
            if w:
                writers.append((m, n.lineno))
    # the emit helpers: methods that write an opcode they are GIVEN (a parameter appended to the buffer), and the
    # patch helpers that overwrite operand bytes at a position they are given; their operand writes are the
    # obligations of the range-check rule
    allowed = set()
    for m in comp.methods.values():
        ps = set(m.params()) - {"self"}
        for n in m.own_nodes():
            if isinstance(n, ast.Call) and norm(n.func) == "self.bytecode.append" and n.args and isinstance(n.args[0], ast.Name) and n.args[0].id in ps and n.args[0].id in ("opcode", "op"):
                allowed.add(m.name)
            if isinstance(n, ast.Assign) and any(isinstance(tg, ast.Subscript) and norm(tg.value) == "self.bytecode" and any(isinstance(x, ast.Name) and x.id in ps for x in ast.walk(tg.slice)) for tg in n.targets):
                allowed.add(m.name)
    changed = True
    while changed:
        changed = False
        for m in comp.methods.values():
            if m.name in allowed:
                continue
            ps = set(m.params()) & {"opcode", "op"}
            if ps and any(isinstance(n, ast.Call) and isinstance(n.func, ast.Attribute) and norm(n.func.value) == "self" and n.func.attr in allowed and n.args and isinstance(n.args[0], ast.Name) and n.args[0].id in ps for n in m.own_nodes()):
                allowed.add(m.name)  # hands the opcode it was given to an emit helper and writes its operand itself
                changed = True
    if not allowed:
        raise AnalysisError("no emit helper found in the compiler (anchor vanished)")
    for m, line in writers:
        key = f"{m.qual}:writes-bytecode"
        if m.name in allowed:
            rep.ok(rid, key)
        else:
            rep.bad(rid, key, f"{m.name} writes the bytecode buffer directly, bypassing the range-checked emit helpers", f"{m.module.rel}:{line}")


def decoders(ctx) -> List[Tuple[Func, Set[str], Set[str], bool, int]]:
    """For each dispatch loop: (function, ops decoded with a 16-bit operand, ops with an 8-bit operand, little-endian?, line)."""
    out = []
    for f, loop in ctx.facts.dispatch_loops():
        d16: Set[str] = set()
        d8: Set[str] = set()
        le = False
        line = loop.lineno
        for n in ast.walk(loop):
            if isinstance(n, ast.If) and isinstance(n.test, ast.Compare) and isinstance(n.test.ops[0], ast.In) and isinstance(n.test.comparators[0], (ast.Tuple, ast.List, ast.Set)):
                mem = {opcode_member(e) for e in n.test.comparators[0].elts if opcode_member(e)}
                if not mem:
                    continue
                body = " ; ".join(norm(s) for s in n.body)
                if "<< 8" in body:
                    d16 |= mem
                    le = "| high << 8" in body.replace("(", "").replace(")", "") and "low = bytecode[frame.ip]" in body and "high = bytecode[frame.ip + 1]" in body and "frame.ip += 2" in body
                elif "bytecode[frame.ip]" in body and "frame.ip += 1" in body:
                    d8 |= mem
        out.append((f, d16, d8, le, line))
    return out


def emitted_operands(ctx) -> Tuple[Set[str], Set[str], Set[str]]:
    """(opcodes the compiler emits with an operand, without an operand, via _emit_jump)."""
    comp = ctx.tree.class_named("Compiler")
    with_arg: Set[str] = set()
    without: Set[str] = set()
    jumps: Set[str] = set()
    for m in comp.methods.values():
        dicts: Dict[str, List[str]] = {}
        for n in m.own_nodes():
            if isinstance(n, ast.Assign) and isinstance(n.value, ast.Dict) and isinstance(n.targets[0], ast.Name):
                vals = [opcode_member(v) for v in n.value.values]
                if vals and all(vals):
                    dicts[n.targets[0].id] = vals
            if isinstance(n, ast.Assign) and isinstance(n.value, ast.IfExp) and isinstance(n.targets[0], ast.Name):
                a, b = opcode_member(n.value.body), opcode_member(n.value.orelse)
                if a and b:
                    dicts[n.targets[0].id] = [a, b]
        for n in m.own_nodes():
            if isinstance(n, ast.Call) and norm(n.func) in ("self._emit", "self._emit_jump") and n.args:
                a0 = n.args[0]
                ops = []
                mem = opcode_member(a0)
                if mem:
                    ops = [mem]
                elif isinstance(a0, ast.Subscript) and isinstance(a0.value, ast.Name) and a0.value.id in dicts:
                    ops = dicts[a0.value.id]
                elif isinstance(a0, ast.Name) and a0.id in dicts:
                    ops = dicts[a0.id]
                elif isinstance(a0, ast.Name) and a0.id == "opcode":
                    continue
                else:
                    raise AnalysisError(f"cannot resolve opcode of emit at {m.module.rel}:{n.lineno}")
                if norm(n.func) == "self._emit_jump":
                    jumps.update(ops)
                elif len(n.args) > 1:
                    with_arg.update(ops)
                else:
                    without.update(ops)
    return with_arg, without, jumps


def rule_decoder_agreement(ctx, rep, rid: str) -> None:
    rep.rule(rid, "the compiler's operand widths and every run loop's decoder agree: same 16-bit set, same 8-bit set, little-endian, and no opcode is both emitted bare and decoded with an operand", floor=4)
    comp = ctx.tree.class_named("Compiler")
    enc16: Set[str] = set()
    for s in comp.node.body:
        if isinstance(s, ast.Assign) and norm(s.targets[0]) == "_JUMP_OPCODES":
            enc16 = {opcode_member(e) for e in ast.walk(s.value) if opcode_member(e)}
    with_arg, without, jumps = emitted_operands(ctx)
    # opcodes that go through a helper which writes two operand bytes (low, high) are 16-bit as well
    two_byte_helpers = {m.name for m in comp.methods.values() if any(isinstance(n, ast.BinOp) and isinstance(n.op, ast.RShift) and isinstance(n.right, ast.Constant) and n.right.value == 8 for n in m.own_nodes()) or sum(1 for n in m.own_nodes() if isinstance(n, ast.Call) and norm(n.func) == "self.bytecode.append") >= 3}
    if "_emit_jump" in two_byte_helpers:
        enc16 = enc16 | jumps
    # helpers ALL of whose operand writes are the (low, high) pair: every opcode handed to one is 16-bit
    wide_only = set()
    for m in comp.methods.values():
        if m.name not in two_byte_helpers:
            continue
        ps = set(m.params()) - {"self", "opcode", "op"}
        plain = [n for n in m.own_nodes() if isinstance(n, ast.Call) and norm(n.func) == "self.bytecode.append" and n.args and isinstance(n.args[0], ast.Name) and n.args[0].id in ps]
        if not plain:
            wide_only.add(m.name)
    for m in comp.methods.values():
        for n in m.own_nodes():
            if isinstance(n, ast.Call) and isinstance(n.func, ast.Attribute) and norm(n.func.value) == "self" and n.func.attr in wide_only and n.func.attr not in ("_emit", "_emit_jump") and n.args:
                mem = opcode_member(n.args[0])
                if mem:
                    enc16.add(mem)
                    with_arg.add(mem)
    # the encoder itself: a branch of it that writes (low, high) names its opcodes in its condition, and an opcode the
    # encoder substitutes for the one it was given (a wide form chosen by the size of the operand) is emitted too
    for m in comp.methods.values():
        if m.name not in two_byte_helpers or isinstance(m.node, ast.Lambda):
            continue
        for br in m.own_nodes():
            if not isinstance(br, ast.If):
                continue
            writes_high = any(isinstance(x, ast.BinOp) and isinstance(x.op, ast.RShift) and isinstance(x.right, ast.Constant) and x.right.value == 8 for b in br.body for x in ast.walk(b) if not isinstance(b, ast.If) or True)
            direct = any(isinstance(x, ast.BinOp) and isinstance(x.op, ast.RShift) for b in br.body if not isinstance(b, ast.If) for x in ast.walk(b))
            if writes_high and direct:
                for c in ast.walk(br.test):
                    if isinstance(c, ast.Compare) and len(c.ops) == 1 and isinstance(c.ops[0], ast.Eq):
                        mem = opcode_member(c.comparators[0]) or opcode_member(c.left)
                        if mem:
                            enc16.add(mem)
                            with_arg.add(mem)
        for a in m.own_nodes():
            if isinstance(a, ast.Assign) and len(a.targets) == 1 and isinstance(a.targets[0], ast.Name) and a.targets[0].id in ("opcode", "op") and opcode_member(a.value):
                with_arg.add(opcode_member(a.value))
    if not enc16:
        raise AnalysisError("the compiler's 16-bit operand set was not found (neither a table consulted by _emit nor a two-byte emit helper)")
    enc8 = with_arg - enc16
    decs = decoders(ctx)
    if len(decs) < 2:
        raise AnalysisError(f"only {len(decs)} decoders found")
    handled = ctx.facts.vm_dispatcher()[1].handled()
    for f, d16, d8, le, line in decs:
        loc = f"{f.module.rel}:{line}"
        key = f"{f.qual}:decoder"
        if d16 != enc16:
            rep.bad(rid, f"{key}:16-bit", f"{f.qual} decodes 16-bit operands for {sorted(d16)} but the compiler encodes them for {sorted(enc16)} (difference: {sorted(d16 ^ enc16)})", loc)
        else:
            rep.ok(rid, f"{key}:16-bit", {"ops": sorted(d16)})
        if not le:
            rep.bad(rid, f"{key}:endianness", f"{f.qual} does not read 16-bit operands as low | (high << 8) advancing ip by 2", loc)
        else:
            rep.ok(rid, f"{key}:endianness")
        missing = enc8 - d8
        extra = (d8 & without) | (d8 - enc8 - (set(handled) - with_arg - without))
        for op in sorted(missing):
            rep.bad(rid, f"{key}:8-bit:{op}", f"the compiler emits {op} with an operand byte but {f.qual} does not decode one: the operand is executed as an opcode and the handler gets arg=None", loc)
        for op in sorted(d8 & without):
            rep.bad(rid, f"{key}:8-bit:{op}", f"{f.qual} decodes an operand byte for {op}, which the compiler emits bare: the next opcode is swallowed", loc)
        if not missing and not (d8 & without):
            rep.ok(rid, f"{key}:8-bit", {"ops": sorted(d8)})
    # jump opcodes emitted through _emit_jump must be in the 16-bit set
    for op in sorted(jumps | (with_arg & enc16)):
        if op not in enc16:
            rep.bad(rid, f"compiler:jump:{op}", f"{op} is emitted as a jump but is not in the compiler's 16-bit operand set", f"{comp.module.rel}:{comp.node.lineno}")
    # every emitted opcode has a handler
    for op in sorted((with_arg | without | jumps) - set(handled)):
        rep.bad(rid, f"compiler:unhandled:{op}", f"the compiler emits {op} but the dispatcher has no branch for it (host NotImplementedError at run time)", f"{comp.module.rel}:{comp.node.lineno}")
    rep.ok(rid, "compiler:emitted-subset-of-handled", {"emitted": len(with_arg | without | jumps), "handled": len(handled)})
