"""C01-R8 / C20-R3: every `while` loop in script-reachable runtime code (other than the polled run
loops and the regex matcher loops) has one of the terminating shapes the package uses."""

from __future__ import annotations

import ast
from typing import Dict, List, Optional, Set, Tuple

from ..cfg import CFG, path_str
from ..util import guards_of
from ..core import AnalysisError, Func, norm, short, walk_no_nested


def _assigned_names(stmts: List[ast.stmt]) -> Set[str]:
    out = set()
    for s in stmts:
        for n in ast.walk(s):
            if isinstance(n, ast.Name) and isinstance(n.ctx, ast.Store):
                out.add(n.id)
    return out


def _at_least_one(e: ast.AST, f: Func) -> bool:
    """`1 + width` / `width + 1` / `width` where every assignment of the local in the function is an int constant
    that keeps the sum >= 1."""
    def lower(x: ast.AST) -> Optional[int]:
        if isinstance(x, ast.Constant) and isinstance(x.value, int) and not isinstance(x.value, bool):
            return x.value
        if isinstance(x, ast.Name):
            vals = [a.value for a in f.own_nodes() if isinstance(a, ast.Assign) and any(isinstance(t, ast.Name) and t.id == x.id for t in a.targets)]
            if vals and all(isinstance(v, ast.Constant) and isinstance(v.value, int) and not isinstance(v.value, bool) for v in vals) and not any(isinstance(a, ast.AugAssign) and isinstance(a.target, ast.Name) and a.target.id == x.id for a in f.own_nodes()):
                return min(v.value for v in vals)
            return None
        if isinstance(x, ast.BinOp) and isinstance(x.op, ast.Add):
            l, r = lower(x.left), lower(x.right)
            return None if l is None or r is None else l + r
        return None

    v = lower(e)
    return v is not None and v >= 1


def classify_loop(f: Func, loop: ast.While, cfg: CFG) -> Tuple[Optional[str], str]:
    """(shape, detail) or (None, reason)."""
    test = loop.test
    ttxt = norm(test)
    head = cfg.loop_head[id(loop)]
    within = cfg.loop_nodes[id(loop)]

    def every_path_passes(pred) -> Optional[List]:
        blocked = {n.id for n in cfg.nodes if n.id in within and n.ast is not None and n.kind == "stmt" and pred(n.ast)}
        if not blocked:
            return []
        return cfg.path_avoiding(head.id, lambda n: n.id == head.id, blocked, within, start_succ=True)

    names = [n.id for n in ast.walk(test) if isinstance(n, ast.Name)]
    # S-shrink: the condition is about the length/truthiness of a container that every iteration pops
    for n in ast.walk(test):
        if isinstance(n, ast.Attribute) or isinstance(n, ast.Name):
            base = norm(n)
            p = every_path_passes(lambda a, b=base: any(isinstance(c, ast.Call) and norm(c.func) == f"{b}.pop" for c in walk_no_nested(a)))
            if p is None:
                return "shrinking-container", f"every iteration pops {base}"
    # S-chain: a link walk `v = v._prototype` / getattr(v, "_prototype", None)
    for v in names:
        def advances(a, v=v):
            if isinstance(a, ast.Assign) and any(isinstance(t, ast.Name) and t.id == v for t in a.targets):
                val = a.value
                # v = v.<link>  /  v = getattr(v, "<link>", None): one step along a linked structure
                if isinstance(val, ast.Attribute) and isinstance(val.value, ast.Name) and val.value.id == v:
                    return True
                if isinstance(val, ast.Call) and norm(val.func) == "getattr" and len(val.args) >= 2 and isinstance(val.args[0], ast.Name) and val.args[0].id == v:
                    return True
            return False

        p = every_path_passes(advances)
        if p is None:
            return "link-walk", f"every iteration follows a link of {v} (prototype chains are kept acyclic: C01-R8b)"
    # S-count: an integer variable compared in the test moves monotonically on every path
    for v in names:
        def steps(a, v=v):
            if isinstance(a, ast.AugAssign) and isinstance(a.target, ast.Name) and a.target.id == v:
                if isinstance(a.op, (ast.Add, ast.Sub)) and isinstance(a.value, ast.Constant) and isinstance(a.value.value, int) and a.value.value > 0:
                    return True
                if isinstance(a.op, (ast.Add, ast.Sub)) and _at_least_one(a.value, f):
                    return True
                if isinstance(a.op, (ast.FloorDiv, ast.RShift, ast.LShift)):
                    return True
            if isinstance(a, ast.Assign) and any(isinstance(t, ast.Name) and t.id == v for t in a.targets):
                t = norm(a.value)
                # pos = last_end if match_len > 0 else result.index + 1  (both strictly beyond the previous pos)
                if "+ 1" in t and (".index" in t or v in t):
                    return True
                if t.startswith(f"{v} + ") or t.startswith(f"{v} - "):
                    return True
            return False

        p = every_path_passes(steps)
        if p is None:
            return "monotone-counter", f"every iteration moves {v}"
    return None, f"no recognised progress towards `{short(test, 50)}` on every iteration path"


def rule_native_loops_terminate(ctx, rep, rid: str) -> None:
    rep.rule(rid, "every while loop in script-reachable runtime code that is not a polled run loop makes progress on every iteration path (shrinks its container, follows an acyclic link, or moves a counter)", floor=8)
    sr = ctx.facts.script_reachable()
    skip = {id(l) for _, l in ctx.facts.dispatch_loops()} | {id(l) for _, l in ctx.facts.matcher_loops()}
    for f in ctx.tree.funcs:
        if f.module.name not in ("vm", "context", "values", "regex.regex") or isinstance(f.node, ast.Lambda):
            continue
        if id(f) not in sr and f.module.name != "regex.regex":
            continue
        loops = [n for n in f.own_nodes() if isinstance(n, ast.While) and id(n) not in skip]
        if not loops:
            continue
        cfg = ctx.facts.cfg(f)
        for loop in loops:
            shape, detail = classify_loop(f, loop, cfg)
            key = f"{f.qual}:while {short(loop.test, 40)}"
            if shape:
                rep.ok(rid, key, {"shape": shape, "why": detail})
            else:
                rep.bad(rid, key, f"{f.qual}: `while {short(loop.test, 50)}` has {detail}: with a suitable script value it spins inside one interpreter step, where the time limit is never polled", f"{f.module.rel}:{loop.lineno}")


def rule_prototype_chains_acyclic(ctx, rep, rid: str) -> None:
    rep.rule(rid, "a prototype link of an existing object is only set to a script-supplied object after walking that object's chain to exclude a cycle (fresh objects cannot close a cycle)", floor=3)
    from .objmodel import _defs_of
    from ..core import call_name

    for f in ctx.tree.funcs:
        if f.module.name not in ("vm", "values", "context"):
            continue
        for n in f.own_nodes():
            if not (isinstance(n, ast.Assign) and isinstance(n.targets[0], ast.Attribute) and n.targets[0].attr == "_prototype"):
                continue
            tgt = n.targets[0].value
            val = n.value
            key = f"{f.qual}:{norm(n.targets[0])} = {short(val, 30)}"
            if isinstance(val, ast.Constant) and val.value is None:
                rep.ok(rid, key)
                continue
            # the object whose link is set: fresh (constructed in this function) or `self` inside __init__
            fresh = False
            if isinstance(tgt, ast.Name):
                fresh = any(isinstance(d, ast.Call) and (call_name(d).startswith("JS") or call_name(d) in ("array_class",)) for d in _defs_of(f, tgt.id))
                if tgt.id == "self" and f.name == "__init__":
                    fresh = True
            if not fresh and isinstance(tgt, ast.Name) and tgt.id == "self" and f.cls is not None and f.name != "__init__":
                # a method that links `self`: fresh when every call of it is made on an object its caller has just built
                sites = [cs for cs in ctx.cg.sites if any(t is f for t in cs.targets)]
                def recv_fresh(cs) -> bool:
                    fn_ = cs.call.func
                    if not (isinstance(fn_, ast.Attribute) and isinstance(fn_.value, ast.Name)):
                        return False
                    return any(isinstance(d, ast.Call) and call_name(d).startswith("JS") for d in _defs_of(cs.func, fn_.value.id))
                if sites and all(recv_fresh(cs) for cs in sites):
                    fresh = True
            if fresh:
                rep.ok(rid, key, {"target": "fresh object"})
                continue
            # a function object is not part of any prototype chain: its `_prototype` attribute is the
            # `prototype` PROPERTY, only ever linked into FRESH instances by `new`
            if isinstance(tgt, ast.Name) and any(pol and norm(t_) == f"isinstance({tgt.id}, JSFunction)" for t_, pol in guards_of(n, f.node)):
                rep.ok(rid, key, {"target": "prototype property of a function object"})
                continue
            # existing object: need a cycle walk before
            walk = False
            for w in f.own_nodes():
                if isinstance(w, ast.While) and w.lineno < n.lineno:
                    body = " ".join(norm(s) for s in w.body)
                    if "_prototype" in body and f"is {norm(tgt)}" in body and "raise" in body:
                        walk = True
            if walk:
                rep.ok(rid, key, {"guard": "cycle walk"})
            else:
                rep.bad(rid, key, f"{f.qual} links an existing object to a script-supplied prototype without excluding a cycle: every later chain walk (property lookup, in, instanceof) can loop or recurse forever", f"{f.module.rel}:{n.lineno}")
