"""Exception-discipline rules: C04-R1/R4, C07-R4..R7, C10-R1 and friends."""

from __future__ import annotations

import ast
from typing import Dict, List, Optional, Set, Tuple

from .. import emit
from ..core import AnalysisError, Func, call_name, const_str, norm, short, walk_no_nested
from ..util import guards_of, raises_in, try_handlers_enclosing

LIMIT_ERRORS = ("TimeLimitError", "MemoryLimitError")


def own_js_name(ctx, ci) -> Optional[str]:
    """The JS error name an errors-module class gives itself (second argument of super().__init__, or the
    default of the base class's `name` parameter)."""
    for c in ctx.tree.mro(ci):
        init = c.methods.get("__init__")
        if init is None:
            continue
        for n in init.own_nodes():
            if isinstance(n, ast.Call) and isinstance(n.func, ast.Attribute) and n.func.attr == "__init__" and len(n.args) >= 2 and isinstance(n.args[1], ast.Constant):
                return n.args[1].value
        a = init.node.args
        names = [x.arg for x in a.args]
        if "name" in names:
            k = names.index("name") - (len(names) - len(a.defaults))
            if 0 <= k < len(a.defaults) and isinstance(a.defaults[k], ast.Constant):
                return a.defaults[k].value
    return None


def converted_classes(ctx) -> Dict[str, str]:
    """Exception classes that the main run loop turns into script-level throws: class -> JS error name.

    For every class of the errors module the handler chain around the dispatcher call is simulated in order:
    the first handler that catches the class decides.  A handler that calls _handle_python_exception converts
    (with a literal name, or with the exception's own `name`); a handler that only re-raises does not."""
    out: Dict[str, str] = {}
    t = ctx.tree
    disp = {id(f) for f, _ in ctx.facts.dispatchers()}
    errors_mod = t.mod("errors")
    classes = [ci for ci in errors_mod.classes.values() if "JSError" in t.exc_ancestors(errors_mod, ci.name)]
    scopes = [(f, loop) for f, loop in ctx.facts.dispatch_loops()] + [(w, w.node) for w in ctx.facts.dispatch_wrappers()]
    for f, loop in scopes:
        for n in ast.walk(loop):
            if isinstance(n, ast.Try):
                calls_disp = any(isinstance(c, ast.Call) and (ctx.cg.site_of_call.get(id(c)) and any(id(t_) in disp for t_ in ctx.cg.site_of_call[id(c)].targets)) for s in n.body for c in ast.walk(s))
                if not calls_disp:
                    continue
                for ci in classes:
                    for h in n.handlers:
                        if not t.handler_catches(f.module, h, ci.name, errors_mod):
                            continue
                        for c in ast.walk(ast.Module(body=h.body, type_ignores=[])):
                            if isinstance(c, ast.Call) and call_name(c) == "_handle_python_exception" and c.args:
                                a0 = c.args[0]
                                if isinstance(a0, ast.Constant):
                                    out[ci.name] = a0.value
                                elif isinstance(a0, ast.Attribute) and a0.attr == "name" and isinstance(a0.value, ast.Name) and a0.value.id == h.name:
                                    nm = own_js_name(ctx, ci)
                                    if nm:
                                        out[ci.name] = nm
                        break  # first matching handler decides
    return out


# ------------------------------------------------------------------ C07-R4
def rule_finally_placement(ctx, rep, rid: str) -> None:
    rep.rule(rid, "the try lowering compiles the finally block on every way out of its own try: normal end, after catch, rethrow without catch, throw from the catch clause, and (through try_stack) break/continue/return from try or catch", floor=4)
    ea = emit.get(ctx)
    brs = [b for b in ea.run_chain("_compile_statement") if "TryStatement" in b.cls.split("|")]
    if not brs:
        raise AnalysisError("no TryStatement branch in the statement compiler")
    _finally_placement_of(rep, rid, ea, brs[0], "")
    # every other dispatcher that compiles try statements itself (the completion-value compiler) owes the same
    for other in sorted(ea.methods):
        if other == "_compile_statement" or not other.startswith("_compile_statement"):
            continue
        try:
            obrs = [b for b in ea.run_chain(other) if "TryStatement" in b.cls.split("|")]
        except AnalysisError:
            continue
        for ob in obrs:
            _finally_placement_of(rep, rid, ea, ob, other + ":")


def _finally_placement_of(rep, rid: str, ea, br, prefix: str) -> None:
    loc = f"{ea.comp.module.rel}:{br.line}"
    done: Set[str] = set()
    for e in br.ends:
        if e.raised:
            continue
        has_h, has_f = e.dec.get("node.handler"), e.dec.get("node.finalizer")
        evs = e.events
        n_try = sum(1 for x in evs if x[0] == "emit" and x[1] == "TRY_START")
        n_fin = sum(1 for x in evs if x[0] == "stmt" and x[1] == "node.finalizer")
        order = [(x[0], x[1] if len(x) > 1 else None) for x in evs]
        # handler typestate on the normal path: every TRY_START is matched by a TRY_END emitted after the
        # protected statement (the exceptional path pops the record in _throw)
        n_end = sum(1 for x in evs if x[0] == "emit" and x[1] == "TRY_END")
        shape = f"handler={bool(has_h)},finalizer={bool(has_f)}"
        k2 = f"{prefix}TryStatement:{shape}:try-end"
        if k2 not in done:
            done.add(k2)
            i_blk = next((i for i, x in enumerate(evs) if x[0] in ("stmt", "value") and x[1] == "node.block"), None)
            i_end = next((i for i, x in enumerate(evs) if x[0] == "emit" and x[1] == "TRY_END"), None)
            if n_end == n_try and i_blk is not None and i_end is not None and i_blk < i_end:
                rep.ok(rid, k2)
            else:
                rep.bad(rid, k2, f"the try lowering emits {n_try} TRY_START but {n_end} TRY_END after the protected block ({shape}): on normal completion the handler record stays registered and a later, unrelated throw jumps into this catch clause", loc)
        if has_f:
            key = "catch+finally" if has_h else "finally-only"
            if key in done:
                continue
            done.add(key)
            if has_h:
                # a throw from the catch body must still run the finalizer: needs a second protected region
                if n_try < 2 or n_fin < 2:
                    rep.bad(rid, f"{prefix}TryStatement:{key}:throw-from-catch", f"with both catch and finally, the catch body is compiled outside any TRY_START region ({n_try} TRY_START, finalizer compiled {n_fin}x): an exception thrown by the catch clause skips the finally block", loc)
                else:
                    rep.ok(rid, f"{prefix}TryStatement:{key}:throw-from-catch")
            else:
                # handler path: finalizer then THROW
                idx_f = [i for i, x in enumerate(evs) if x[0] == "stmt" and x[1] == "node.finalizer"]
                idx_t = [i for i, x in enumerate(evs) if x[0] == "emit" and x[1] == "THROW"]
                if len(idx_f) >= 2 and idx_t and idx_f[0] < idx_t[0]:
                    rep.ok(rid, f"{prefix}TryStatement:{key}:rethrow", {"events": [str(x[:2]) for x in evs if x[0] in ("emit", "stmt")][:14]})
                else:
                    rep.bad(rid, f"{prefix}TryStatement:{key}:rethrow", "try…finally without catch does not compile `finalizer; THROW` as its exception handler", loc)
            # normal path finalizer is the last compile event
            last = [x for x in evs if x[0] in ("stmt", "expr", "value")][-1]
            if last[1] == "node.finalizer":
                rep.ok(rid, f"{prefix}TryStatement:{key}:normal-exit")
            else:
                rep.bad(rid, f"{prefix}TryStatement:{key}:normal-exit", "the finally block is not the last thing compiled on the normal path", loc)
            # the try context (carrying the finalizer) is on loop_stack exactly while the try block and the catch
            # body are compiled, and never while the finalizer itself is compiled
            problems = []
            for i, x in enumerate(evs):
                if x[0] in ("stmt", "value") and i > 0 and evs[i - 1][0] == "ctxs":
                    snap = evs[i - 1][1]
                    declares = any(c[2] == "node.finalizer" and c[3] for c in snap)
                    if x[1] in ("node.block", "node.handler.body") and not declares:
                        problems.append(f"{x[1]} is compiled without a try context that carries the finalizer on loop_stack: break/continue/return inside it skip the finally block")
                    if x[1] == "node.finalizer" and declares:
                        problems.append("the finalizer is compiled while its own try context is still on loop_stack: a break/continue/return inside the finally block runs it again")
            if not problems:
                rep.ok(rid, f"{prefix}TryStatement:{key}:abrupt-exits", {"loop_stack": "the try context carrying the finalizer is pushed before the try block and popped before every copy of the finalizer"})
            else:
                rep.bad(rid, f"{prefix}TryStatement:{key}:abrupt-exits", problems[0], loc)
        elif has_f is False and "no-finally" not in done:
            done.add("no-finally")
            if n_fin == 0 and not any(x[0] == "ctxs" and any(c[2] and c[3] for c in x[1]) and False for x in evs):
                rep.ok(rid, f"{prefix}TryStatement:no-finally")
            else:
                rep.bad(rid, f"{prefix}TryStatement:no-finally", "a try without finally compiles a finalizer or registers one", loc)


# ------------------------------------------------------------------ C07-R5
def rule_catchable_classes(ctx, rep, rid: str, only_funcs: Optional[Set[str]] = None, floor: int = 30, only_pred=None) -> None:
    rep.rule(rid, "every error a script-reachable function raises on purpose is of a class the run loop converts into a script exception of the matching constructor (limit errors and the uncaught-exception report excepted); ReferenceError is raised only by identifier resolution", floor=floor)
    conv = converted_classes(ctx)
    if not conv:
        raise AnalysisError("the run loop converts no exception class (anchor vanished)")
    sr = ctx.facts.script_reachable()
    t = ctx.tree
    df, chain = ctx.facts.vm_dispatcher()
    errors_mod = t.mod("errors")
    resolution_ops = {"LOAD_NAME", "STORE_NAME", "LOAD_CLOSURE", "STORE_CLOSURE", "LOAD_CELL", "STORE_CELL", "TYPEOF_NAME"}
    for f in t.funcs:
        if id(f) not in sr:
            continue
        if f.module.name.startswith("regex") or f.module.name in ("parser", "lexer", "compiler"):
            continue
        if only_funcs is not None and not any(f.qual.startswith(p) for p in only_funcs):
            continue
        if only_pred is not None and not only_pred(f.qual):
            continue
        for n in f.own_nodes():
            if not (isinstance(n, ast.Raise) and n.exc is not None):
                continue
            cls = norm(n.exc.func) if isinstance(n.exc, ast.Call) else norm(n.exc)
            cls = cls.split(".")[-1]
            anc = t.exc_ancestors(f.module, cls)
            if "JSError" not in anc:
                continue  # host classes are C04-R1's business
            key = f"{f.qual}:raise {cls}({short(n.exc.args[0], 40) if isinstance(n.exc, ast.Call) and n.exc.args else ''})"
            loc = f"{f.module.rel}:{n.lineno}"
            if cls in LIMIT_ERRORS:
                rep.ok(rid, key)
                continue
            if f.name == "_throw":
                rep.ok(rid, key, {"role": "uncaught script exception reported to the embedder"})
                continue
            if cls not in conv:
                rep.bad(rid, key, f"{f.qual} raises {cls}, which the run loop does not convert into a script exception (converted: {sorted(conv)}): try/catch in the script cannot catch it and it aborts the whole eval", loc)
                continue
            if cls == "JSReferenceError":
                in_res = False
                if f is df:
                    for mem, body, ifn in chain.branches:
                        if any(n in list(ast.walk(s)) for s in body) and set(mem) & resolution_ops:
                            in_res = True
                if not in_res:
                    rep.bad(rid, key, f"{f.qual} raises JSReferenceError for an argument-range failure: the script sees a ReferenceError where ECMAScript specifies a RangeError", loc)
                    continue
            rep.ok(rid, key)


# ------------------------------------------------------------------ C07-R6
def rule_source_map_per_function(ctx, rep, rid: str) -> None:
    rep.rule(rid, "every CompiledFunction is constructed with its own source_map (offsets relative to its own bytecode), so runtime errors carry a location in every function", floor=3)
    comp = ctx.tree.class_named("Compiler")
    for m in comp.methods.values():
        for n in m.own_nodes():
            if isinstance(n, ast.Call) and call_name(n) == "CompiledFunction":
                key = f"{m.qual}:CompiledFunction"
                loc = f"{m.module.rel}:{n.lineno}"
                kw = {k.arg: k.value for k in n.keywords}
                if "source_map" not in kw:
                    rep.bad(rid, key, f"{m.name} builds a CompiledFunction without a source_map: errors thrown inside such functions have no line/column", loc)
                    continue
                if m.name != "compile":
                    from ..util import state_protocol

                    _sv, _rs, _rt = state_protocol(ctx, m)
                    if not ("source_map" in _rs and "source_map" in _rt):
                        rep.bad(rid, key, f"{m.name} passes source_map but does not reset/restore self.source_map around the nested function: offsets of different functions collide", loc)
                        continue
                rep.ok(rid, key)


# ------------------------------------------------------------------ C07-R7
def rule_constructor_names(ctx, rep, rid: str) -> None:
    rep.rule(rid, "each converted host error class is thrown as an object built by the constructor of the matching name, looked up in the context's globals", floor=2)
    conv = converted_classes(ctx)
    errors_mod = ctx.tree.mod("errors")
    for cls, jsname in sorted(conv.items()):
        ci = ctx.tree.resolve_class_name(ctx.tree.mod("vm"), cls) or ctx.tree.resolve_class_name(errors_mod, cls)
        key = f"convert:{cls}->{jsname}"
        if ci is None:
            rep.bad(rid, key, f"converted class {cls} is not a repo class", ctx.tree.mod("vm").rel + ":1")
            continue
        own = own_js_name(ctx, ci)
        if own != jsname:
            rep.bad(rid, key, f"{cls} (name {own!r}) is thrown to the script as {jsname!r}", f"{ci.module.rel}:{ci.node.lineno}")
        else:
            rep.ok(rid, key)
    hp = ctx.tree.find_method(ctx.facts.vm_dispatcher()[0].cls, "_handle_python_exception")
    if hp is None:
        raise AnalysisError("_handle_python_exception not found")
    txt = " ".join(norm(s) for s in hp.body())
    if "self.globals.get(error_type)" in txt and "_call_fn(message)" in txt:
        rep.ok(rid, "_handle_python_exception:lookup")
    else:
        rep.bad(rid, "_handle_python_exception:lookup", "the error object is no longer built by globals[error_type]._call_fn(message)", hp.loc)


# ------------------------------------------------------------------ C04-R1
def _discharges(ctx) -> Dict[str, Tuple[bool, str]]:
    """Raises that other rules prove unreachable: key fragment -> (discharged?, why)."""
    from . import compiler_rules, encoding, tables
    from ..report import Report

    out: Dict[str, Tuple[bool, str]] = {}

    def silent(fn, *a):
        r = Report("tmp", "quick")
        fn(ctx, r, "X", *a)
        return not r.findings

    low = silent(compiler_rules.rule_lowering_exhaustive)
    out["Cannot compile statement"] = (low, "every node class the parser constructs has a compiler branch (C05-R6)")
    out["Cannot compile expression"] = (low, "every node class the parser constructs has a compiler branch (C05-R6)")
    ops = silent(tables.rule_operator_tables)
    out["Unary operator"] = (ops, "parser unary operators are covered by the compiler (C06-R1)")
    out["Binary operator"] = (ops, "parser binary operators equal the compiler's op_map (C06-R1)")
    from . import frontend

    tgt = frontend.reference_targets_ok(ctx)
    for frag in ("Update expression on non-identifier", "Unsupported for-in left", "Unsupported for-of left"):
        out[frag] = (tgt, "the parser only builds these nodes with Identifier/MemberExpression (or declaration) targets (C13-R1)")
    with_arg, without, jumps = encoding.emitted_operands(ctx)
    handled = ctx.facts.vm_dispatcher()[1].handled()
    out["Opcode not implemented"] = (not ((with_arg | without | jumps) - set(handled)), "every opcode the compiler emits has a dispatcher branch (C14-R3)")
    try:
        from . import regexrules

        out["Unknown opcode"] = (regexrules.emitted_subset_of_main(ctx), "every regex opcode the regex compiler emits is handled by the main matcher loop (C09-R1)")
    except Exception:
        out["Unknown opcode"] = (False, "C09-R1 not available")
    return out


def _signal_discharge(ctx, cls: str, raise_fq: str, raise_line: int) -> Tuple[bool, str]:
    """An internal unwinding signal (a repo exception class that is not a JSError) is contained when
      (a) its raise is guarded by the truthiness of a per-interpreter list D,
      (b) D is pushed and popped only by functions B, each pairing the push with a pop in `finally`,
      (c) every call path from the public API to a function of B goes through a call that sits in a try body
          whose handlers catch the signal -- except calls on an interpreter constructed in the calling function
          (its call stack and handler stack are empty, so no handler can lie below the boundary).
    Then whenever the signal is raised a catching try body is active below the innermost B activation."""
    from ..util import atoms

    t = ctx.tree
    cg = ctx.cg
    f = next((g for g in t.funcs if g.qual == raise_fq), None)
    if f is None:
        return False, "raise site not found"
    rn = next((n for n in f.own_nodes() if isinstance(n, ast.Raise) and n.lineno == raise_line), None)
    if rn is None:
        return False, "raise site not found"
    cands = []
    for tst, pol in guards_of(rn, f.node):
        for a, p_ in atoms(tst, pol):
            if p_ and isinstance(a, ast.Attribute) and norm(a.value) == "self":
                cands.append(a.attr)
    if not cands:
        return False, "the raise is not guarded by a per-interpreter marker list"
    why = ""
    for D in cands:
        okd, why = _signal_discharge_for(ctx, cls, f, D)
        if okd:
            return okd, why
    return False, why


def _signal_discharge_for(ctx, cls: str, f: Func, D: str) -> Tuple[bool, str]:
    t = ctx.tree
    cg = ctx.cg
    B = []
    for g in t.funcs:
        muts = [n for n in g.own_nodes() if isinstance(n, ast.Call) and isinstance(n.func, ast.Attribute) and norm(n.func.value) == f"self.{D}" and n.func.attr in ("append", "pop", "clear", "insert", "extend", "remove")]
        rebind = [n for n in g.own_nodes() if isinstance(n, ast.Assign) and any(norm(x) == f"self.{D}" for x in n.targets) and g.name != "__init__"]
        if rebind:
            return False, f"{g.qual} re-binds self.{D}"
        if not muts:
            continue
        pushes = [m for m in muts if m.func.attr == "append"]
        others = [m for m in muts if m.func.attr not in ("append", "pop")]
        if others or len(pushes) != 1:
            return False, f"{g.qual} mutates self.{D} outside the push/pop protocol"
        # the push statement must be directly followed by a try whose finally pops
        st = pushes[0]
        while not isinstance(getattr(st, "_parent", None), (ast.FunctionDef, ast.If, ast.For, ast.While, ast.With, ast.Try)) and getattr(st, "_parent", None) is not None:
            st = st._parent
        par = getattr(st, "_parent", None)
        # `if <cond>: push` as a whole, when the pop in the finally is under the same condition (an optional marker)
        if isinstance(par, ast.If) and par.body == [st] and not par.orelse:
            cond = norm(par.test)
            st, par = par, getattr(par, "_parent", None)
        else:
            cond = None
        paired = False
        for field in ("body", "orelse", "finalbody"):
            blk = getattr(par, field, None)
            if isinstance(blk, list) and st in blk:
                i = blk.index(st)
                if i + 1 < len(blk) and isinstance(blk[i + 1], ast.Try):
                    fin = blk[i + 1].finalbody
                    if cond is None and any(f"self.{D}.pop()" in norm(x) for x in fin):
                        paired = True
                    if cond is not None and any(isinstance(x, ast.If) and norm(x.test) == cond and any(f"self.{D}.pop()" in norm(y) for y in x.body) for x in fin):
                        paired = True
        if not paired:
            return False, f"{g.qual} pushes self.{D} without a try/finally that pops it"
        B.append(g)
    if not B:
        return False, f"nothing pushes self.{D}"
    sigmod = next((m for m in t.modules.values() if cls in m.classes), None) if isinstance(t.modules, dict) else None
    if sigmod is None:
        sigmod = f.module
    prot = set()
    fresh_ok = set()
    for g in t.funcs:
        for cs in cg.sites_of.get(id(g), []):
            ch, p_ = cs.call, getattr(cs.call, "_parent", None)
            while p_ is not None and p_ is not g.node:
                if isinstance(p_, ast.Try) and any(ch is x for x in p_.body) and any(h.type is not None and cls in [norm(x).split(".")[-1] for x in (h.type.elts if isinstance(h.type, ast.Tuple) else [h.type])] for h in p_.handlers):
                    for tg in cs.targets:
                        prot.add((id(g), id(tg)))
                ch, p_ = p_, getattr(p_, "_parent", None)
            # call on an interpreter constructed in this function
            fn = cs.call.func
            if isinstance(fn, ast.Attribute) and any(tg in B for tg in cs.targets):
                from ..util import is_fresh_instance

                if is_fresh_instance(ctx, fn.value, g, f.cls):
                    for tg in cs.targets:
                        fresh_ok.add((id(g), id(tg)))
    api = t.class_named("Context")
    roots = list(api.all_methods)
    par: Dict[int, Optional[int]] = {id(r): None for r in roots}
    byid = {id(g): g for g in t.funcs}
    work = list(roots)
    native_ids = set(cg.natives.keys())
    # slots that hold a callable given to a constructor: self.<slot> = <parameter> in exactly one class's __init__
    slot_owners: Dict[str, Set[str]] = {}
    for ci in [c for lst in t.classes.values() for c in lst]:
        init = ci.methods.get("__init__")
        if init is None:
            continue
        ps = set(init.params())
        for n in init.own_nodes():
            if isinstance(n, ast.Assign) and len(n.targets) == 1 and isinstance(n.targets[0], ast.Attribute) and norm(n.targets[0].value) == "self" and isinstance(n.value, ast.Name) and n.value.id in ps and n.targets[0].attr.startswith("_") and "fn" in n.targets[0].attr:
                slot_owners.setdefault(n.targets[0].attr, set()).add(ci.name)
    # a slot also written anywhere else is not closed
    for g in t.funcs:
        for n in g.own_nodes():
            if isinstance(n, ast.Assign):
                for tg in n.targets:
                    if isinstance(tg, ast.Attribute) and tg.attr in slot_owners and not (g.name == "__init__" and g.cls is not None and g.cls.name in slot_owners[tg.attr]):
                        slot_owners[tg.attr] = set()

    def succ(g):
        # call edges, natives through dynamic call sites, and closures passed as values -- but a closure that is
        # registered as a native is only ever invoked by the interpreter (a dynamic call site), not by its definer
        out = []
        for cs in cg.sites_of.get(id(g), []):
            out.extend(cs.targets)
            if cs.kind == "dynamic":
                fn = cs.call.func
                slot = fn.attr if isinstance(fn, ast.Attribute) else None
                owners = slot_owners.get(slot) if slot else None
                if owners:
                    # obj.<slot>(...): only functions stored in that slot by the owning class's constructor
                    out.extend(v[0] for v in cg.natives.values() if v[2] in owners)
                else:
                    out.extend(v[0] for v in cg.natives.values())
        called = {id(x) for x in out}
        for h in cg.callees(g):
            if id(h) not in called and id(h) not in native_ids:
                out.append(h)
        return out

    while work:
        g = work.pop()
        for h in succ(g):
            if (id(g), id(h)) in prot or (id(g), id(h)) in fresh_ok:
                continue
            if id(h) not in par:
                par[id(h)] = id(g)
                work.append(h)
    for b in B:
        if id(b) in par:
            path, p_ = [], id(b)
            while p_ is not None:
                path.append(byid[p_].qual)
                p_ = par[p_]
            return False, "unprotected path to " + " <- ".join(path[:6])
    return True, f"raised only while self.{D} is non-empty; pushed/popped (try/finally) only by {[b.qual for b in B]}; every API path to them passes through a try body that catches {cls} ({len(prot)} protected call edges) or starts on a freshly constructed interpreter ({len(fresh_ok)} entries)"


def rule_explicit_raises(ctx, rep, rid: str, floor: int = 40) -> None:
    rep.rule(rid, "every exception class raised on purpose anywhere under Context.eval is in the JSError family, is converted before leaving eval, or is proved unreachable by a table-agreement rule", floor=floor)
    from .. import xflow

    x = xflow.get(ctx)
    t = ctx.tree
    ev = t.func("context:Context.eval")
    esc = x.escapes(ev)
    dis = _discharges(ctx)
    n_origins = 0
    reported = set()
    all_origins = set()
    for f in t.funcs:
        for o, n in x._local[id(f)]:
            all_origins.add(o)
    for o in sorted(all_origins):
        fq, cls, line, txt = o
        mod = x.origin_mod[o]
        anc = t.exc_ancestors(mod, cls)
        key = f"{fq}:{txt}"
        if o not in esc:
            rep.ok(rid, key)
            continue
        n_origins += 1
        if "JSError" in anc:
            rep.ok(rid, key)
            continue
        d = [(k, v) for k, v in dis.items() if k in txt]
        if d and d[0][1][0]:
            rep.ok(rid, key, {"unreachable_because": d[0][1][1]})
            continue
        if t.resolve_class_name(mod, cls) is not None and cls.startswith("_"):
            okd, why = _signal_discharge(ctx, cls, fq, line)
            if okd:
                rep.ok(rid, key, {"contained_because": why})
                continue
            rep.bad(rid, key, f"{fq} raises the internal signal {cls}, which is not contained: {why}", f"{mod.rel}:{line}")
            continue
        rep.bad(rid, key, f"{fq} raises {cls}, which is not a JSError and can propagate out of Context.eval unconverted", f"{mod.rel}:{line}")
    rep.analysed["raise_sites"] = len(all_origins)
    rep.analysed["raise_sites_reaching_eval"] = n_origins


# ------------------------------------------------------------------ C04-R4
def rule_positioned_syntax_errors(ctx, rep, rid: str) -> None:
    rep.rule(rid, "every JSSyntaxError built by the lexer, parser or compiler carries a line and column taken from the lexer position, a token or an AST node location", floor=10)
    for modname in ("lexer", "parser", "compiler"):
        m = ctx.tree.mod(modname)
        for f in ctx.tree.funcs:
            if f.module is not m:
                continue
            for n in f.own_nodes():
                if isinstance(n, ast.Call) and isinstance(n.func, ast.Name) and n.func.id == "JSSyntaxError":
                    key = f"{f.qual}:JSSyntaxError({short(n.args[0], 40) if n.args else ''})"
                    loc = f"{m.rel}:{n.lineno}"
                    pos = list(n.args[1:]) + [k.value for k in n.keywords if k.arg in ("line", "column")]
                    if len(pos) >= 2:
                        src = " ".join(norm(p) for p in pos)
                        if any(w in src for w in ("line", "column", "loc")):
                            rep.ok(rid, key, {"position": src})
                        else:
                            rep.bad(rid, key, f"syntax error position ({src}) is not derived from a lexer/token/node location", loc)
                    else:
                        # allowed only as the fallback when no location exists
                        g = [norm(t) for t, pol in guards_of(n, f.node)]
                        sib = [x for x in f.own_nodes() if isinstance(x, ast.Call) and isinstance(x.func, ast.Name) and x.func.id == "JSSyntaxError" and len(x.args) >= 3]
                        if sib and any("loc" in norm(s) for s in f.body()):
                            rep.ok(rid, key, {"fallback": "node without location"})
                        else:
                            rep.bad(rid, key, f"{f.qual} builds a JSSyntaxError without line/column", loc)


# ------------------------------------------------------------------ C07-R2c
def rule_handler_stack_mutations(ctx, rep, rid: str) -> None:
    """Typestate of the handler stack: records are pushed only by TRY_START and removed only by TRY_END
    (normal completion), by the throw that uses them, or when the frame that owns them returns."""
    rep.rule(rid, "the handler stack is pushed only by TRY_START and popped only by TRY_END, by the unwinding throw, and for records of a returning frame (compared by frame index)", floor=3)
    df, chain = ctx.facts.vm_dispatcher()
    cls = df.cls
    n = 0
    roles = set()
    for m in cls.methods.values():
        aliases = {"self.exception_handlers"}
        for x in m.own_nodes():
            if isinstance(x, ast.Assign) and norm(x.value) == "self.exception_handlers" and isinstance(x.targets[0], ast.Name):
                aliases.add(x.targets[0].id)
        for x in m.own_nodes():
            kind = None
            if isinstance(x, ast.Call) and isinstance(x.func, ast.Attribute) and norm(x.func.value) in aliases and x.func.attr in ("append", "pop", "clear", "insert", "remove", "extend"):
                kind = x.func.attr
            elif isinstance(x, (ast.Delete,)) and any(norm(getattr(t, "value", t)) in aliases for t in x.targets):
                kind = "del"
            elif isinstance(x, ast.Assign) and any(norm(t) == "self.exception_handlers" for t in x.targets) and m.name != "__init__":
                kind = "rebind"
            if kind is None:
                continue
            n += 1
            # where is it?
            where = m.name
            if m is df:
                for mem, body, ifn in chain.branches:
                    if any(x in list(ast.walk(s)) for s in body):
                        where = "/".join(mem)
            key = f"{m.qual}:{where}:{kind}"
            loc = f"{m.module.rel}:{x.lineno}"
            ok = False
            if kind == "append" and where == "TRY_START":
                ok = True
                roles.add("push")
            elif kind == "pop" and where == "TRY_END":
                ok = True
                roles.add("pop-end")
            elif kind == "pop" and m.name == "_throw":
                ok = True
                roles.add("pop-throw")
            elif kind == "pop" and m is not df:
                # frame clean-up: the pop must be guarded by a comparison of the record's frame index with the call depth
                g = [norm(t) for t, pol in guards_of(x, m.node)]
                ok = any("len(self.call_stack)" in t and "[0]" in t for t in g)
            if not ok and kind in ("del", "clear", "rebind"):
                # emptying the whole stack when the interpreter is prepared for another run stands for construction
                from .isolation import reinitialisers

                whole = (kind == "clear") or (kind == "rebind" and isinstance(x.value, ast.List) and not x.value.elts) or (kind == "del" and all(isinstance(t, ast.Subscript) and isinstance(t.slice, ast.Slice) and t.slice.lower is None and t.slice.upper is None for t in x.targets))
                ok = whole and id(m) in reinitialisers(ctx)
            if ok:
                rep.ok(rid, key)
            else:
                rep.bad(rid, key, f"{m.qual} ({where}) {kind}s the handler stack outside the protocol: a record that belongs to a live try block (possibly of another frame) can be removed or duplicated, so a later throw skips its catch/finally or lands in the wrong one", loc)
    if roles != {"push", "pop-end", "pop-throw"}:
        raise AnalysisError(f"handler-stack protocol anchors not all found (saw {sorted(roles)})")


# ------------------------------------------------------------------ C07-R3c
def unwinding_signals(ctx) -> List[Tuple[str, Func, ast.Raise]]:
    """Repo exception classes that are not JSErrors and are raised by the VM class itself to unwind natives."""
    t = ctx.tree
    df, _ = ctx.facts.vm_dispatcher()
    out = []
    for m in df.cls.all_methods:
        for n in m.own_nodes():
            if isinstance(n, ast.Raise) and isinstance(n.exc, ast.Call) and isinstance(n.exc.func, ast.Name):
                ci = t.resolve_class_name(m.module, n.exc.func.id)
                if ci is not None and ci.module is m.module and "JSError" not in t.exc_ancestors(m.module, ci.name):
                    out.append((ci.name, m, n))
    return out


def _runs_only_fresh(ctx, g, vmcls, bid, depth: int, seen: set) -> bool:
    """Every call in g that can reach the interpreter's frame-pushing code is made on an interpreter that g itself
    constructs (or through a helper of which the same holds): g cannot run callbacks of the interpreter that is
    unwinding."""
    from ..util import is_fresh_instance

    if id(g) in seen or depth > 3 or id(g) in bid:
        return False
    seen = seen | {id(g)}
    cg = ctx.cg
    found = False
    for c in g.own_nodes():
        if not isinstance(c, ast.Call):
            continue
        cs = cg.site_of_call.get(id(c))
        if cs is None:
            continue
        if cs.kind == "dynamic":
            return False
        hits = [tg for tg in cs.targets if id(tg) in bid or cg.reaches(tg, bid)]
        if not hits:
            continue
        found = True
        if isinstance(c.func, ast.Attribute) and is_fresh_instance(ctx, c.func.value, g, vmcls):
            continue
        if not all(_runs_only_fresh(ctx, tg, vmcls, bid, depth + 1, seen) for tg in hits):
            return False
    return found


def rule_signal_not_swallowed(ctx, rep, rid: str) -> None:
    rep.rule(rid, "the signal that carries a script exception through a native function is caught only by the run loop's conversion wrapper: any broader handler (except Exception / bare except) around a call that can run a callback re-raises it unchanged, or runs a separately constructed interpreter", floor=1)
    t = ctx.tree
    cg = ctx.cg
    sigs = unwinding_signals(ctx)
    if not sigs:
        rep.ok(rid, "no-unwinding-signal", {"note": "the interpreter defines no internal unwinding signal"})
        return
    wr = {id(w) for w in ctx.facts.dispatch_wrappers()} | {id(f) for f, _ in ctx.facts.dispatch_loops()}
    df, _ = ctx.facts.vm_dispatcher()
    for cls, raiser, rn in sigs:
        okd, why = _signal_discharge(ctx, cls, raiser.qual, rn.lineno)
        key = f"{raiser.qual}:raise {cls}:contained"
        if okd:
            rep.ok(rid, key, {"because": why})
        else:
            rep.bad(rid, key, f"{raiser.qual} raises the unwinding signal {cls}, which can reach the embedder: {why}", f"{raiser.module.rel}:{rn.lineno}")
        # who pushes the marker? (functions whose activation the signal unwinds)
        B = [g for g in t.funcs if any(isinstance(n, ast.Call) and isinstance(n.func, ast.Attribute) and n.func.attr == "append" and norm(n.func.value).startswith("self._") and norm(n.func.value)[5:] in {a for tst, pol in guards_of(rn, raiser.node) for a in [x.attr for x in ast.walk(tst) if isinstance(x, ast.Attribute) and norm(x.value) == "self"]} for n in g.own_nodes()) and g.cls is df.cls and g is not df]
        bid = {id(b) for b in B}
        for f in t.funcs:
            if id(f) in wr:
                continue
            for n in f.own_nodes():
                if not isinstance(n, ast.Try):
                    continue
                hs = [h for h in n.handlers if t.handler_catches(f.module, h, cls, raiser.module)]
                if not hs:
                    continue
                reaching = []
                for s_ in n.body:
                    for c in ast.walk(s_):
                        if isinstance(c, ast.Call):
                            cs = cg.site_of_call.get(id(c))
                            if cs and (cs.kind == "dynamic" or any(id(tg) in bid or cg.reaches(tg, bid) for tg in cs.targets)):
                                reaching.append(c)
                if not reaching:
                    continue
                key = f"{f.qual}:except {norm(hs[0].type) if hs[0].type else 'bare'}:around-callback"
                h = hs[0]
                reraises = bool(h.body) and isinstance(h.body[-1], ast.Raise) and h.body[-1].exc is None and not any(isinstance(x, (ast.Return, ast.Continue, ast.Break)) for st in h.body for x in ast.walk(st))
                fresh = True
                for c in reaching:
                    fn = c.func
                    from ..util import is_fresh_instance

                    ctor = isinstance(fn, ast.Attribute) and is_fresh_instance(ctx, fn.value, f, df.cls)
                    if not ctor:
                        cs0 = cg.site_of_call.get(id(c))
                        if cs0 is not None and cs0.kind != "dynamic" and cs0.targets and all(_runs_only_fresh(ctx, tg, df.cls, bid, 0, set()) for tg in cs0.targets if id(tg) in bid or cg.reaches(tg, bid)):
                            ctor = True  # a helper that builds its own interpreter and runs the code on that one
                    # pure helper calls (parser/compiler constructors) cannot run callbacks of this interpreter
                    cs = cg.site_of_call.get(id(c))
                    if not ctor and cs is not None and (cs.kind == "dynamic" or any(id(tg) in bid or cg.reaches(tg, bid) for tg in cs.targets)):
                        fresh = False
                if reraises:
                    rep.ok(rid, key, {"handler": "re-raises unchanged"})
                elif fresh:
                    rep.ok(rid, key, {"handler": "body runs a separately constructed interpreter"})
                else:
                    rep.bad(rid, key, f"{f.qual} wraps a call that can run a script callback ({short(reaching[0], 50)}) in `except {norm(h.type) if h.type else ''}`, which also catches the unwinding signal {cls}: a script exception travelling to an outer catch is turned into something else here", f"{f.module.rel}:{h.lineno}")


# ---- error objects: prototype chain to Error, uncaught errors keep their name -------------------------
def rule_error_prototype_chain(ctx, rep, rid: str) -> None:
    """`e instanceof Error` holds for every native error: the prototype object a derived error constructor
    installs is created with Error.prototype as its parent."""
    rep.rule(rid, "the factory of error constructors creates each prototype object with a parent taken from its caller, and every registration of a constructor other than Error passes Error's prototype (runtime errors are instanceof Error)", floor=2)
    fac = None
    for f in ctx.tree.funcs:
        if f.module.name == "context" and "error" in f.name.lower() and "constructor" in f.name.lower() and f.is_method:
            fac = f
    if fac is None:
        raise AnalysisError("error-constructor factory not found in the context module")
    # the prototype object: a JSObject(..) local on which .set("name", <name parameter>) is called
    params = [p for p in fac.params() if p != "self"]
    proto = None
    for n in fac.own_nodes():
        if isinstance(n, ast.Call) and isinstance(n.func, ast.Attribute) and n.func.attr == "set" and len(n.args) == 2 and const_str(n.args[0]) == "name" and isinstance(n.args[1], ast.Name) and n.args[1].id in params and isinstance(n.func.value, ast.Name):
            proto = n.func.value.id
    if proto is None:
        raise AnalysisError(f"{fac.qual}: prototype object (the one given the constructor's name) not found")
    ctor = [n for n in fac.own_nodes() if isinstance(n, ast.Assign) and any(isinstance(t, ast.Name) and t.id == proto for t in n.targets) and isinstance(n.value, ast.Call)]
    key = f"{fac.qual}:prototype-parent"
    parent_param = None
    for n in ctor:
        if n.value.args and isinstance(n.value.args[0], ast.Name) and n.value.args[0].id in params:
            parent_param = n.value.args[0].id
    if parent_param is None:
        rep.bad(rid, key, f"{fac.qual} creates the prototype object `{proto}` without a parent ({short(ctor[0].value, 40) if ctor else '?'}): TypeError.prototype and the others do not inherit from Error.prototype, so `e instanceof Error` is false for runtime errors", f"{fac.module.rel}:{ctor[0].lineno if ctor else fac.node.lineno}")
    else:
        rep.ok(rid, key, {"parent parameter": parent_param})
    from ..util import bind_args

    n_reg = 0
    for cs in ctx.cg.sites:
        if cs.kind == "resolved" and any(t is fac for t in cs.targets):
            b = bind_args(cs.call, fac)
            name_arg = b.get(params[0])
            is_base = const_str(name_arg) == "Error" if name_arg is not None else False
            n_reg += 1
            key = f"{cs.func.qual}:{fac.name}({short(name_arg, 20) if name_arg is not None else ''})"
            parg = b.get(parent_param) if parent_param else None
            if is_base:
                rep.ok(rid, key, {"base": True})
            elif parg is None or (isinstance(parg, ast.Constant) and parg.value is None):
                rep.bad(rid, key, f"{cs.func.qual} creates an error constructor other than Error without handing it Error's prototype: its instances are not instanceof Error", f"{cs.func.module.rel}:{cs.line}")
            elif "prototype" in norm(parg) and "rror" in norm(parg):
                rep.ok(rid, key, {"parent": norm(parg)})
            else:
                rep.bad(rid, key, f"{cs.func.qual} passes {short(parg, 40)} as the parent of a derived error prototype, which is not Error's prototype", f"{cs.func.module.rel}:{cs.line}")
    if n_reg < 2:
        raise AnalysisError("fewer than two error-constructor registrations found")


def rule_uncaught_keeps_name(ctx, rep, rid: str) -> None:
    """An uncaught throw of an error OBJECT makes eval raise a JSError that carries the object's name and message."""
    rep.rule(rid, "where an uncaught thrown object is turned into the JSError that eval raises, both its message and its name are taken from the object", floor=1)
    vmcls = ctx.facts.vm_dispatcher()[0].cls
    thr = ctx.tree.find_method(vmcls, "_throw")
    if thr is None:
        raise AnalysisError("VM._throw not found")
    n_sites = 0
    # the error is raised where it is built, or built in a local that is raised afterwards
    raised_names = {r.exc.id for r in thr.own_nodes() if isinstance(r, ast.Raise) and isinstance(r.exc, ast.Name)}
    built = [(r, r.exc) for r in thr.own_nodes() if isinstance(r, ast.Raise) and isinstance(r.exc, ast.Call) and call_name(r.exc) == "JSError"]
    built += [(a, a.value) for a in thr.own_nodes() if isinstance(a, ast.Assign) and len(a.targets) == 1 and isinstance(a.targets[0], ast.Name) and a.targets[0].id in raised_names and isinstance(a.value, ast.Call) and call_name(a.value) == "JSError"]
    for n, call in built:
        if True:
            g = [norm(t) for t, pol in guards_of(n, thr.node) if pol]
            if not any("isinstance(exc, JSObject)" in x for x in g):
                continue
            n_sites += 1
            key = f"{thr.qual}:uncaught-object"
            txt = norm(call)
            pre = " ".join(norm(s) for s in thr.own_nodes() if isinstance(s, ast.Assign) and s is not n and s.lineno < n.lineno and s.lineno > n.lineno - 8)
            has_name = (len(call.args) >= 2 or any(k.arg == "name" for k in call.keywords)) and ("get('name')" in txt or "get('name')" in pre)
            has_msg = "get('message')" in txt or "get('message')" in pre
            if has_name and has_msg:
                rep.ok(rid, key)
            else:
                rep.bad(rid, key, f"{thr.qual} raises JSError for an uncaught error object without its {'name' if not has_name else 'message'}: `throw new RangeError('x')` reaches Python as \"Error: x\"", f"{thr.module.rel}:{n.lineno}")
    if n_sites == 0:
        raise AnalysisError("the uncaught-object branch of VM._throw was not found")


# ---- the call stack is not truncated behind a travelling exception ----------------------------------------
def rule_call_stack_not_cut_in_cleanup(ctx, rep, rid: str) -> None:
    """While a script exception travels from a callback to a handler below the native that ran it, the frames it
    came from stay on the call stack until `_throw` finds the handler and unwinds to it: the re-delivered throw reads
    its source location from the top frame, and the unwinding itself decides how many frames go.  Cleanup code
    (`finally` blocks, exception handlers) of the interpreter therefore never pops or truncates the call stack."""
    rep.rule(rid, "frames are pushed by the call routines and removed only by the return handlers, the end-of-function path of the run loops and the unwinding in _throw: no `finally` block or exception handler of the interpreter pops or truncates the call stack", floor=4)
    vmcls = ctx.facts.vm_dispatcher()[0].cls
    n = 0
    for m in vmcls.all_methods:
        if isinstance(m.node, ast.Lambda):
            continue
        for x in m.own_nodes():
            mut = None
            if isinstance(x, ast.Call) and isinstance(x.func, ast.Attribute) and norm(x.func.value) == "self.call_stack" and x.func.attr in ("pop", "clear", "append", "insert", "extend", "remove"):
                mut = x.func.attr
            if isinstance(x, ast.Delete) and any("self.call_stack" in norm(t) for t in x.targets):
                mut = "del"
            if isinstance(x, ast.Assign) and any(norm(t).startswith("self.call_stack") for t in x.targets) and m.name != "__init__":
                mut = "assign"
            if mut is None:
                continue
            n += 1
            key = f"{m.qual}:call_stack.{mut}@{short(x, 30)}"
            where = None
            child, p = x, getattr(x, "_parent", None)
            while p is not None and p is not m.node:
                if isinstance(p, ast.Try) and any(child is s_ for s_ in p.finalbody):
                    where = "finally block"
                if isinstance(p, ast.ExceptHandler):
                    where = "exception handler"
                child, p = p, getattr(p, "_parent", None)
            if where and mut != "append":
                rep.bad(rid, key, f"{m.qual} removes frames from the call stack in a {where} ({short(x, 50)}): when a script exception is on its way to a handler below this point, the frames it came from are gone before _throw re-delivers it, so the error's line/column are taken from the wrong frame (and the unwinding no longer decides what is removed)", f"{m.module.rel}:{x.lineno}")
            else:
                rep.ok(rid, key)
    if n < 4:
        raise AnalysisError(f"only {n} call-stack mutations found")


def rule_nested_throw_keeps_value(ctx, rep, rid: str) -> None:
    """A throw that no handler of a NESTED interpreter catches (code run by eval) leaves that interpreter as the host
    exception that reports it.  The interpreter outside is still running script code and may have a handler: what
    that handler receives has to be the thrown value itself - 42, or the very object - not an Error made from its
    text.  So the reporting exception carries the value, and the run loop that receives it throws the value."""
    rep.rule(rid, "the uncaught branch of the throw routine attaches the thrown value to the JSError it raises, and the run-loop wrapper's JSError handler re-throws that attached value when there is one (an Error built from the message only for engine errors that carry none)", floor=2)
    vmcls = ctx.facts.vm_dispatcher()[0].cls
    thr = ctx.tree.find_method(vmcls, "_throw")
    if thr is None:
        raise AnalysisError(f"{rid}: VM._throw not found")
    ps = [p for p in thr.params() if p != "self"]
    exc = ps[0] if ps else "exc"
    attach = [a for a in thr.own_nodes() if isinstance(a, ast.Assign) and len(a.targets) == 1 and isinstance(a.targets[0], ast.Attribute) and isinstance(a.targets[0].value, ast.Name) and norm(a.value) == exc]
    attrs = {a.targets[0].attr for a in attach}
    key = f"{thr.qual}:uncaught:carries-value"
    raised = {r.exc.id for r in thr.own_nodes() if isinstance(r, ast.Raise) and isinstance(r.exc, ast.Name)}
    if attach and any(a.targets[0].value.id in raised for a in attach):
        rep.ok(rid, key, {"attribute": sorted(attrs)})
    else:
        rep.bad(rid, key, f"{thr.qual} reports an uncaught throw with a JSError built from the text of the value and nothing else: when the interpreter runs inside another evaluation (eval), the handler out there can only be given a new Error - `try {{ eval('throw 42') }} catch (e) {{ e }}` is an Error object, and a thrown object loses its identity", thr.loc)
    # the receiving side
    n = 0
    for m in vmcls.all_methods:
        if isinstance(m.node, ast.Lambda):
            continue
        for h in m.own_nodes():
            if isinstance(h, ast.ExceptHandler) and h.type is not None and norm(h.type) == "JSError" and h.name and any(isinstance(c, ast.Call) and norm(c.func) == "self._handle_python_exception" for b in h.body for c in ast.walk(b)):
                n += 1
                key = f"{m.qual}:except JSError:rethrows-value"
                re_throw = [c for b in h.body for c in ast.walk(b) if isinstance(c, ast.Call) and norm(c.func) == "self._throw" and c.args and isinstance(c.args[0], ast.Attribute) and norm(c.args[0].value) == h.name and (not attrs or c.args[0].attr in attrs)]
                if re_throw:
                    rep.ok(rid, key)
                else:
                    rep.bad(rid, key, f"{m.qual} turns every JSError that reaches it from a native into a NEW error object made from its name and message: the value an eval()ed program threw and did not catch is replaced on its way to the outer handler", f"{m.module.rel}:{h.lineno}")
    if n == 0:
        rep.ok(rid, "no-JSError-handler", {"note": "no run-loop wrapper converts a JSError coming out of a native into a script error: nothing rebuilds the value here (whether such errors are catchable at all is C07-R5's obligation)"})


def rule_location_of_the_executing_instruction(ctx, rep, rid: str) -> None:
    """The run loops advance frame.ip past an instruction (and its operand) before they execute it.  A lookup of the
    source location that walks back from frame.ip itself starts at the FIRST instruction of what follows: if that is a
    statement with a location of its own (the next throw), the error gets the wrong line."""
    rep.rule(rid, "the lookup of the source location of a throw starts below the current frame.ip (the instruction being executed), never at frame.ip itself, which the run loop has already advanced", floor=1)
    vmcls = ctx.facts.vm_dispatcher()[0].cls
    n = 0
    for m in vmcls.all_methods:
        if isinstance(m.node, ast.Lambda):
            continue
        for loop in m.own_nodes():
            if isinstance(loop, ast.For) and isinstance(loop.iter, ast.Call) and norm(loop.iter.func) == "range" and loop.iter.args and any("source_map" in norm(x) for b in loop.body for x in ast.walk(b) if isinstance(x, (ast.Compare, ast.Subscript))):
                n += 1
                key = f"{m.qual}:walk-from"
                start = loop.iter.args[0]
                if norm(start).endswith(".ip"):
                    rep.bad(rid, key, f"{m.qual} walks the source map back from `{norm(start)}`: the run loop has advanced the instruction pointer past the instruction that throws, so the entry of the NEXT statement is found when it has one - `if (c) throw new Error('a'); throw new Error('b')` stamps the first error with the second line", f"{m.module.rel}:{loop.lineno}")
                else:
                    rep.ok(rid, key, {"from": norm(start)})
    if n == 0:
        raise AnalysisError(f"{rid}: the source-map walk of the interpreter was not found")
