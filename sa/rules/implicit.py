"""E2 (implicit part): host operations that raise on script-reachable operand values.

For every call/operator in a script-reachable runtime function that has a precondition
CPython enforces with an exception (int(NaN), math.floor(inf), chr(-1), x ** y, ...),
a small abstract domain decides whether the operand can violate it at that site; guard
idioms the package uses (isnan/isinf early returns, isinstance tests, enclosing
try/except) refine it.  What cannot be proved safe is reported with the site.
"""

from __future__ import annotations

import ast
from typing import Callable, Dict, List, Optional, Set, Tuple

from ..core import AnalysisError, Func, call_name, norm, short, walk_no_nested
from ..util import guards_of, try_handlers_enclosing

# kinds, ordered by danger
INT = "int"  # a Python int (finite, integral)
FINITE = "finite"  # a finite float or int
NUM = "number"  # any JS number: may be NaN or +-Infinity
RAW = "raw"  # an arbitrary script value (may be a string, object, undefined ...)
STR = "str"  # a Python str (int()/float() of it can only raise ValueError)
UNK = "unknown"

# host-raiser table: callee -> (what it needs, exception classes, validated on CPython 3.12 with the reproducer)
RAISERS: Dict[str, Tuple[str, Tuple[str, ...], str]] = {
    "int": ("finite number", ("ValueError", "OverflowError"), "int(float('nan')) -> ValueError; int(float('inf')) -> OverflowError"),
    "float": ("numeric text", ("ValueError",), "float('1_') -> ValueError (judged for text operands only: a number converts to itself)"),
    "round": ("finite number", ("ValueError", "OverflowError"), "round(float('nan')) -> ValueError"),
    "math.floor": ("finite number", ("ValueError", "OverflowError"), "math.floor(float('nan')) -> ValueError"),
    "math.ceil": ("finite number", ("ValueError", "OverflowError"), "math.ceil(float('inf')) -> OverflowError"),
    "math.trunc": ("finite number", ("ValueError", "OverflowError"), "math.trunc(float('nan')) -> ValueError"),
    "chr": ("integer in range(0x110000)", ("ValueError", "OverflowError", "TypeError"), "chr(-1) -> ValueError"),
    "math.sin": ("finite number", ("ValueError",), "math.sin(float('inf')) -> ValueError: math domain error"),
    "math.cos": ("finite number", ("ValueError",), "math.cos(float('inf')) -> ValueError"),
    "math.tan": ("finite number", ("ValueError",), "math.tan(float('inf')) -> ValueError"),
    "math.exp": ("number below ~709.78", ("OverflowError",), "math.exp(1000) -> OverflowError"),
    "math.expm1": ("number below ~709.78", ("OverflowError",), "math.expm1(1000) -> OverflowError"),
    "math.pow": ("operands inside pow's domain", ("ValueError", "OverflowError"), "math.pow(-8, 1/3) -> ValueError; math.pow(10, 400) -> OverflowError"),
    "math.sqrt": ("non-negative number", ("ValueError",), "math.sqrt(-1) -> ValueError"),
    "math.log": ("positive number", ("ValueError",), "math.log(0) -> ValueError"),
    "math.log2": ("positive number", ("ValueError",), "math.log2(0) -> ValueError"),
    "math.log10": ("positive number", ("ValueError",), "math.log10(-1) -> ValueError"),
    "math.log1p": ("number above -1", ("ValueError",), "math.log1p(-1) -> ValueError"),
    "math.asin": ("number in [-1, 1]", ("ValueError",), "math.asin(2) -> ValueError"),
    "math.acos": ("number in [-1, 1]", ("ValueError",), "math.acos(2) -> ValueError"),
    "math.hypot": ("numbers", (), ""),
    "struct.pack": ("value inside the format's range", ("OverflowError", "struct.error"), "struct.pack('f', 1e40) -> OverflowError"),
    "bytearray": ("non-negative integer", ("ValueError", "TypeError", "OverflowError"), "bytearray(-1) -> ValueError"),
}

NUMBER_SOURCES = {"to_number", "_to_number"}
INT_SOURCES = {"len", "ord", "_to_int32", "_to_uint32", "find", "rfind", "index", "count"}


class KindEnv:
    def __init__(self, f: Func, ctx):
        self.f = f
        self.ctx = ctx
        self.defs: Dict[str, List[ast.AST]] = {}
        g: Optional[Func] = f
        self.scope_funcs = []
        while g is not None:
            self.scope_funcs.append(g)
            g = g.parent
        for g in self.scope_funcs:
            for n in g.own_nodes():
                if isinstance(n, ast.Assign):
                    for t in n.targets:
                        if isinstance(t, ast.Name):
                            self.defs.setdefault(t.id, []).append(n.value)
                        elif isinstance(t, ast.Tuple):
                            for e in t.elts:
                                if isinstance(e, ast.Name):
                                    self.defs.setdefault(e.id, []).append(ast.Constant(value=Ellipsis))
                elif isinstance(n, ast.AugAssign) and isinstance(n.target, ast.Name):
                    self.defs.setdefault(n.target.id, []).append(n.value)
                elif isinstance(n, (ast.For, ast.comprehension)):
                    for e in ast.walk(n.target):
                        if isinstance(e, ast.Name):
                            it = n.iter
                            self.defs.setdefault(e.id, []).append(ast.Constant(value=Ellipsis) if not (isinstance(it, ast.Call) and norm(it.func) == "range") else ast.Constant(value=0))
        self.params: Dict[str, str] = {}
        for g in self.scope_funcs:
            a = g.node.args
            for x in a.posonlyargs + a.args + a.kwonlyargs:
                ann = norm(x.annotation) if getattr(x, "annotation", None) is not None else ""
                self.params.setdefault(x.arg, ann)
            if a.vararg:
                self.params.setdefault(a.vararg.arg, "*")

    def _owner_is_method(self, name: str) -> bool:
        """Is `name` a parameter of a class method (not of a native closure)?"""
        for g in self.scope_funcs:
            if name in g.params():
                return g.is_method and g.name not in ("__init__",) and id(g) not in self.ctx.cg.natives
        return False

    def _param_kind_from_callers(self, name: str, depth: int) -> Optional[str]:
        g = [x for x in self.scope_funcs if name in x.params()][0]
        if depth > 3:
            return UNK
        from ..util import bind_args

        ks: List[str] = []
        for cs in self.ctx.cg.sites:
            if cs.kind in ("resolved", "byname") and any(t is g for t in cs.targets):
                b = bind_args(cs.call, g)
                a = b.get(name)
                if a is None:
                    continue
                env = _env_cache(self.ctx, cs.func)
                ks.append(env.kind(a, depth + 2))
        if not ks:
            return None
        return _join(ks)

    def kind(self, e: ast.AST, depth: int = 0) -> str:
        if depth > 6:
            return UNK
        if isinstance(e, ast.Constant):
            if isinstance(e.value, bool):
                return INT
            if isinstance(e.value, int):
                return INT
            if isinstance(e.value, float):
                return FINITE
            if e.value is Ellipsis:
                return UNK
            return STR if isinstance(e.value, str) else UNK
        if isinstance(e, ast.Call):
            cn = call_name(e)
            fn = norm(e.func)
            if cn in NUMBER_SOURCES:
                return NUM
            if cn in ("to_string", "str", "strip", "lstrip", "rstrip", "lower", "upper", "join", "_read_identifier") or fn == "self.stack.pop" and False:
                return STR
            if fn == "self.stack.pop":
                return RAW
            if fn == "float" and e.args:
                a = e.args[0]
                if isinstance(a, ast.Constant) and isinstance(a.value, str):
                    return NUM  # float("nan") / float("inf")
                k = self.kind(a, depth + 1)
                return k if k in (INT, FINITE) else NUM
            if cn in INT_SOURCES or fn in ("int", "round", "math.floor", "math.ceil", "math.trunc"):
                return INT
            if fn in ("max", "min", "abs") and e.args:
                ks = [self.kind(a, depth + 1) for a in e.args]
                return _join(ks)
            if fn == "js_round":
                return self.kind(e.args[0], depth + 1) if e.args else UNK
            if fn in ("math.log", "math.log2", "math.log10", "math.sqrt", "math.atan", "math.atan2", "math.asin", "math.acos") and e.args:
                site = e
                fobj = self.f
                ex = _excluded(site, e.args[0], fobj)
                if {"nan", "inf"} <= ex or self.kind(e.args[0], depth + 1) in (INT, FINITE):
                    return FINITE
                return NUM
            if fn == "math.copysign" and len(e.args) == 2 and self.kind(e.args[0], depth + 1) in (INT, FINITE):
                return FINITE  # the magnitude of the first argument with some sign: never NaN
            if fn.startswith("math."):
                return NUM
            return UNK
        if isinstance(e, ast.Name):
            if e.id in self.defs:
                ks = [self.kind(v, depth + 1) for v in self.defs[e.id]]
                return _join(ks)
            ann = self.params.get(e.id)
            if ann is not None and self._owner_is_method(e.id):
                pk = self._param_kind_from_callers(e.id, depth)
                if pk is not None:
                    return pk
            if ann is not None:
                if ann in ("int",):
                    return INT
                if ann in ("float",):
                    return NUM
                if ann in ("str", "bytes", "bool"):
                    return UNK
                if ann == "*":
                    return UNK
                if e.id in ("n", "x", "value", "val", "v", "num") and ann in ("", "float", "JSValue", "Union[int, float]"):
                    return NUM if ann in ("float", "Union[int, float]") else RAW
                return UNK
            return UNK
        if isinstance(e, ast.Subscript):
            base = norm(e.value)
            if base == "args" or base.endswith("_args"):
                return RAW
            if base.endswith("._elements") or base.endswith("._data"):
                return RAW
            return UNK
        if isinstance(e, ast.BinOp):
            l, r = self.kind(e.left, depth + 1), self.kind(e.right, depth + 1)
            if isinstance(e.op, (ast.Add, ast.Sub, ast.Mult)):
                if l == INT and r == INT:
                    return INT
                if l in (INT, FINITE) and r in (INT, FINITE):
                    return NUM if isinstance(e.op, ast.Mult) else FINITE
                return _join([l, r, NUM]) if NUM in (l, r) or RAW in (l, r) else UNK
            if isinstance(e.op, (ast.Div, ast.Pow)):
                return NUM if UNK not in (l, r) else UNK
            if isinstance(e.op, (ast.FloorDiv, ast.Mod, ast.BitAnd, ast.BitOr, ast.LShift, ast.RShift, ast.BitXor)):
                return INT if l == INT and r == INT else (NUM if NUM in (l, r) else UNK)
            return UNK
        if isinstance(e, ast.UnaryOp):
            return self.kind(e.operand, depth + 1)
        if isinstance(e, ast.IfExp):
            # `to_string(v) if not isinstance(v, str) else v` is a str either way
            t = norm(e.test)
            if isinstance(e.orelse, ast.Name) and t == f"not isinstance({e.orelse.id}, str)" and self.kind(e.body, depth + 1) == STR:
                return STR
            return _join([self.kind(e.body, depth + 1), self.kind(e.orelse, depth + 1)])
        if isinstance(e, ast.Attribute):
            if e.attr in ("length", "byteLength", "_element_size", "index", "lastIndex", "_byte_offset"):
                return INT
            return UNK
        return UNK


_ENVS: Dict[int, "KindEnv"] = {}


def _env_cache(ctx, f: Func) -> "KindEnv":
    k = id(f)
    if k not in _ENVS or _ENVS[k].ctx is not ctx:
        _ENVS[k] = KindEnv(f, ctx)
    return _ENVS[k]


def _join(ks: List[str]) -> str:
    order = [INT, FINITE, UNK, STR, NUM, RAW]
    return max(ks, key=lambda k: order.index(k)) if ks else UNK


_CTX: List = []


def _names(e: ast.AST) -> Set[str]:
    return {n.id for n in ast.walk(e) if isinstance(n, ast.Name)}


def _excluded(site: ast.AST, arg: ast.AST, f: Func) -> Set[str]:
    """Which bad inputs ('nan', 'inf', 'nonnumber', 'neg', 'zero') earlier guards exclude for the operand."""
    out: Set[str] = set()
    names = _names(arg) - {"math", "int", "float", "to_number", "len", "args", "self", "abs", "js_round"}
    # single-definition aliases: abs_n = abs(n) is guarded by tests on n
    env = _env_cache(_CTX[0], f) if _CTX else None
    if env is not None:
        for _ in range(3):
            for nm in list(names):
                ds = env.defs.get(nm, [])
                if ds and len({norm(d) for d in ds}) == 1:
                    v = ds[0]
                    if isinstance(v, ast.Call) and norm(v.func) in ("abs", "float", "js_round") and v.args:
                        names |= _names(v.args[0]) - {"math"}
                        if norm(v.func) == "abs":
                            out.add("neg")
                    elif isinstance(v, ast.Name):
                        names.add(v.id)
    argtxt = norm(arg)
    # 1. conditions that enclose the site
    g = guards_of(site, f.node)
    for tst, pol in g:
        out |= _cond_excludes(tst, pol, names, argtxt)
    # 1b. short-circuit operands: in `a and b and X` X runs only when a and b hold (for `or`: when they do not)
    ch, pp = site, getattr(site, "_parent", None)
    while pp is not None and pp is not f.node and not isinstance(pp, ast.stmt):
        if isinstance(pp, ast.BoolOp):
            for v in pp.values:
                if v is ch:
                    break
                out |= _cond_excludes(v, isinstance(pp.op, ast.And), names, argtxt)
        ch, pp = pp, getattr(pp, "_parent", None)
    # 2. earlier `if <bad>: return/raise/continue` statements in enclosing blocks
    child = site
    p = getattr(site, "_parent", None)
    while p is not None:
        for field in ("body", "orelse", "finalbody"):
            blk = getattr(p, field, None)
            if isinstance(blk, list) and any(child is s for s in blk):
                idx = [i for i, s in enumerate(blk) if s is child][0]
                for s in blk[:idx]:
                    if isinstance(s, ast.If) and s.body and isinstance(s.body[-1], (ast.Return, ast.Raise, ast.Continue, ast.Break)) and not s.orelse:
                        out |= _cond_excludes(s.test, False, names, argtxt)
        if p is f.node:
            break
        child = p
        p = getattr(p, "_parent", None)
    # the two infinities separately: +inf excluded and (-inf excluded or the value is known non-negative)
    if "posinf" in out and ("neginf" in out or "neg" in out):
        out.add("inf")
    return out


def _cond_excludes(tst: ast.AST, pol: bool, names: Set[str], argtxt: str) -> Set[str]:
    """Condition `tst` is known to be `pol`; what does that exclude about the operand?"""
    out: Set[str] = set()
    from ..util import atoms

    for a, p in atoms(tst, pol):
        txt = norm(a)
        mentions = bool(_names(a) & names) or argtxt in txt
        if not mentions:
            continue
        if isinstance(a, ast.Call):
            fn = norm(a.func)
            if fn in ("math.isnan", "is_nan") and not p:
                out.add("nan")
            if fn in ("math.isinf", "is_infinity") and not p:
                out.add("inf")
            if fn == "math.isfinite" and p:
                out |= {"nan", "inf"}
            if fn.endswith(".is_integer") and p:
                out |= {"nan", "inf"}
            if fn == "isinstance" and p and len(a.args) == 2:
                k = norm(a.args[1])
                if k == "int":
                    out |= {"nan", "inf", "nonnumber"}
                elif "int" in k or "float" in k:
                    out.add("nonnumber")
        if isinstance(a, ast.Compare) and len(a.ops) == 1:
            op = a.ops[0]
            l, r = a.left, a.comparators[0]
            cv = _const_number(r)
            if cv is not None and not isinstance(r, ast.Constant):
                r = ast.copy_location(ast.Constant(cv), r)  # 2**53, 2**32 - 1: constant arithmetic
            # |v| <= K true: v is finite (NaN fails every comparison)
            if cv is not None and p and isinstance(op, (ast.Lt, ast.LtE)) and isinstance(l, ast.Call) and norm(l.func) == "abs":
                out |= {"nan", "inf"}
            # v < 0 false / v >= 0 true ...
            if isinstance(r, ast.Constant) and isinstance(r.value, (int, float)):
                # any successful ordered comparison with a number excludes NaN when it is *true*
                if p and isinstance(op, (ast.Lt, ast.LtE, ast.Gt, ast.GtE, ast.Eq)):
                    out.add("nan")
                if isinstance(op, ast.Lt) and not p and r.value <= 0:
                    out.add("neg")
                if isinstance(op, ast.GtE) and p and r.value >= 0:
                    out.add("neg")
                if isinstance(op, ast.Gt) and p and r.value >= 0:
                    out |= {"neg", "zero"}
                if isinstance(op, ast.Eq) and not p and r.value == 0:
                    out.add("zero")
                if isinstance(op, ast.LtE) and not p and r.value >= 0:
                    out |= {"neg", "zero"}
                # bounded above / below by a finite constant: that infinity is excluded
                if (isinstance(op, (ast.Lt, ast.LtE)) and p) or (isinstance(op, (ast.Gt, ast.GtE)) and not p):
                    out.add("posinf")
                if (isinstance(op, (ast.Gt, ast.GtE)) and p) or (isinstance(op, (ast.Lt, ast.LtE)) and not p):
                    out.add("neginf")
            # self-comparison: v != v is the NaN test
            if norm(l) == norm(r):
                if (isinstance(op, ast.NotEq) and not p) or (isinstance(op, ast.Eq) and p):
                    out.add("nan")
            # comparison with an infinity constant
            rt = norm(r).replace(" ", "")
            if rt in ("math.inf", "float('inf')", "inf"):
                if (isinstance(op, ast.Eq) and not p) or (isinstance(op, ast.NotEq) and p) or (isinstance(op, ast.Lt) and p):
                    out.add("posinf")
            if rt in ("-math.inf", "float('-inf')", "-inf"):
                if (isinstance(op, ast.Eq) and not p) or (isinstance(op, ast.NotEq) and p) or (isinstance(op, ast.Gt) and p):
                    out.add("neginf")
            if isinstance(op, (ast.In, ast.NotIn)) and isinstance(r, (ast.Tuple, ast.List, ast.Set)):
                els = {norm(x).replace(" ", "") for x in r.elts}
                if {"math.inf", "-math.inf"} <= els and ((isinstance(op, ast.In) and not p) or (isinstance(op, ast.NotIn) and p)):
                    out.add("inf")
            # chained range test 0 <= v <= K true: finite
        if isinstance(a, ast.Compare) and len(a.ops) == 2 and p:
            if all(isinstance(o, (ast.Lt, ast.LtE)) for o in a.ops) and isinstance(a.left, ast.Constant):
                out |= {"nan", "inf", "neg"}
    return out


def _const_number(e: ast.AST):
    """The value of an arithmetic expression over number literals (2**53, 2**32 - 1, -(2**31)), or None."""
    if isinstance(e, ast.Constant) and isinstance(e.value, (int, float)) and not isinstance(e.value, bool):
        return e.value
    if isinstance(e, ast.UnaryOp) and isinstance(e.op, ast.USub):
        v = _const_number(e.operand)
        return None if v is None else -v
    if isinstance(e, ast.BinOp) and isinstance(e.op, (ast.Add, ast.Sub, ast.Mult, ast.Pow)):
        a, b = _const_number(e.left), _const_number(e.right)
        if a is None or b is None:
            return None
        if isinstance(e.op, ast.Pow):
            return a**b if isinstance(b, int) and 0 <= b <= 1100 and abs(a) <= 16 else None
        return a + b if isinstance(e.op, ast.Add) else a - b if isinstance(e.op, ast.Sub) else a * b
    return None


def _try_covers(site: ast.AST, f: Func, classes: Tuple[str, ...], t) -> Set[str]:
    """Exception classes (of `classes`) that an enclosing try in f catches."""
    caught: Set[str] = set()
    for tr, in_body in try_handlers_enclosing(site, f.node):
        if not in_body:
            continue
        for h in tr.handlers:
            if h.type is None:
                return set(classes)
            hs = [norm(x).split(".")[-1] for x in (h.type.elts if isinstance(h.type, ast.Tuple) else [h.type])]
            for c in classes:
                anc = t.exc_ancestors(f.module, c)
                if any(x in anc for x in hs):
                    caught.add(c)
    return caught


def rule_implicit_raisers(ctx, rep, rid: str, only: Optional[Callable[[str], bool]] = None) -> None:
    rep.rule(rid, "no host operation with a precondition (int/round/floor of NaN or Infinity, chr out of range, math domain/overflow, **, division by zero, struct/bytearray ranges) is applied to a script-derived operand that can violate it, unless the site handles the exception", floor=1 if only else 60)
    sr = ctx.facts.script_reachable()
    t = ctx.tree
    n_sites = 0
    _CTX[:] = [ctx]
    instantiated = _instantiated_classes(ctx)
    for f in t.funcs:
        if id(f) not in sr or f.module.name not in ("vm", "context", "values"):
            continue
        if only is not None and not only(f.qual):
            continue
        if f.is_method and f.cls is not None and f.cls.module.name == "values" and not _method_live(ctx, f, instantiated):
            continue  # method of a class no script can instantiate and that every instantiable subclass overrides
        env = None
        seen_keys: Dict[str, int] = {}
        for n in f.own_nodes():
            spec = None
            arg = None
            label = None
            if isinstance(n, ast.Call):
                fn = norm(n.func)
                if fn in RAISERS and n.args and RAISERS[fn][1]:
                    # int(s, base) parses text: a different contract, guarded separately
                    if fn == "int" and len(n.args) == 2:
                        continue
                    if fn == "float" and isinstance(n.args[0], ast.Constant):
                        try:
                            float(n.args[0].value)
                            continue  # float("nan"), float("-inf"), float(0): a literal the host accepts
                        except (ValueError, TypeError):
                            pass
                    spec = RAISERS[fn]
                    arg = n.args[-1] if fn == "struct.pack" else n.args[0]
                    label = fn
            elif isinstance(n, ast.BinOp) and isinstance(n.op, ast.Pow):
                spec = ("operands for which ** is a finite real", ("ZeroDivisionError", "OverflowError"), "0 ** -1 -> ZeroDivisionError; 2.5 ** 5000 -> OverflowError; (-8) ** (1/3) -> complex")
                arg = n
                label = "**"
            elif isinstance(n, ast.BinOp) and isinstance(n.op, (ast.Div, ast.FloorDiv, ast.Mod)) and not isinstance(n.left, ast.Constant) or (isinstance(n, ast.BinOp) and isinstance(n.op, (ast.Div, ast.FloorDiv, ast.Mod)) and isinstance(n.left, ast.Constant) and not isinstance(n.left.value, str)):
                if isinstance(n.left, ast.Constant) and isinstance(n.left.value, str):
                    continue
                if isinstance(n.left, ast.JoinedStr):
                    continue
                spec = ("non-zero divisor", ("ZeroDivisionError",), "1 / 0 -> ZeroDivisionError")
                arg = n.right
                label = {ast.Div: "/", ast.FloorDiv: "//", ast.Mod: "%"}[type(n.op)]
            cands = [(spec, arg, label, "")] if spec is not None else []
            if spec is None and isinstance(n, ast.Call) and isinstance(n.func, ast.Name) and n.args:
                # a host library function that reached this call as a value: fn(x) with fn = math.log, ...
                cs = ctx.cg.site_of_call.get(id(n))
                if cs is not None and cs.kind == "external" and cs.ext:
                    for d in cs.ext.split("|"):
                        if d in RAISERS and RAISERS[d][1]:
                            cands.append((RAISERS[d], n.args[0], d, f" [{n.func.id} = {d}]"))
            for spec, arg, label, suffix in cands:
                if env is None:
                    env = _env_cache(ctx, f)
                n_sites += 1
                need, classes, repro = spec
                site_txt = short(n, 70) + suffix
                key = f"{f.qual}:{site_txt}"
                seen_keys[key] = seen_keys.get(key, 0) + 1
                if seen_keys[key] > 1:
                    key = f"{key}#{seen_keys[key]}"
                loc = f"{f.module.rel}:{n.lineno}"
                verdict = _judge(label, n, arg, f, env, t, classes)
                if verdict is not None and (f.qual, site_txt) in PROVED_BY_HAND:
                    rep.ok(rid, key, {"proved_by_hand": PROVED_BY_HAND[(f.qual, site_txt)]})
                    continue
                if verdict is None:
                    rep.ok(rid, key)
                else:
                    rep.bad(rid, key, f"{f.qual}: `{site_txt}` needs a {need}, but {verdict}; CPython raises {'/'.join(classes)} ({repro}), which leaves eval as a host exception", loc)
    rep.analysed["implicit_raiser_sites"] = n_sites


def _judge(label: str, n: ast.AST, arg: ast.AST, f: Func, env: KindEnv, t, classes) -> Optional[str]:
    covered = _try_covers(n, f, classes, t)
    if label == "**":
        l, r = env.kind(n.left), env.kind(n.right)
        if isinstance(n.left, ast.Constant) and isinstance(n.left.value, int) and n.left.value > 0 and r == INT:
            # 10 ** exp with an int exponent: negative exponents give floats, huge ones big ints; fine unless used as divisor
            return None
        if l in (INT,) and r in (INT,) and isinstance(n.right, ast.Constant) and n.right.value >= 0:
            return None
        if isinstance(n.right, ast.BinOp) and isinstance(n.right.op, ast.Div) and isinstance(n.right.left, ast.Constant):
            # x ** (1 / 3): fractional exponent -> complex for negative bases
            ex = _excluded(n, n.left, f)
            if "neg" in ex:
                return None
            if isinstance(n.left, ast.UnaryOp) and isinstance(n.left.op, ast.USub) and isinstance(n.left.operand, ast.Name):
                v = n.left.operand.id
                if any(norm(tst) == f"{v} < 0" and pol for tst, pol in guards_of(n, f.node)):
                    return None  # -v with v < 0 is positive
            return "the base can be negative, giving a complex result"
        if NUM in (l, r) or RAW in (l, r):
            if set(classes) <= covered:
                return None
            return "the operands are arbitrary script numbers"
        return None
    if label in ("/", "//", "%"):
        k = env.kind(arg)
        if isinstance(arg, ast.Constant) and arg.value not in (0, 0.0):
            return None
        if isinstance(arg, ast.Constant):
            return "the divisor is the literal 0"
        ex = _excluded(n, arg, f)
        if "zero" in ex:
            return None
        if k in (NUM, RAW):
            if set(classes) <= covered:
                return None
            # 10 ** exp style divisors are handled by the ** row
            return "the divisor is a script number that may be 0"
        if isinstance(arg, ast.BinOp) and isinstance(arg.op, ast.Pow) and env.kind(arg.right) == INT and not (isinstance(arg.right, ast.Constant)):
            # abs_n / 10 ** exp : underflows to 0.0 for very negative exponents
            src = _exp_source(arg.right, env)
            if src:
                return f"the divisor {norm(arg)} underflows to 0.0 when {src}"
        return None
    k = env.kind(arg)
    ex = _excluded(n, arg, f)
    if label == "chr":
        # `expr & MASK` with a non-negative literal mask is in [0, MASK] whatever the (integer) operand is
        if isinstance(arg, ast.BinOp) and isinstance(arg.op, ast.BitAnd):
            masks = [x.value for x in (arg.left, arg.right) if isinstance(x, ast.Constant) and isinstance(x.value, int) and not isinstance(x.value, bool)]
            if masks and 0 <= min(masks) <= 0x10FFFF:
                return None
        if k == INT and ({"neg"} <= ex or _range_checked(n, arg, f)):
            return None
        if set(classes) <= covered:
            return None
        if k in (NUM, RAW, INT, FINITE, UNK):
            inner = arg.args[0] if isinstance(arg, ast.Call) and norm(arg.func) == "int" and arg.args else None
            if k == UNK and inner is None:
                return None
            return "the code point is a script number that may be negative or above 0x10FFFF"
        return None
    if label == "bytearray":
        if k == INT and "neg" in ex:
            return None
        if k in (NUM, RAW, INT, FINITE):
            if set(classes) <= covered:
                return None
            if isinstance(arg, ast.Constant):
                return None
            return "the length is script-derived and may be negative"
        return None
    if label == "struct.pack":
        fmt = n.args[0]
        if isinstance(fmt, ast.Constant) and fmt.value in ("<f", ">f", "=f", "!f") and k in (NUM, RAW, UNK, FINITE):
            inner = arg.args[0] if isinstance(arg, ast.Call) and norm(arg.func) == "float" and arg.args else None
            kk = env.kind(inner) if inner is not None else k
            if kk == UNK and inner is not None:
                a_txt = norm(inner)
                if any(pol and isinstance(t, ast.Call) and norm(t.func) == "isinstance" and len(t.args) == 2 and norm(t.args[0]) == a_txt and "float" in norm(t.args[1]) for t, pol in guards_of(n, f.node)):
                    kk = NUM  # narrowed to "a host number" by the site itself: any Number, huge ones included
            if isinstance(arg, ast.Call) and norm(arg.func) == "math.copysign" and arg.args and norm(arg.args[0]).replace(" ", "") in ("math.inf", "float('inf')"):
                return None  # an infinity of either sign packs as itself
            if kk in (NUM, RAW):
                # the operand is a float() result: the only failure left is the range (struct.error needs a non-float)
                needed = {"OverflowError"} if inner is not None else set(classes)
                if needed <= covered:
                    return None
                return "the value is a script number that can exceed the float32 range"
        return None
    # the finite-number family and math domain functions
    if k in (INT,):
        return None
    if k == STR and label in ("int", "float"):
        if "ValueError" in covered:
            return None
        if _grammar_checked(n, arg, f):
            return None
        return "the operand is script text that need not be numeric"
    if label == "float":
        return None  # a number (or a literal spelling such as "nan") converts without an exception
    if k == FINITE and label in ("int", "round", "math.floor", "math.ceil", "math.trunc", "math.sin", "math.cos", "math.tan"):
        return None
    if k == UNK:
        # a value of unknown origin that the site itself has just narrowed to "a host number"
        # (isinstance(v, (int, float)) / isinstance(v, float)) is any Number: NaN and the infinities included
        a_txt = norm(arg)
        narrowed = any(pol and isinstance(t, ast.Call) and norm(t.func) == "isinstance" and len(t.args) == 2 and norm(t.args[0]) == a_txt and "float" in norm(t.args[1]) for t, pol in guards_of(n, f.node))
        if not narrowed:
            return None
        k = NUM
    bad: List[str] = []
    if label in ("int", "round", "math.floor", "math.ceil", "math.trunc"):
        if "nan" not in ex:
            bad.append("NaN")
        if "inf" not in ex:
            bad.append("±Infinity")
        if k == RAW and "nonnumber" not in ex:
            bad.append("a non-number (string, object)")
    elif label in ("math.sin", "math.cos", "math.tan"):
        if "inf" not in ex:
            bad.append("±Infinity")
    elif label in ("math.exp", "math.expm1"):
        bad.append("larger than 709.78")
    elif label == "math.pow":
        bad.append("outside pow's real domain / overflowing")
    elif label in ("math.sqrt",):
        if "neg" not in ex:
            bad.append("negative")
    elif label in ("math.log", "math.log2", "math.log10"):
        if not ({"neg", "zero"} <= ex):
            bad.append("zero or negative")
    elif label == "math.log1p":
        if "neg" not in ex and not _compared(n, arg, f):
            bad.append("-1 or below")
    elif label in ("math.asin", "math.acos"):
        if not _compared(n, arg, f):
            bad.append("outside [-1, 1]")
    if not bad:
        return None
    remaining = set(classes) - covered
    if not remaining:
        return None
    return f"the operand ({short(arg, 40)}) is a script value that can be {' or '.join(bad)}"


def _compared(n: ast.AST, arg: ast.AST, f: Func) -> bool:
    """Is the operand range-tested (any ordered comparison guarding the site or an earlier early return)?"""
    names = _names(arg)
    for tst, pol in guards_of(n, f.node):
        if _names(tst) & names and any(isinstance(x, ast.Compare) for x in ast.walk(tst)):
            return True
    child = n
    p = getattr(n, "_parent", None)
    while p is not None:
        for field in ("body", "orelse"):
            blk = getattr(p, field, None)
            if isinstance(blk, list) and any(child is s for s in blk):
                idx = [i for i, s in enumerate(blk) if s is child][0]
                for s in blk[:idx]:
                    if isinstance(s, ast.If) and _names(s.test) & names and any(isinstance(x, ast.Compare) for x in ast.walk(s.test)) and s.body and isinstance(s.body[-1], (ast.Return, ast.Raise)):
                        return True
        if p is f.node:
            break
        child = p
        p = getattr(p, "_parent", None)
    # conditional expression: math.log2(x) if x > 0 else nan
    par = getattr(n, "_parent", None)
    while par is not None and not isinstance(par, ast.stmt):
        if isinstance(par, ast.IfExp) and _names(par.test) & names:
            return True
        par = getattr(par, "_parent", None)
    return False


def _grammar_checked(n: ast.AST, arg: ast.AST, f: Func) -> bool:
    """The text handed to int()/float() was matched against a compiled regular expression first: the site is
    inside `if PATTERN.match(text):` / after `if not PATTERN.match(text): return ...`, where PATTERN is a
    host-library object (re.compile at module level) and text is the operand or the name it is sliced from."""
    names = {x.id for x in ast.walk(arg) if isinstance(x, ast.Name)} - {"int", "float", "len"}
    if not names or not _CTX:
        return False
    cg = _CTX[0].cg

    def is_match(t, want: bool, pol: bool) -> bool:
        neg = False
        while isinstance(t, ast.UnaryOp) and isinstance(t.op, ast.Not):
            t, neg = t.operand, not neg
        if not (isinstance(t, ast.Call) and isinstance(t.func, ast.Attribute) and t.func.attr in ("match", "fullmatch") and t.args and isinstance(t.args[0], ast.Name) and t.args[0].id in names):
            return False
        if not cg._is_external_object(t.func.value, f):
            return False
        return (pol != neg) == want

    for tst, pol in guards_of(n, f.node):
        if is_match(tst, True, pol):
            return True
    child, p = n, getattr(n, "_parent", None)
    while p is not None:
        for field in ("body", "orelse"):
            blk = getattr(p, field, None)
            if isinstance(blk, list) and any(child is s_ for s_ in blk):
                idx = [i for i, s_ in enumerate(blk) if s_ is child][0]
                for s_ in blk[:idx]:
                    if isinstance(s_, ast.If) and s_.body and isinstance(s_.body[-1], (ast.Return, ast.Raise)) and not s_.orelse:
                        # `if not PATTERN.match(s): return` -> afterwards the match holds
                        if is_match(s_.test, True, False):
                            return True
        if p is f.node:
            break
        child, p = p, getattr(p, "_parent", None)
    return False


def _range_checked(n: ast.AST, arg: ast.AST, f: Func) -> bool:
    return _compared(n, arg, f)


def _exp_source(e: ast.AST, env: KindEnv) -> Optional[str]:
    if isinstance(e, ast.Name) and e.id in env.defs:
        for v in env.defs[e.id]:
            if "math.log10" in norm(v):
                return f"{e.id} (from log10 of a denormal such as 5e-324) is below -307"
    return None


def _instantiated_classes(ctx) -> Set[int]:
    out: Set[int] = set()
    for cs in ctx.cg.sites:
        if cs.ext and cs.ext.startswith("class:"):
            q = cs.ext[6:]
            for lst in ctx.tree.classes.values():
                for ci in lst:
                    if ci.qual == q:
                        out.add(id(ci))
    # classes stored in dict tables (type_classes = {"Int32Array": JSInt32Array, ...})
    for f in ctx.tree.funcs:
        for n in f.own_nodes():
            if isinstance(n, ast.Dict):
                for v in n.values:
                    if isinstance(v, ast.Name):
                        ci = ctx.cg._class_visible(v.id, f)
                        if ci is not None:
                            out.add(id(ci))
    return out


def _method_live(ctx, m: Func, instantiated: Set[int]) -> bool:
    for lst in ctx.tree.classes.values():
        for ci in lst:
            if id(ci) in instantiated and any(c is m.cls for c in ctx.tree.mro(ci)) and ctx.tree.find_method(ci, m.name) is m:
                return True
    return False


# Sites the abstract domain cannot discharge although no failing input exists: (function, site) -> reason.
PROVED_BY_HAND = {
    ("vm:VM._make_number_method.toPrecision", "int(js_round(rounded))"): "rounded = js_round(abs_n / 10**floor(log10(abs_n)), p) lies in [1, 10] for every finite non-zero abs_n",
    ("vm:VM._make_number_method.toPrecision", "int(rounded)"): "rounded = js_round(abs_n, k) with abs_n finite (NaN/Infinity returned earlier) is finite",
}


# ---- ord() of a case-mapped string ------------------------------------------------------------------
_CASE_MAPS = ("upper", "lower", "casefold", "title", "capitalize", "swapcase")


def rule_ord_of_case_mapping(ctx, rep, rid: str, modules: Optional[Tuple[str, ...]] = None, floor: int = 5) -> None:
    """ord(s) needs len(s) == 1.  Unicode case mappings change the length of some strings of length one
    ("ß".upper() == "SS", "İ".lower() is two code points), so ord() of a case-mapped character raises a host
    TypeError for those characters unless the length (or ASCII-ness of the operand) has been established."""
    rep.rule(rid, "ord() is never applied to the result of a Unicode case mapping (upper/lower/casefold/...) of a character unless the result's length is tested or the character is known to be ASCII: special casing makes some one-character strings longer", floor=floor)
    from ..util import guards_of, single_assignments

    for f in ctx.tree.funcs:
        if modules is not None and not f.module.name.startswith(modules):
            continue
        env = None
        for n in f.own_nodes():
            if not (isinstance(n, ast.Call) and isinstance(n.func, ast.Name) and n.func.id == "ord" and len(n.args) == 1):
                continue
            arg = n.args[0]
            if isinstance(arg, ast.Name):
                env = env if env is not None else single_assignments(f)
                arg = env.get(arg.id, arg)
            mapped = [c for c in ([arg.body, arg.orelse] if isinstance(arg, ast.IfExp) else [arg]) if isinstance(c, ast.Call) and isinstance(c.func, ast.Attribute) and c.func.attr in _CASE_MAPS and not c.args]
            key = f"{f.qual}:ord({short(n.args[0], 30)})"
            if not mapped:
                rep.ok(rid, key)
                continue
            m = mapped[0]
            base = norm(m.func.value)
            gs = [norm(t) for t, pol in guards_of(n, f.node) if pol]
            if isinstance(n.args[0], ast.IfExp):
                gs.append(norm(n.args[0].test))
            safe = any(f"len({norm(m)}) == 1" in g or f"{base}.isascii()" in g for g in gs)
            if safe:
                rep.ok(rid, key, {"guard": "length / ASCII established"})
            else:
                rep.bad(rid, key, f"{f.qual} takes ord() of {norm(m)}: for characters whose {m.func.attr}-case mapping is longer than one character (\\u00df, \\u0130, \\u0149 ...) this is a host TypeError that escapes eval", f"{f.module.rel}:{n.lineno}")


# ---- sequence repetition by a script-chosen count ------------------------------------------------------------
def rule_bounded_repetition(ctx, rep, rid: str, only=None) -> None:
    """`"0" * n` and `[x] * n` allocate n elements at once: with n taken from a script number (a digit count, a
    length) the host answers MemoryError or OverflowError unless n was compared with an upper bound first."""
    rep.rule(rid, "a host sequence is repeated (`seq * n`) by a count that comes from a script number only after that count was compared with an upper bound (a raise/return for larger values, or min(..)): the host's MemoryError/OverflowError for an absurd count is not a JSError", floor=3)
    from ..util import atoms, known_conditions

    sr = ctx.facts.script_reachable()
    n = 0
    for f in ctx.tree.funcs:
        if isinstance(f.node, ast.Lambda) or f.module.name not in ("vm", "context", "values"):
            continue
        if id(f) not in sr and f.module.name != "values":
            continue
        if only is not None and not only(f.qual):
            continue
        # script-number locals: results of to_integer / to_number / int(to_number(..)) and parameters of methods named length/value
        nums: Set[str] = set()
        for a in f.own_nodes():
            if isinstance(a, ast.Assign) and len(a.targets) == 1 and isinstance(a.targets[0], ast.Name):
                if any(isinstance(x, ast.Call) and call_name(x) in ("to_integer", "to_number", "_to_number", "_array_length", "_to_index") for x in ast.walk(a.value)):
                    nums.add(a.targets[0].id)
        params = [p for p in f.params() if p != "self"]
        for m in f.own_nodes():
            if not (isinstance(m, ast.BinOp) and isinstance(m.op, ast.Mult)):
                continue
            seq, cnt = None, None
            for x, y in ((m.left, m.right), (m.right, m.left)):
                if (isinstance(x, ast.Constant) and isinstance(x.value, str)) or isinstance(x, ast.List) or (isinstance(x, ast.Name) and x.id == "s" and any(g.name == "_make_string_method" for g in _ancestors_of(f))):
                    seq, cnt = x, y
            if seq is None:
                continue
            names = [v.id for v in ast.walk(cnt) if isinstance(v, ast.Name)]
            script = [v for v in names if v in nums or (v in params and f.module.name == "values" and v in ("length", "value", "count"))]
            if not script:
                continue
            n += 1
            v = script[0]
            key = f"{f.qual}:{short(m, 40)}"
            conds = []
            for t, pol in known_conditions(m, f.node):
                # `v is not None and (v < 0 or v > K)` known false: a v that is None is no number at all, so what is
                # left of the conjunction is false for every NUMBER v
                if not pol and isinstance(t, ast.BoolOp) and isinstance(t.op, ast.And) and len(t.values) == 2 and norm(t.values[0]) == f"{v} is not None":
                    t = t.values[1]
                conds.append((t, pol))
            ats = [(norm(a).replace(" ", ""), p) for t, pol in conds for a, p in atoms(t, pol)]
            bounded = any(((a.startswith(f"{v}>") or a.startswith(f"{v}>=")) and not p) or ((a.startswith(f"{v}<") or a.startswith(f"{v}<=")) and p and not a.startswith(f"{v}<0") and not a.startswith(f"{v}<1")) or ((f"*{v}>" in a or f"{v}*" in a and ">" in a) and not p) for a, p in ats)
            if not bounded:
                # an earlier `v = min(v, K)` or a clamp helper
                bounded = any(isinstance(a, ast.Assign) and any(isinstance(t, ast.Name) and t.id == v for t in a.targets) and isinstance(a.value, ast.Call) and norm(a.value.func) == "min" and a.lineno < m.lineno for a in f.own_nodes())
            if not bounded and f.module.name == "values" and v in params:
                # the object model's own methods: every caller passes a bounded value (checked at the call sites below)
                callers_ok = True
                def _script_value(g, c) -> bool:
                    loc = {a.targets[0].id for a in g.own_nodes() if isinstance(a, ast.Assign) and len(a.targets) == 1 and isinstance(a.targets[0], ast.Name) and any(isinstance(x, ast.Call) and call_name(x) in ("to_integer", "to_number", "_to_number") for x in ast.walk(a.value))}
                    return any(isinstance(x, ast.Name) and x.id in loc for x in ast.walk(c.value))

                sites = [(g, c) for g in ctx.tree.funcs if g.module.name in ("vm", "context") and not isinstance(g.node, ast.Lambda) for c in g.own_nodes() if isinstance(c, ast.Assign) and any(isinstance(t, ast.Attribute) and t.attr == f.name and norm(t.value) != "self" for t in c.targets) and _script_value(g, c)] if f.name == "length" else []
                for g, c in sites:
                    ats2 = [(norm(a).replace(" ", ""), p) for t, pol in known_conditions(c, g.node) for a, p in atoms(t, pol)]
                    vv = [x.id for x in ast.walk(c.value) if isinstance(x, ast.Name)]
                    if not any(any((a.startswith(f"{w}>") and not p) for a, p in ats2) for w in vv):
                        callers_ok = False
                        rep.bad(rid, key + f":{g.name}", f"{g.qual} assigns a script number to .{f.name} (line {c.lineno}) without an upper bound, and {f.qual} allocates that many elements at once (`{short(m, 40)}`): MemoryError for an absurd length is a host exception", f"{g.module.rel}:{c.lineno}")
                if sites and callers_ok:
                    bounded = True
                elif not sites:
                    n -= 1
                    continue
                else:
                    continue
            if bounded:
                rep.ok(rid, key, {"count": v})
            else:
                rep.bad(rid, key, f"{f.qual} repeats a sequence `{short(m, 40)}` by `{v}`, a script number that no earlier test bounds from above on this path: for {v} = 1e9 or Infinity (clamped to 2**53) the host raises MemoryError / OverflowError, which leaves eval as a host exception no script can catch", f"{f.module.rel}:{m.lineno}")
    if n < 3:
        raise AnalysisError(f"{rid}: only {n} repetitions by a script count found")


def _ancestors_of(f: Func):
    g = f.parent
    while g is not None:
        yield g
        g = g.parent
