"""C15-R1: hash-ordered sequences (derived from Python sets) are only used through
order-insensitive operations."""

from __future__ import annotations

import ast
from typing import Dict, List, Optional, Set, Tuple

from ..core import AnalysisError, Func, call_name, norm, short, walk_no_nested

MODULES = ("compiler", "vm", "context")


def _set_functions(ctx) -> Set[str]:
    out = set()
    for f in ctx.tree.funcs:
        r = getattr(f.node, "returns", None)
        if r is not None and norm(r).lower().startswith("set"):
            out.add(f.name)
    return out


def _set_names(f: Func, setfuncs: Set[str]) -> Set[str]:
    """Local names of f that hold a Python set."""
    names: Set[str] = set()
    a = f.node.args
    for x in a.posonlyargs + a.args + a.kwonlyargs:
        if x.annotation is not None and norm(x.annotation).lower().startswith("set"):
            names.add(x.arg)
    changed = True
    while changed:
        changed = False
        for n in f.own_nodes():
            if isinstance(n, ast.Assign) and len(n.targets) == 1 and isinstance(n.targets[0], ast.Name):
                v = n.value
                is_set = False
                if isinstance(v, (ast.Set, ast.SetComp)):
                    is_set = True
                elif isinstance(v, ast.Call):
                    fn = norm(v.func)
                    if fn in ("set", "frozenset"):
                        is_set = True
                    elif isinstance(v.func, ast.Attribute) and v.func.attr in setfuncs:
                        is_set = True
                    elif isinstance(v.func, ast.Attribute) and v.func.attr == "copy" and isinstance(v.func.value, ast.Name) and v.func.value.id in names:
                        is_set = True
                    elif isinstance(v.func, ast.Name) and v.func.id in setfuncs:
                        is_set = True
                elif isinstance(v, ast.BinOp) and isinstance(v.op, (ast.BitOr, ast.BitAnd, ast.Sub)) and any(isinstance(x, ast.Name) and x.id in names for x in (v.left, v.right)):
                    is_set = True
                if is_set and n.targets[0].id not in names:
                    names.add(n.targets[0].id)
                    changed = True
    return names


def rule_hash_order(ctx, rep, rid: str) -> None:
    rep.rule(rid, "sequences whose order comes from iterating a Python set (slot tables of locals / cell / free variables) are only used through order-insensitive operations: membership, name -> index lookup, length, copy, append, and iteration that builds a parallel table", floor=12)
    setfuncs = _set_functions(ctx)
    tainted: Dict[str, str] = {}  # attribute/field name -> where the taint came from
    sources = 0
    funcs = [f for f in ctx.tree.funcs if f.module.name in MODULES and not isinstance(f.node, ast.Lambda)]
    # 1. sources: set -> sequence conversions
    for f in funcs:
        sn = _set_names(f, setfuncs)
        if not sn:
            continue
        for n in f.own_nodes():
            # self.A = list(S) / tuple(S) / [x for x in S]
            if isinstance(n, ast.Assign):
                v = n.value
                conv = None
                if isinstance(v, ast.Call) and norm(v.func) in ("list", "tuple") and v.args and isinstance(v.args[0], ast.Name) and v.args[0].id in sn:
                    conv = v.args[0].id
                if isinstance(v, ast.ListComp) and isinstance(v.generators[0].iter, ast.Name) and v.generators[0].iter.id in sn:
                    conv = v.generators[0].iter.id
                if conv:
                    sources += 1
                    for t in n.targets:
                        if isinstance(t, ast.Attribute):
                            tainted[t.attr] = f"{f.qual}:{n.lineno}: {short(n, 60)}"
                        elif isinstance(t, ast.Name):
                            tainted["@" + f.qual + ":" + t.id] = f"{f.qual}:{n.lineno}"
                if isinstance(v, ast.Call) and norm(v.func) == "sorted":
                    continue
            # for x in S: ... L.append(x)
            if isinstance(n, ast.For) and isinstance(n.iter, ast.Name) and n.iter.id in sn:
                sources += 1
                key = f"{f.qual}:for {norm(n.target)} in {n.iter.id}"
                bad = None
                for c in ast.walk(ast.Module(body=n.body, type_ignores=[])):
                    if isinstance(c, ast.Call) and isinstance(c.func, ast.Attribute):
                        if c.func.attr == "append" and isinstance(c.func.value, ast.Attribute):
                            tainted[c.func.value.attr] = f"{f.qual}:{n.lineno}: appended while iterating the set {n.iter.id}"
                        if c.func.attr in ("_emit", "_emit_jump", "join", "write") or norm(c.func) == "print":
                            bad = norm(c.func)
                if bad:
                    rep.bad(rid, key, f"{f.qual} calls {bad} while iterating the set {n.iter.id}: the order of the effect depends on the host's string-hash seed", f"{f.module.rel}:{n.lineno}")
                else:
                    rep.ok(rid, key)
    if sources < 3:
        raise AnalysisError(f"only {sources} set->sequence conversions found (expected >= 3): anchors vanished")
    # 2. propagate through constructor keywords and simple copies
    changed = True
    while changed:
        changed = False
        for f in funcs:
            for n in f.own_nodes():
                if isinstance(n, ast.Call) and call_name(n) == "CompiledFunction":
                    for kw in n.keywords:
                        v = kw.value
                        if isinstance(v, ast.Subscript) and isinstance(v.slice, ast.Slice):
                            v = v.value
                        for x in [v]:
                            if isinstance(x, ast.Attribute) and x.attr in tainted and kw.arg not in tainted:
                                tainted[kw.arg] = f"CompiledFunction field fed from .{x.attr}"
                                changed = True
                if isinstance(n, ast.Assign) and len(n.targets) == 1 and isinstance(n.targets[0], ast.Attribute):
                    v = n.value
                    src = None
                    if isinstance(v, ast.Attribute) and v.attr in tainted:
                        src = v.attr
                    if isinstance(v, ast.Subscript) and isinstance(v.value, ast.Attribute) and v.value.attr in tainted and isinstance(v.slice, ast.Slice) and v.slice.lower is None and v.slice.upper is None:
                        src = v.value.attr
                    if src and n.targets[0].attr not in tainted and n.targets[0].attr not in ("locals",):
                        # saving/restoring old state (old_x = self.x) is by Name, not attribute, so this is a genuine copy
                        pass
    rep.analysed["hash_ordered_tables"] = {k: v for k, v in tainted.items() if not k.startswith("@")}
    names = {k for k in tainted if not k.startswith("@")}
    # CallFrame.locals holds values (a parallel table), not names: only the name tables are tainted
    # 3. every use of a tainted table
    for f in funcs:
        index_vars: Set[str] = set()
        for n in f.own_nodes():
            if isinstance(n, ast.Assign) and isinstance(n.value, ast.Call) and isinstance(n.value.func, ast.Attribute) and n.value.func.attr == "index" and isinstance(n.value.func.value, ast.Attribute) and n.value.func.value.attr in names and isinstance(n.targets[0], ast.Name):
                index_vars.add(n.targets[0].id)
        for n in f.own_nodes():
            if not (isinstance(n, ast.Attribute) and n.attr in names and isinstance(n.ctx, ast.Load)):
                continue
            if n.attr == "locals" and norm(n.value) in ("frame", "self.call_stack[-1]"):
                continue  # CallFrame.locals: the value table, indexed by slots
            p = getattr(n, "_parent", None)
            use = _classify_use(n, p, f)
            key = f"{f.qual}:.{n.attr}:{use[1]}"
            if use[0]:
                rep.ok(rid, key)
            else:
                rep.bad(rid, key, f"{f.qual} uses the hash-ordered table .{n.attr} positionally ({short(p, 60)}): the result depends on the host's string-hash seed ({tainted[n.attr]})", f"{f.module.rel}:{n.lineno}")
        # indices obtained by name must not be compared with literals
        for n in f.own_nodes():
            if isinstance(n, ast.Compare) and isinstance(n.left, ast.Name) and n.left.id in index_vars:
                c = n.comparators[0]
                if isinstance(c, ast.Constant) and isinstance(c.value, int) and not isinstance(n.ops[0], (ast.Is, ast.IsNot)):
                    rep.bad(rid, f"{f.qual}:{n.left.id}:literal-compare", f"{f.qual} compares a slot number taken from a hash-ordered table with the literal {c.value}", f"{f.module.rel}:{n.lineno}")


def rule_frame_positions(ctx, rep, rid: str) -> None:
    """Slots of a call frame beyond the parameter prefix are numbered in hash order: they may only be
    filled by name (slot = table.index(name)), never by position."""
    rep.rule(rid, "a call frame's local slots are filled positionally only inside the parameter prefix (i < len(params), the `arguments` slot len(params)); every other slot is addressed through name -> index lookup and the frame starts as a constant fill", floor=2)
    n = 0
    for f in ctx.tree.funcs:
        if f.module.name not in MODULES:
            continue
        frames: Dict[str, ast.Assign] = {}
        for x in f.own_nodes():
            if not (isinstance(x, ast.Attribute) and x.attr == "num_locals" and isinstance(x.ctx, ast.Load)):
                continue
            n += 1
            par = getattr(x, "_parent", None)
            key = f"{f.qual}:num_locals:{type(par).__name__}"
            if isinstance(par, ast.BinOp) and isinstance(par.op, ast.Mult) and isinstance(par.left, ast.List) and len(par.left.elts) == 1 and isinstance(par.left.elts[0], (ast.Name, ast.Constant)):
                rep.ok(rid, key, {"use": "constant fill"})
                st = par
                while st is not None and not isinstance(st, ast.stmt):
                    st = getattr(st, "_parent", None)
                if isinstance(st, ast.Assign) and isinstance(st.targets[0], ast.Name) and st.value is par:
                    frames[st.targets[0].id] = st
            elif isinstance(par, ast.Compare):
                rep.ok(rid, key, {"use": "bounds test"})
            elif isinstance(par, ast.keyword) or isinstance(par, ast.Call) and norm(par.func) == "len":
                rep.ok(rid, key)
            else:
                st = par
                while st is not None and not isinstance(st, ast.stmt):
                    st = getattr(st, "_parent", None)
                rep.bad(rid, key, f"{f.qual} uses num_locals to build or fill a frame positionally ({short(st or par, 70)}): values land in local slots whose numbering depends on the host's string-hash seed", f"{f.module.rel}:{x.lineno}")
        for name, a in frames.items():
            idx_ok: Set[str] = set()
            for b in f.own_nodes():
                if isinstance(b, ast.Assign) and isinstance(b.targets[0], ast.Name):
                    t = norm(b.value)
                    if ".index(" in t or (t.startswith("len(") and t.endswith(".params)")):
                        idx_ok.add(b.targets[0].id)
            for b in f.own_nodes():
                if isinstance(b, ast.Assign):
                    for tg in b.targets:
                        if isinstance(tg, ast.Subscript) and isinstance(tg.value, ast.Name) and tg.value.id == name:
                            i = tg.slice
                            k2 = f"{f.qual}:{name}[{norm(i)}]"
                            ok = isinstance(i, ast.Name) and i.id in idx_ok
                            if not ok and isinstance(i, ast.Name):
                                from ..util import guards_of

                                g = [norm(t) for t, pol in guards_of(b, f.node) if pol]
                                ok = any(x.startswith(f"{i.id} < len(") and x.endswith(".params)") for x in g)
                            if ok:
                                rep.ok(rid, k2)
                            else:
                                rep.bad(rid, k2, f"{f.qual} stores into frame slot {norm(i)} of `{name}` without proving it lies in the parameter prefix or comes from a name lookup", f"{f.module.rel}:{b.lineno}")
    if n < 2:
        raise AnalysisError(f"only {n} frame constructions found")


def _classify_use(n: ast.Attribute, p: Optional[ast.AST], f: Func) -> Tuple[bool, str]:
    if isinstance(p, ast.Compare):
        if any(isinstance(o, (ast.In, ast.NotIn)) for o in p.ops) and n in p.comparators:
            return True, "membership"
        return False, "compare"
    if isinstance(p, ast.Attribute):
        gp = getattr(p, "_parent", None)
        if isinstance(gp, ast.Call) and gp.func is p:
            if p.attr in ("index", "append", "copy", "count", "__contains__"):
                return True, p.attr
            return False, f"method:{p.attr}"
        return False, f"attr:{p.attr}"
    if isinstance(p, ast.Call):
        fn = norm(p.func)
        if fn in ("len", "set", "frozenset", "sorted", "list", "tuple", "bool"):
            return True, fn
        if fn == "getattr":
            return True, "getattr"
        if call_name(p) == "CompiledFunction":
            return True, "constructor-field"
        return False, f"call:{short(p.func, 30)}"
    if isinstance(p, ast.keyword):
        gp = getattr(p, "_parent", None)
        if isinstance(gp, ast.Call) and call_name(gp) == "CompiledFunction":
            return True, "constructor-field"
        return False, "keyword"
    if isinstance(p, ast.Subscript) and p.value is n:
        if isinstance(p.slice, ast.Slice) and p.slice.lower is None and p.slice.upper is None:
            return True, "copy-slice"
        return False, "subscript"
    if isinstance(p, (ast.For, ast.comprehension)) and p.iter is n:
        body = p.body if isinstance(p, ast.For) else []
        for s in body:
            for c in walk_no_nested(s):
                if isinstance(c, ast.Call) and (norm(c.func).startswith("self._emit") or call_name(c) in ("join", "print", "write")):
                    return False, "iteration-with-effects"
                if isinstance(c, ast.JoinedStr):
                    return False, "iteration-formats"
        if isinstance(p, ast.comprehension):
            return False, "comprehension"
        return True, "iteration-builds-parallel-table"
    if isinstance(p, ast.Assign):
        return True, "alias"
    if isinstance(p, (ast.If, ast.While, ast.BoolOp, ast.UnaryOp, ast.IfExp)):
        return True, "truthiness"
    if isinstance(p, ast.BinOp) and isinstance(p.op, ast.Add):
        return False, "concatenation"
    if isinstance(p, ast.Return):
        return True, "return"
    if isinstance(p, ast.Starred):
        return False, "splat"
    return False, type(p).__name__
