"""C15-R1: hash-ordered sequences (derived from Python sets) are only used through
order-insensitive operations."""

from __future__ import annotations

import ast
import re
from typing import Dict, List, Optional, Set, Tuple

from ..core import AnalysisError, Func, call_name, norm, short, walk_no_nested

MODULES = ("compiler", "vm", "context", "values")


def _set_functions(ctx) -> Set[str]:
    out = set()
    for f in ctx.tree.funcs:
        r = getattr(f.node, "returns", None)
        if r is not None and norm(r).lower().startswith("set"):
            out.add(f.name)
    return out


def _set_names(f: Func, setfuncs: Set[str]) -> Set[str]:
    """Local names of f that hold a Python set."""
    names: Set[str] = set()
    a = f.node.args
    for x in a.posonlyargs + a.args + a.kwonlyargs:
        if x.annotation is not None and re.search(r"\b(Set|set|FrozenSet|frozenset|AbstractSet|MutableSet)\b", norm(x.annotation)):
            names.add(x.arg)
    changed = True
    while changed:
        changed = False
        for n in f.own_nodes():
            if isinstance(n, ast.Assign) and len(n.targets) == 1 and isinstance(n.targets[0], ast.Name):
                v = n.value
                is_set = False
                if isinstance(v, ast.IfExp):
                    # `set() if given is None else given`: a set either way when one arm is
                    arms = [v.body, v.orelse]
                    if any(isinstance(x, (ast.Set, ast.SetComp)) or (isinstance(x, ast.Call) and norm(x.func) in ("set", "frozenset")) or (isinstance(x, ast.Name) and x.id in names) for x in arms):
                        is_set = True
                if isinstance(v, (ast.Set, ast.SetComp)):
                    is_set = True
                elif isinstance(v, ast.Call):
                    fn = norm(v.func)
                    if fn in ("set", "frozenset"):
                        is_set = True
                    elif isinstance(v.func, ast.Attribute) and v.func.attr in setfuncs:
                        is_set = True
                    elif isinstance(v.func, ast.Attribute) and v.func.attr == "copy" and isinstance(v.func.value, ast.Name) and v.func.value.id in names:
                        is_set = True
                    elif isinstance(v.func, ast.Name) and v.func.id in setfuncs:
                        is_set = True
                elif isinstance(v, ast.BinOp) and isinstance(v.op, (ast.BitOr, ast.BitAnd, ast.Sub, ast.BitXor)) and any((isinstance(x, ast.Name) and x.id in names) or isinstance(x, (ast.Set, ast.SetComp)) or (isinstance(x, ast.Call) and norm(x.func) in ("set", "frozenset")) for x in (v.left, v.right)):
                    is_set = True
                if is_set and n.targets[0].id not in names:
                    names.add(n.targets[0].id)
                    changed = True
    return names


_SET_METHODS = ("difference", "union", "intersection", "symmetric_difference", "copy")


def _sort_key_total(call: ast.Call) -> bool:
    """Does sorted(S, key=..) order every pair of distinct elements?  Without a key it does (names are strings).  A key
    does when it returns the element itself or a tuple that contains it; a key such as `lambda v: v in captured` has
    two values, and the stable sort keeps the set's own (hash) order among equal keys."""
    kw = next((k.value for k in call.keywords if k.arg == "key"), None)
    if kw is None:
        return True
    if isinstance(kw, ast.Name) and kw.id in ("str", "repr"):
        return True
    if isinstance(kw, ast.Lambda) and len(kw.args.args) == 1:
        p = kw.args.args[0].arg
        b = kw.body
        if isinstance(b, ast.Name) and b.id == p:
            return True
        if isinstance(b, (ast.Tuple, ast.List)) and any(isinstance(e, ast.Name) and e.id == p for e in b.elts):
            return True
    return False


def _is_set_expr(e: ast.AST, sn: Set[str], setfuncs: Set[str]) -> bool:
    """Does e evaluate to a Python set: a set-typed local, a display/comprehension, set(..), a set method that
    returns a set (S.difference(x)), a set operator?"""
    if isinstance(e, ast.Name):
        return e.id in sn
    if isinstance(e, (ast.Set, ast.SetComp)):
        return True
    if isinstance(e, ast.Call):
        if norm(e.func) in ("set", "frozenset"):
            return True
        if isinstance(e.func, ast.Attribute) and e.func.attr in _SET_METHODS and _is_set_expr(e.func.value, sn, setfuncs):
            return True
        if (isinstance(e.func, ast.Attribute) and e.func.attr in setfuncs) or (isinstance(e.func, ast.Name) and e.func.id in setfuncs):
            return True
        return False
    if isinstance(e, ast.BinOp) and isinstance(e.op, (ast.BitOr, ast.BitAnd, ast.Sub, ast.BitXor)):
        if _is_set_expr(e.left, sn, setfuncs) or _is_set_expr(e.right, sn, setfuncs):
            return True
        # the set operators of dictionary views build a plain set: d.keys() | e.keys(), d.items() & e.items()
        def view(x):
            return isinstance(x, ast.Call) and isinstance(x.func, ast.Attribute) and x.func.attr in ("keys", "items") and not x.args

        return view(e.left) or view(e.right)
    return False


def rule_hash_order(ctx, rep, rid: str) -> None:
    rep.rule(rid, "sequences whose order comes from iterating a Python set (slot tables of locals / cell / free variables) are only used through order-insensitive operations: membership, name -> index lookup, length, copy, append, and iteration that builds a parallel table; a conversion through sorted() is not hash-ordered at all", floor=5)
    setfuncs = _set_functions(ctx)
    tainted: Dict[str, str] = {}  # attribute/field name -> where the taint came from
    sources = 0
    ordered = 0
    funcs = [f for f in ctx.tree.funcs if f.module.name in MODULES and not isinstance(f.node, ast.Lambda)]
    # 1. sources: set -> sequence conversions
    for f in funcs:
        sn = _set_names(f, setfuncs)
        if not sn:
            continue
        for n in f.own_nodes():
            # self.A = list(S) / tuple(S) / [x for x in S]
            if isinstance(n, ast.Assign):
                v = n.value
                conv = None
                if isinstance(v, ast.Call) and norm(v.func) in ("list", "tuple") and v.args and isinstance(v.args[0], ast.Name) and v.args[0].id in sn:
                    conv = v.args[0].id
                if isinstance(v, ast.ListComp) and isinstance(v.generators[0].iter, ast.Name) and v.generators[0].iter.id in sn:
                    conv = v.generators[0].iter.id
                if conv:
                    sources += 1
                    for t in n.targets:
                        if isinstance(t, ast.Attribute):
                            tainted[t.attr] = f"{f.qual}:{n.lineno}: {short(n, 60)}"
                        elif isinstance(t, ast.Name):
                            tainted["@" + f.qual + ":" + t.id] = f"{f.qual}:{n.lineno}"
                if isinstance(v, ast.Call) and norm(v.func) == "sorted" and v.args and isinstance(v.args[0], ast.Name) and v.args[0].id in sn and not _sort_key_total(v):
                    sources += 1
                    rep.bad(rid, f"{f.qual}:{norm(n.targets[0])} = sorted({v.args[0].id}, key)", f"{f.qual} sorts the set {v.args[0].id} with a key that does not tell all elements apart ({short(v, 60)}): the sort is stable, so elements with equal keys stay in the set's iteration order, which depends on the host's string-hash seed", f"{f.module.rel}:{n.lineno}")
                    continue
                if isinstance(v, ast.Call) and norm(v.func) == "sorted" and v.args and isinstance(v.args[0], ast.Name) and v.args[0].id in sn:
                    # sorted(S): the sequence's order is a function of its contents, not of the hash seed
                    ordered += 1
                    rep.ok(rid, f"{f.qual}:{norm(n.targets[0])} = sorted({v.args[0].id})", {"order": "sorted: independent of the hash seed"})
                    continue
            # self.A.extend(<set expression>) / self.A += <set expression>: the table grows in hash order
            if isinstance(n, ast.Call) and isinstance(n.func, ast.Attribute) and n.func.attr == "extend" and isinstance(n.func.value, ast.Attribute) and n.args:
                a0 = n.args[0]
                inner = a0.args[0] if isinstance(a0, ast.Call) and norm(a0.func) in ("list", "tuple") and a0.args else a0
                if _is_set_expr(inner, sn, setfuncs) and not (isinstance(a0, ast.Call) and norm(a0.func) == "sorted"):
                    sources += 1
                    tainted[n.func.value.attr] = f"{f.qual}:{n.lineno}: {short(n, 60)}"
            # for x in sorted(S): deterministic
            if isinstance(n, ast.For) and isinstance(n.iter, ast.Call) and norm(n.iter.func) == "sorted" and n.iter.args and isinstance(n.iter.args[0], ast.Name) and n.iter.args[0].id in sn and not _sort_key_total(n.iter):
                sources += 1
                rep.bad(rid, f"{f.qual}:for {norm(n.target)} in sorted({n.iter.args[0].id}, key)", f"{f.qual} iterates the set {n.iter.args[0].id} sorted with a key that does not tell all elements apart ({short(n.iter, 60)}): the sort is stable, so elements with equal keys keep the set's iteration order, which depends on the host's string-hash seed (slot numbers, and the error texts that quote them, then differ between runs)", f"{f.module.rel}:{n.lineno}")
                continue
            if isinstance(n, ast.For) and isinstance(n.iter, ast.Call) and norm(n.iter.func) == "sorted" and n.iter.args and isinstance(n.iter.args[0], ast.Name) and n.iter.args[0].id in sn:
                ordered += 1
                rep.ok(rid, f"{f.qual}:for {norm(n.target)} in sorted({n.iter.args[0].id})", {"order": "sorted: independent of the hash seed"})
            # for x in S: ... L.append(x)
            if isinstance(n, ast.For) and isinstance(n.iter, ast.Name) and n.iter.id in sn:
                sources += 1
                key = f"{f.qual}:for {norm(n.target)} in {n.iter.id}"
                bad = None
                for c in ast.walk(ast.Module(body=n.body, type_ignores=[])):
                    if isinstance(c, ast.Call) and isinstance(c.func, ast.Attribute):
                        if c.func.attr == "append" and isinstance(c.func.value, ast.Attribute):
                            tainted[c.func.value.attr] = f"{f.qual}:{n.lineno}: appended while iterating the set {n.iter.id}"
                        if c.func.attr in ("_emit", "_emit_jump", "join", "write") or norm(c.func) == "print":
                            bad = norm(c.func)
                if bad:
                    rep.bad(rid, key, f"{f.qual} calls {bad} while iterating the set {n.iter.id}: the order of the effect depends on the host's string-hash seed", f"{f.module.rel}:{n.lineno}")
                else:
                    rep.ok(rid, key)
    # 1b. local sequences filled from a set and then handed on in an order-sensitive way
    for f in funcs:
        sn = _set_names(f, setfuncs)

        def over_set(e: ast.AST, consumed: bool = False) -> Optional[str]:
            """e is a sequence built in the iteration order of a set; with consumed=True e is iterated by its user
            (extend, +=), so a set-valued expression itself counts."""
            if isinstance(e, (ast.ListComp, ast.GeneratorExp)) and isinstance(e.generators[0].iter, ast.Name) and e.generators[0].iter.id in sn:
                return e.generators[0].iter.id
            if isinstance(e, (ast.ListComp, ast.GeneratorExp)) and not isinstance(e.generators[0].iter, ast.Name) and _is_set_expr(e.generators[0].iter, sn, setfuncs):
                return short(e.generators[0].iter, 40)
            if isinstance(e, ast.Call) and norm(e.func) in ("list", "tuple") and e.args:
                if isinstance(e.args[0], ast.Name) and e.args[0].id in sn:
                    return e.args[0].id
                return over_set(e.args[0])
            if consumed and not isinstance(e, ast.Name) and _is_set_expr(e, sn, setfuncs):
                return short(e, 40)  # a set-valued expression consumed in iteration order
            return None

        seqs: Dict[str, Tuple[str, int]] = {}
        for n in f.own_nodes():
            if isinstance(n, ast.Assign) and len(n.targets) == 1 and isinstance(n.targets[0], ast.Name) and over_set(n.value):
                seqs[n.targets[0].id] = (over_set(n.value), n.lineno)
            if isinstance(n, ast.Call) and isinstance(n.func, ast.Attribute) and n.func.attr in ("extend", "append") and isinstance(n.func.value, ast.Name) and n.args and over_set(n.args[0], n.func.attr == "extend") and n.func.value.id not in sn:
                seqs[n.func.value.id] = (over_set(n.args[0], n.func.attr == "extend"), n.lineno)
            if isinstance(n, ast.AugAssign) and isinstance(n.target, ast.Name) and n.target.id not in sn and isinstance(n.op, ast.Add) and over_set(n.value, True):
                seqs[n.target.id] = (over_set(n.value, True), n.lineno)
            if isinstance(n, ast.For) and isinstance(n.iter, ast.Name) and n.iter.id in sn:
                for c in ast.walk(ast.Module(body=n.body, type_ignores=[])):
                    if isinstance(c, ast.Call) and isinstance(c.func, ast.Attribute) and c.func.attr in ("append", "extend", "insert") and isinstance(c.func.value, ast.Name):
                        seqs[c.func.value.id] = (n.iter.id, n.lineno)
        for name, (sset, line) in seqs.items():
            sources += 1
            key = f"{f.qual}:{name}<-{sset}"
            sink = None
            for n in f.own_nodes():
                if isinstance(n, ast.Return) and n.value is not None and any(isinstance(x, ast.Name) and x.id == name for x in ast.walk(n.value)) and not (isinstance(n.value, ast.Call) and norm(n.value.func) in ("sorted", "len", "set", "frozenset")):
                    sink = f"returned at line {n.lineno}"
                if isinstance(n, ast.Assign) and isinstance(n.value, ast.Name) and n.value.id == name and any(isinstance(t, ast.Attribute) and t.attr in ("_elements", "keys") for t in n.targets):
                    sink = f"stored as {norm(n.targets[0])} at line {n.lineno}"
                if isinstance(n, ast.Call) and isinstance(n.func, ast.Attribute) and n.func.attr == "join" and n.args and isinstance(n.args[0], ast.Name) and n.args[0].id == name:
                    sink = f"joined into a string at line {n.lineno}"
                if isinstance(n, ast.Call) and isinstance(n.func, ast.Name) and n.func.id[:1].isupper() and any(isinstance(a, ast.Name) and a.id == name for a in n.args):
                    sink = f"passed to {n.func.id}(...) at line {n.lineno}"
            if sink:
                rep.bad(rid, key, f"{f.qual} fills `{name}` by iterating the set `{sset}` (line {line}) and the sequence is {sink}: its order changes with the host's string-hash seed (sort it, or keep an insertion-ordered dict)", f"{f.module.rel}:{line}")
            else:
                rep.ok(rid, key, {"use": "local, order-insensitive"})
    if sources + ordered < 3:
        raise AnalysisError(f"only {sources + ordered} set->sequence conversions found (expected >= 3): anchors vanished")
    rep.analysed["set_to_sequence_conversions"] = {"hash_ordered": sources, "sorted": ordered}
    # 2. propagate through constructor keywords and simple copies
    changed = True
    while changed:
        changed = False
        for f in funcs:
            for n in f.own_nodes():
                if isinstance(n, ast.Call) and call_name(n) == "CompiledFunction":
                    for kw in n.keywords:
                        v = kw.value
                        if isinstance(v, ast.Subscript) and isinstance(v.slice, ast.Slice):
                            v = v.value
                        for x in [v]:
                            if isinstance(x, ast.Attribute) and x.attr in tainted and kw.arg not in tainted:
                                tainted[kw.arg] = f"CompiledFunction field fed from .{x.attr}"
                                changed = True
                if isinstance(n, ast.Assign) and len(n.targets) == 1 and isinstance(n.targets[0], ast.Attribute):
                    v = n.value
                    src = None
                    if isinstance(v, ast.Attribute) and v.attr in tainted:
                        src = v.attr
                    if isinstance(v, ast.Subscript) and isinstance(v.value, ast.Attribute) and v.value.attr in tainted and isinstance(v.slice, ast.Slice) and v.slice.lower is None and v.slice.upper is None:
                        src = v.value.attr
                    if src and n.targets[0].attr not in tainted and n.targets[0].attr not in ("locals",):
                        # saving/restoring old state (old_x = self.x) is by Name, not attribute, so this is a genuine copy
                        pass
    rep.analysed["hash_ordered_tables"] = {k: v for k, v in tainted.items() if not k.startswith("@")}
    names = {k for k in tainted if not k.startswith("@")}
    ctx.__dict__["_hash_ordered_tables"] = dict((k, tainted[k]) for k in names)
    # CallFrame.locals holds values (a parallel table), not names: only the name tables are tainted
    # 3. every use of a tainted table
    for f in funcs:
        index_vars: Set[str] = set()
        for n in f.own_nodes():
            if isinstance(n, ast.Assign) and isinstance(n.value, ast.Call) and isinstance(n.value.func, ast.Attribute) and n.value.func.attr == "index" and isinstance(n.value.func.value, ast.Attribute) and n.value.func.value.attr in names and isinstance(n.targets[0], ast.Name):
                index_vars.add(n.targets[0].id)
        for n in f.own_nodes():
            if not (isinstance(n, ast.Attribute) and n.attr in names and isinstance(n.ctx, ast.Load)):
                continue
            if n.attr == "locals" and norm(n.value) in ("frame", "self.call_stack[-1]"):
                continue  # CallFrame.locals: the value table, indexed by slots
            p = getattr(n, "_parent", None)
            use = _classify_use(n, p, f)
            key = f"{f.qual}:.{n.attr}:{use[1]}"
            if use[0]:
                rep.ok(rid, key)
            else:
                rep.bad(rid, key, f"{f.qual} uses the hash-ordered table .{n.attr} positionally ({short(p, 60)}): the result depends on the host's string-hash seed ({tainted[n.attr]})", f"{f.module.rel}:{n.lineno}")
        # indices obtained by name must not be compared with literals
        for n in f.own_nodes():
            if isinstance(n, ast.Compare) and isinstance(n.left, ast.Name) and n.left.id in index_vars:
                c = n.comparators[0]
                if isinstance(c, ast.Constant) and isinstance(c.value, int) and not isinstance(n.ops[0], (ast.Is, ast.IsNot)):
                    rep.bad(rid, f"{f.qual}:{n.left.id}:literal-compare", f"{f.qual} compares a slot number taken from a hash-ordered table with the literal {c.value}", f"{f.module.rel}:{n.lineno}")


def rule_frame_positions(ctx, rep, rid: str, only_if_hash_ordered: bool = False) -> None:
    """Slots of a call frame beyond the parameter prefix belong to declared variables (numbered by the compiler,
    in hash order unless it sorts them): they may only be filled by name (slot = table.index(name)), never by
    position -- surplus arguments would land in variables."""
    rep.rule(rid, "a call frame's local slots are filled positionally only inside the parameter prefix (i < len(params), the `arguments` slot len(params)); every other slot is addressed through name -> index lookup and the frame starts as a constant fill", floor=1 if only_if_hash_ordered else 2)
    if only_if_hash_ordered:
        tables = ctx.__dict__.get("_hash_ordered_tables")
        if tables is None:
            from ..report import Report

            rule_hash_order(ctx, Report("tmp", "quick"), "X")
            tables = ctx.__dict__.get("_hash_ordered_tables", {})
        if "locals" not in tables:
            rep.ok(rid, "frame-positions", {"note": "the compiler numbers local slots in sorted order: positions do not depend on the hash seed (positional discipline itself is checked under C05-R9)"})
            return
    n = 0
    for f in ctx.tree.funcs:
        if f.module.name not in MODULES:
            continue
        frames: Dict[str, ast.Assign] = {}
        for x in f.own_nodes():
            if not (isinstance(x, ast.Attribute) and x.attr == "num_locals" and isinstance(x.ctx, ast.Load)):
                continue
            n += 1
            par = getattr(x, "_parent", None)
            key = f"{f.qual}:num_locals:{type(par).__name__}"
            if isinstance(par, ast.BinOp) and isinstance(par.op, ast.Mult) and isinstance(par.left, ast.List) and len(par.left.elts) == 1 and isinstance(par.left.elts[0], (ast.Name, ast.Constant)):
                rep.ok(rid, key, {"use": "constant fill"})
                st = par
                while st is not None and not isinstance(st, ast.stmt):
                    st = getattr(st, "_parent", None)
                if isinstance(st, ast.Assign) and isinstance(st.targets[0], ast.Name) and st.value is par:
                    frames[st.targets[0].id] = st
            elif isinstance(par, ast.Compare):
                rep.ok(rid, key, {"use": "bounds test"})
            elif isinstance(par, ast.keyword) or isinstance(par, ast.Call) and norm(par.func) == "len":
                rep.ok(rid, key)
            else:
                st = par
                while st is not None and not isinstance(st, ast.stmt):
                    st = getattr(st, "_parent", None)
                rep.bad(rid, key, f"{f.qual} uses num_locals to build or fill a frame positionally ({short(st or par, 70)}): surplus arguments land in the slots of declared variables (whose numbering is the compiler's, and hash-dependent unless it sorts the names)", f"{f.module.rel}:{x.lineno}")
        for name, a in frames.items():
            idx_ok: Set[str] = set()
            for b in f.own_nodes():
                if isinstance(b, ast.Assign) and isinstance(b.targets[0], ast.Name):
                    t = norm(b.value)
                    if ".index(" in t or (t.startswith("len(") and t.endswith(".params)")):
                        idx_ok.add(b.targets[0].id)
            for b in f.own_nodes():
                if isinstance(b, ast.Assign):
                    for tg in b.targets:
                        if isinstance(tg, ast.Subscript) and isinstance(tg.value, ast.Name) and tg.value.id == name:
                            i = tg.slice
                            k2 = f"{f.qual}:{name}[{norm(i)}]"
                            ok = isinstance(i, ast.Name) and i.id in idx_ok
                            if not ok and isinstance(i, ast.Name):
                                from ..util import guards_of

                                g = [norm(t) for t, pol in guards_of(b, f.node) if pol]
                                ok = any(x.startswith(f"{i.id} < len(") and x.endswith(".params)") for x in g)
                            if ok:
                                rep.ok(rid, k2)
                            else:
                                rep.bad(rid, k2, f"{f.qual} stores into frame slot {norm(i)} of `{name}` without proving it lies in the parameter prefix or comes from a name lookup", f"{f.module.rel}:{b.lineno}")
    if n < 2:
        raise AnalysisError(f"only {n} frame constructions found")


def _classify_use(n: ast.Attribute, p: Optional[ast.AST], f: Func) -> Tuple[bool, str]:
    if isinstance(p, ast.Compare):
        if any(isinstance(o, (ast.In, ast.NotIn)) for o in p.ops) and n in p.comparators:
            return True, "membership"
        return False, "compare"
    if isinstance(p, ast.Attribute):
        gp = getattr(p, "_parent", None)
        if isinstance(gp, ast.Call) and gp.func is p:
            if p.attr in ("index", "append", "copy", "count", "__contains__"):
                return True, p.attr
            return False, f"method:{p.attr}"
        return False, f"attr:{p.attr}"
    if isinstance(p, ast.Call):
        fn = norm(p.func)
        if fn in ("len", "set", "frozenset", "sorted", "list", "tuple", "bool"):
            return True, fn
        if fn == "getattr":
            return True, "getattr"
        if call_name(p) == "CompiledFunction":
            return True, "constructor-field"
        return False, f"call:{short(p.func, 30)}"
    if isinstance(p, ast.keyword):
        gp = getattr(p, "_parent", None)
        if isinstance(gp, ast.Call) and call_name(gp) == "CompiledFunction":
            return True, "constructor-field"
        return False, "keyword"
    if isinstance(p, ast.Subscript) and p.value is n:
        if isinstance(p.slice, ast.Slice) and p.slice.lower is None and p.slice.upper is None:
            return True, "copy-slice"
        return False, "subscript"
    if isinstance(p, (ast.For, ast.comprehension)) and p.iter is n:
        body = p.body if isinstance(p, ast.For) else []
        for s in body:
            for c in walk_no_nested(s):
                if isinstance(c, ast.Call) and (norm(c.func).startswith("self._emit") or call_name(c) in ("join", "print", "write")):
                    return False, "iteration-with-effects"
                if isinstance(c, ast.JoinedStr):
                    return False, "iteration-formats"
        if isinstance(p, ast.comprehension):
            return False, "comprehension"
        return True, "iteration-builds-parallel-table"
    if isinstance(p, ast.Assign):
        return True, "alias"
    if isinstance(p, (ast.If, ast.While, ast.BoolOp, ast.UnaryOp, ast.IfExp)):
        return True, "truthiness"
    if isinstance(p, ast.BinOp) and isinstance(p.op, ast.Add):
        return False, "concatenation"
    if isinstance(p, ast.Return):
        return True, "return"
    if isinstance(p, ast.Starred):
        return False, "splat"
    return False, type(p).__name__


# ---- parallel value tables stay with the name table they were built from ------------------------------
CODE_LINKS = {"func": "frame", "_compiled": "function"}  # attribute that names an object's compiled code


def _resolve_code(e: ast.AST, f: Func, depth: int = 0) -> str:
    """Normalised text of a compiled-code expression, following one local alias
    (`compiled = getattr(func, "_compiled", None)` -> `func._compiled`)."""
    if isinstance(e, ast.Call) and norm(e.func) == "getattr" and len(e.args) >= 2 and isinstance(e.args[1], ast.Constant) and e.args[1].value in CODE_LINKS:
        return f"{norm(e.args[0])}.{e.args[1].value}"
    if isinstance(e, ast.Name) and depth < 2:
        defs = [n.value for n in f.own_nodes() if isinstance(n, ast.Assign) and len(n.targets) == 1 and isinstance(n.targets[0], ast.Name) and n.targets[0].id == e.id]
        if len(defs) == 1 and (isinstance(defs[0], ast.Attribute) and defs[0].attr in CODE_LINKS or isinstance(defs[0], ast.Call) and norm(defs[0].func) == "getattr"):
            return _resolve_code(defs[0], f, depth + 1)
    return norm(e)


def _code_of_object(obj: ast.AST, field: str, frame_fields: Set[str], f: Func) -> str:
    """The compiled code an object that carries a parallel table belongs to."""
    if field in frame_fields:
        return _resolve_code(ast.Attribute(value=obj, attr="func", ctx=ast.Load()), f)
    # function object: an explicit `obj._compiled = R` in this function wins
    for n in f.own_nodes():
        if isinstance(n, ast.Assign) and len(n.targets) == 1 and isinstance(n.targets[0], ast.Attribute) and n.targets[0].attr == "_compiled" and norm(n.targets[0].value) == norm(obj):
            return _resolve_code(n.value, f)
    return f"{norm(obj)}._compiled"


def rule_parallel_tables(ctx, rep, rid: str, only_if_hash_ordered: bool = False) -> None:
    """closure_cells / cell_storage are value tables that parallel a hash-ordered NAME table (free_vars /
    cell_vars) of ONE compiled function: position i means name i of that table.  Handing such a table to an
    object that runs different compiled code pairs it with another name table, whose order differs with the
    host's hash seed even when the two tables hold the same names."""
    rep.rule(rid, "a value table built by iterating a hash-ordered name table (closure cells ~ free_vars, cell storage ~ cell_vars) is only attached to, or passed on between, objects that run the very compiled function whose name table it parallels; indexes into it come from that function's table", floor=4)
    if only_if_hash_ordered:
        tables = ctx.__dict__.get("_hash_ordered_tables")
        if tables is None:
            from ..report import Report

            rule_hash_order(ctx, Report("tmp", "quick"), "X")
            tables = ctx.__dict__.get("_hash_ordered_tables", {})
        if not ({"free_vars", "cell_vars"} & set(tables)):
            for k in ("pairing-a", "pairing-b", "pairing-c", "pairing-d"):
                rep.ok(rid, k, {"note": "free/cell variable tables are numbered in sorted order: equal name sets give equal positions, independent of the hash seed (the pairing discipline itself is checked under C05-R11)"})
            return
    setfuncs = _set_functions(ctx)
    funcs = [f for f in ctx.tree.funcs if f.module.name in MODULES and not isinstance(f.node, ast.Lambda)]
    # frame fields: dataclass fields of the class that has a `func` field next to them
    frame_fields: Set[str] = set()
    for lst in ctx.tree.classes.values():
        for ci in lst:
            fields = [n.target.id for n in ci.node.body if isinstance(n, ast.AnnAssign) and isinstance(n.target, ast.Name)]
            if "func" in fields and "ip" in fields:
                frame_fields |= set(fields)
                frame_cls = ci.name
    if not frame_fields:
        raise AnalysisError("call-frame class not found")
    # 1. build sites: for v in O.T: L.append(..)  ...  X.F = L  /  Frame(F=L)
    name_tables = {"free_vars", "cell_vars"}
    par: Dict[str, str] = {}  # parallel field -> name table
    builds = []  # (f, local, table, owner text, loop)
    for f in funcs:
        for loop in f.own_nodes():
            if isinstance(loop, ast.For) and isinstance(loop.iter, ast.Attribute) and loop.iter.attr in name_tables:
                for c in ast.walk(ast.Module(body=loop.body, type_ignores=[])):
                    if isinstance(c, ast.Call) and isinstance(c.func, ast.Attribute) and c.func.attr == "append" and isinstance(c.func.value, ast.Name):
                        b = (f, c.func.value.id, loop.iter.attr, _resolve_code(loop.iter.value, f), loop)
                        if b[:4] not in [x[:4] for x in builds]:
                            builds.append(b)
    for f, local, table, owner, loop in builds:
        # where does the local go?
        for n in f.own_nodes():
            tgt = None
            if isinstance(n, ast.Assign) and isinstance(n.value, ast.Name) and n.value.id == local and len(n.targets) == 1 and isinstance(n.targets[0], ast.Attribute):
                tgt = (n.targets[0].attr, _code_of_object(n.targets[0].value, n.targets[0].attr, frame_fields, f), n.lineno)
            if isinstance(n, ast.Call) and call_name(n) == frame_cls:
                for kw in n.keywords:
                    if isinstance(kw.value, ast.Name) and kw.value.id == local:
                        code = next((_resolve_code(k.value, f) for k in n.keywords if k.arg == "func"), "?")
                        tgt = (kw.arg, code, n.lineno)
            if tgt is None:
                continue
            field, code, line = tgt
            par.setdefault(field, table)
            key = f"{f.qual}:build:{field}~{table}"
            if code == owner and par[field] == table:
                rep.ok(rid, key, {"owner": owner})
            else:
                rep.bad(rid, key, f"{f.qual} builds `{local}` by iterating {owner}.{table} but attaches it as .{field} to an object that runs {code}: positions of the two tables differ with the hash seed", f"{f.module.rel}:{line}")
    if len(par) < 2:
        raise AnalysisError(f"parallel tables not recognised (found {sorted(par)})")
    # the function-object twin of a frame field (closure_cells <-> _closure_cells) parallels the same table
    for fld in list(par):
        par.setdefault(fld.lstrip("_") if fld.startswith("_") else "_" + fld, par[fld])
    rep.analysed["parallel_tables"] = dict(par)

    def source_of(v: ast.AST, f: Func, depth: int = 0):
        """(object expr, field) when v reads a parallel field (directly, via getattr, or via one local)."""
        if isinstance(v, ast.Attribute) and v.attr in par:
            return v.value, v.attr
        if isinstance(v, ast.Call) and norm(v.func) == "getattr" and len(v.args) >= 2 and isinstance(v.args[1], ast.Constant) and v.args[1].value in par:
            return v.args[0], v.args[1].value
        if isinstance(v, ast.Name) and depth < 2:
            defs = [n.value for n in f.own_nodes() if isinstance(n, ast.Assign) and len(n.targets) == 1 and isinstance(n.targets[0], ast.Name) and n.targets[0].id == v.id]
            srcs = [source_of(d, f, depth + 1) for d in defs]
            srcs = [s for s in srcs if s]
            if len(srcs) == 1 and len(defs) == 1:
                return srcs[0]
        return None

    # 2. transfers
    built_locals = {(id(f), local) for f, local, *_ in builds}
    for f in funcs:
        for n in f.own_nodes():
            sites = []
            if isinstance(n, ast.Assign) and len(n.targets) == 1 and isinstance(n.targets[0], ast.Attribute) and n.targets[0].attr in par:
                sites.append((n.targets[0].attr, n.value, _code_of_object(n.targets[0].value, n.targets[0].attr, frame_fields, f), norm(n.targets[0].value)))
            if isinstance(n, ast.Call) and call_name(n) == frame_cls:
                code = next((_resolve_code(k.value, f) for k in n.keywords if k.arg == "func"), "?")
                for kw in n.keywords:
                    if kw.arg in par:
                        sites.append((kw.arg, kw.value, code, frame_cls))
            for field, v, code, who in sites:
                if isinstance(v, ast.Name) and (id(f), v.id) in built_locals:
                    continue  # judged as a build site
                if isinstance(v, ast.Constant) and v.value is None or isinstance(v, ast.List) and not v.elts:
                    continue
                key = f"{f.qual}:transfer:{who}.{field}"
                src = source_of(v, f)
                if src is None:
                    rep.bad(rid, key, f"{f.qual} sets .{field} (a table that parallels {par[field]}) from {short(v, 40)}, which is neither built from that name table nor taken from an object running the same code", f"{f.module.rel}:{n.lineno}")
                    continue
                sobj, sfield = src
                scode = _code_of_object(sobj, sfield, frame_fields, f)
                if par[sfield] != par[field]:
                    rep.bad(rid, key, f"{f.qual} passes .{sfield} (parallel to {par[sfield]}) on as .{field} (parallel to {par[field]})", f"{f.module.rel}:{n.lineno}")
                elif scode != code:
                    rep.bad(rid, key, f"{f.qual} hands the {par[field]} value table of {norm(sobj)} (code {scode}) to {who} (code {code}): the two functions number their {par[field]} independently, so the cells end up under other names whenever the two tables differ", f"{f.module.rel}:{n.lineno}")
                else:
                    rep.ok(rid, key, {"same code": code})
    # 3. name-derived indexes: X.F[idx] with idx = O.T.index(..): T parallels F and O is X's code
    for f in funcs:
        idx_src: Dict[str, Tuple[str, str]] = {}
        for n in f.own_nodes():
            if isinstance(n, ast.Assign) and isinstance(n.targets[0], ast.Name) and isinstance(n.value, ast.Call) and isinstance(n.value.func, ast.Attribute) and n.value.func.attr == "index" and isinstance(n.value.func.value, ast.Attribute):
                t = n.value.func.value
                idx_src.setdefault(n.targets[0].id, set()).add((t.attr, _resolve_code(t.value, f)))  # type: ignore[arg-type]
        for n in f.own_nodes():
            if isinstance(n, ast.Subscript) and isinstance(n.value, ast.Attribute) and n.value.attr in par and isinstance(n.slice, ast.Name) and n.slice.id in idx_src:
                # the definition that reaches this use: the nearest preceding one
                defs = [d for d in f.own_nodes() if isinstance(d, ast.Assign) and isinstance(d.targets[0], ast.Name) and d.targets[0].id == n.slice.id and d.lineno <= n.lineno and isinstance(d.value, ast.Call) and isinstance(d.value.func, ast.Attribute) and d.value.func.attr == "index"]
                if not defs:
                    continue
                d = max(defs, key=lambda x: x.lineno)
                t = d.value.func.value
                if not isinstance(t, ast.Attribute):
                    continue
                key = f"{f.qual}:index:{norm(n.value)}[{n.slice.id}]"
                code = _code_of_object(n.value.value, n.value.attr, frame_fields, f)
                if t.attr != par[n.value.attr] or _resolve_code(t.value, f) != code:
                    rep.bad(rid, key, f"{f.qual} indexes {norm(n.value)} (parallel to {code}.{par[n.value.attr]}) with a position looked up in {norm(t)}", f"{f.module.rel}:{n.lineno}")
                else:
                    rep.ok(rid, key)


# ---- slot numbers taken from hash-ordered tables never reach message text ------------------------------
def rule_no_slot_numbers_in_messages(ctx, rep, rid: str) -> None:
    """A position in a hash-ordered table (table.index(name), len(table)) is a number that changes with the hash
    seed.  It may be emitted as an operand (the reader resolves it through the same table) but must not be
    interpolated into an error message: the text of the error would differ from run to run."""
    rep.rule(rid, "no error message interpolates a number derived from the position of a name in a hash-ordered table (directly, through a helper's return value, or through a parameter some caller fills with one)", floor=1)
    tables = ctx.__dict__.get("_hash_ordered_tables")
    if tables is None:
        from ..report import Report

        rule_hash_order(ctx, Report("tmp", "quick"), "X")
        tables = ctx.__dict__.get("_hash_ordered_tables", {})
    funcs = [f for f in ctx.tree.funcs if f.module.name in MODULES and not isinstance(f.node, ast.Lambda)]

    def direct(e: ast.AST) -> bool:
        for x in ast.walk(e):
            if isinstance(x, ast.Call) and isinstance(x.func, ast.Attribute) and x.func.attr == "index" and isinstance(x.func.value, ast.Attribute) and x.func.value.attr in tables:
                return True
            if isinstance(x, ast.Call) and norm(x.func) == "len" and x.args and isinstance(x.args[0], ast.Attribute) and x.args[0].attr in tables:
                return True
        return False

    # helpers whose return value is such a number (least fixpoint), and tainted locals per function
    tainted_ret: Set[int] = set()

    def tainted_expr(e: ast.AST, f: Func, locs: Set[str]) -> bool:
        if direct(e):
            return True
        for x in ast.walk(e):
            if isinstance(x, ast.Name) and x.id in locs:
                return True
            if isinstance(x, ast.Call):
                cs = ctx.cg.site_of_call.get(id(x))
                if cs is not None and cs.kind == "resolved" and any(id(t) in tainted_ret for t in cs.targets):
                    return True
        return False

    def locals_of(f: Func, params_tainted: Set[str]) -> Set[str]:
        locs = set(params_tainted)
        changed = True
        while changed:
            changed = False
            for n in f.own_nodes():
                if isinstance(n, ast.Assign) and len(n.targets) == 1 and isinstance(n.targets[0], ast.Name) and n.targets[0].id not in locs and tainted_expr(n.value, f, locs):
                    locs.add(n.targets[0].id)
                    changed = True
        return locs

    changed = True
    while changed:
        changed = False
        for f in funcs:
            if id(f) in tainted_ret:
                continue
            locs = locals_of(f, set())
            if any(isinstance(n, ast.Return) and n.value is not None and tainted_expr(n.value, f, locs) for n in f.own_nodes()):
                tainted_ret.add(id(f))
                changed = True
    # parameters that some caller fills with such a number
    from ..util import bind_args

    tparams: Dict[int, Set[str]] = {}
    for cs in ctx.cg.sites:
        if cs.kind != "resolved" or cs.func not in funcs:
            continue
        locs = locals_of(cs.func, tparams.get(id(cs.func), set()))
        for t in cs.targets:
            if isinstance(t.node, ast.Lambda):
                continue
            for pname, a in bind_args(cs.call, t).items():
                if a is not None and tainted_expr(a, cs.func, locs):
                    tparams.setdefault(id(t), set()).add(pname)
    n_msgs = 0
    for f in funcs:
        locs = locals_of(f, tparams.get(id(f), set()))
        for n in f.own_nodes():
            if not (isinstance(n, ast.Raise) and n.exc is not None):
                continue
            for js in ast.walk(n.exc):
                if isinstance(js, ast.JoinedStr):
                    for v in js.values:
                        if isinstance(v, ast.FormattedValue):
                            n_msgs += 1
                            if locs or tables:
                                if tainted_expr(v.value, f, locs):
                                    rep.bad(rid, f"{f.qual}:message:{norm(v.value)}", f"{f.qual} puts {norm(v.value)} into an error message, and that number is (for some caller) the position of a name in a hash-ordered table ({', '.join(sorted(tables)) or 'none'}): the text of the error changes with the host's string-hash seed", f"{f.module.rel}:{n.lineno}")
    rep.ok(rid, "messages", {"interpolations_examined": n_msgs, "hash_ordered_tables": sorted(tables)})


# ---- an element is never PICKED from a set -----------------------------------------------------------------


def set_like_names(ctx) -> Dict[int, Set[str]]:
    """id(function) -> local names that hold a host set: by construction or annotation (_set_names), and parameters that
    some resolved call site binds to such a name or to a set expression (to a fixpoint)."""
    got = ctx.__dict__.get("_set_like")
    if got is not None:
        return got
    setfuncs = _set_functions(ctx)
    funcs = [f for f in ctx.tree.funcs if not isinstance(f.node, ast.Lambda)]
    names: Dict[int, Set[str]] = {id(f): _set_names(f, setfuncs) for f in funcs}
    changed = True
    while changed:
        changed = False
        for cs in ctx.cg.sites:
            if cs.kind != "resolved" or isinstance(cs.func.node, ast.Lambda):
                continue
            here = names.get(id(cs.func), set())
            for t in cs.targets:
                if isinstance(t.node, ast.Lambda) or id(t) not in names:
                    continue
                ps = [p for p in t.params() if p != "self"]
                for i, a in enumerate(cs.call.args):
                    if i < len(ps) and _is_set_expr(a, here, setfuncs) and ps[i] not in names[id(t)]:
                        names[id(t)].add(ps[i])
                        changed = True
                for kw in cs.call.keywords:
                    if kw.arg in ps and _is_set_expr(kw.value, here, setfuncs) and kw.arg not in names[id(t)]:
                        names[id(t)].add(kw.arg)
                        changed = True
    ctx.__dict__["_set_like"] = names
    return names


def rule_no_pick_from_set(ctx, rep, rid: str, only=None) -> None:
    """`S.pop()` on a set removes AN element - which one follows the hash of the elements (addresses for id()s, the
    per-process seed for strings).  It is not the inverse of `S.add(x)`: a path kept as a set of ids and 'popped' on
    the way out drops some other container and leaves this one marked, so a value that merely shares a sub-object is
    refused as circular, differently from run to run.  `next(iter(S))` picks the same way."""
    rep.rule(rid, "no element is taken out of a host set by position: `S.pop()` / `next(iter(S))` on a value that is a set (by construction, annotation, or through the call sites that pass it) occurs only where the set provably has one element; what was added with `S.add(x)` is taken back with `S.discard(x)` / `S.remove(x)`", floor=1)
    names = set_like_names(ctx)
    n_sets = 0
    for f in ctx.tree.funcs:
        if isinstance(f.node, ast.Lambda) or (only is not None and not only(f)):
            continue
        sn = names.get(id(f), set())
        if not sn:
            continue
        n_sets += 1
        picks = []
        for c in f.own_nodes():
            if not isinstance(c, ast.Call):
                continue
            if isinstance(c.func, ast.Attribute) and c.func.attr == "pop" and not c.args and isinstance(c.func.value, ast.Name) and c.func.value.id in sn:
                picks.append((c, c.func.value.id, "pop()"))
            if norm(c.func) == "next" and c.args and isinstance(c.args[0], ast.Call) and norm(c.args[0].func) == "iter" and c.args[0].args and isinstance(c.args[0].args[0], ast.Name) and c.args[0].args[0].id in sn:
                picks.append((c, c.args[0].args[0].id, "next(iter(..))"))
        if not picks:
            rep.ok(rid, f"{f.qual}:sets-not-picked-from", {"sets": sorted(sn)})
            continue
        from ..util import atoms, known_conditions

        for c, s, how in picks:
            key = f"{f.qual}:{s}.{how}"
            single = any(norm(a).replace(" ", "") in (f"len({s})==1", f"len({s})<=1", f"len({s})<2") and pol for t, p in known_conditions(c, f.node) for a, pol in atoms(t, p))
            if single:
                rep.ok(rid, key, {"single": True})
            else:
                rep.bad(rid, key, f"{f.qual} takes an element out of the set `{s}` with {how} (line {c.lineno}): which element follows the hash order of the set (object addresses, the per-process string seed), so this is not the inverse of `{s}.add(x)` - an entry added on the way in is not the one removed on the way out, and the outcome changes from run to run", f"{f.module.rel}:{c.lineno}")
    if n_sets == 0:
        if only is None:
            raise AnalysisError(f"{rid}: no function holds a host set (anchor vanished)")
        rep.ok(rid, "no-host-sets", {"note": "the functions in scope keep no host set at all"})


def rule_no_sequence_from_set(ctx, rep, rid: str, modules=("vm", "context", "values")) -> None:
    """In the runtime (object model, natives, interpreter) a sequence made from a host set - list(S), tuple(S), a
    comprehension over S, extend(S), join(S) - has the set's iteration order, which for strings changes with the
    per-process hash seed.  Whatever is built from it (the keys a for-in loop visits, the elements of an array the
    script receives) differs from run to run.  sorted(S) is the order-free way."""
    rep.rule(rid, "in the runtime modules no sequence is made from a host set except through sorted(): list(S) / tuple(S) / [.. for x in S] / extend(S) / join(S) over a set expression does not occur", floor=1)
    setfuncs = _set_functions(ctx)
    n = 0
    found = 0
    for f in ctx.tree.funcs:
        if isinstance(f.node, ast.Lambda) or f.module.name not in modules:
            continue
        n += 1
        sn = _set_names(f, setfuncs)
        for c in f.own_nodes():
            inner = None
            what = None
            if isinstance(c, ast.Call) and norm(c.func) in ("list", "tuple") and c.args:
                inner, what = c.args[0], f"{norm(c.func)}(..)"
            elif isinstance(c, ast.Call) and isinstance(c.func, ast.Attribute) and c.func.attr in ("extend", "join") and c.args:
                inner, what = c.args[0], f".{c.func.attr}(..)"
            elif isinstance(c, (ast.ListComp, ast.GeneratorExp)) and c.generators:
                inner, what = c.generators[0].iter, "a comprehension"
                par = getattr(c, "_parent", None)
                # (x in S for ..) consumed by any()/all()/sum()/len()/set(): order does not show
                if isinstance(par, ast.Call) and norm(par.func) in ("any", "all", "sum", "len", "set", "frozenset", "sorted", "min", "max"):
                    continue
            if inner is None or not _is_set_expr(inner, sn, setfuncs):
                continue
            par = getattr(c, "_parent", None)
            if isinstance(par, ast.Call) and norm(par.func) in ("sorted", "len", "set", "frozenset"):
                continue
            found += 1
            rep.bad(rid, f"{f.qual}:{short(c, 40)}", f"{f.qual} makes a sequence from a host set with {what} (`{short(c, 50)}`): its order is the set's iteration order, which for strings depends on the per-process hash seed, so what the script sees built from it (the keys of for-in and Object.keys, the order of elements) changes from run to run", f"{f.module.rel}:{c.lineno}")
    if found == 0:
        rep.ok(rid, "runtime:no-sequence-from-set", {"functions": n})
