"""A missing argument is `undefined`.

ECMAScript passes `undefined` for every parameter the call does not supply, so `f()` and `f(undefined)` are the
same call for (almost) every built-in.  A native written with Python varargs decides the two cases in two
different places: the value it picks when `args` is too short, and what its conversion makes of `undefined`.
The rule evaluates both sides *abstractly* (a partial evaluator over the AST of the native and of the converters
it calls: nothing of the repository is executed) and demands that they agree:

        X(args[i]) if len(args) > i else D          must satisfy      D == X(undefined)

and likewise for the statement form `if <args too short>: return D` followed by the general path, and for helper
functions `h(args, i, default)` (checked once per call site, with the call's actual `default`).

Built-ins for which ECMAScript itself distinguishes the argument count (String(), Number(), splice's deleteCount ...)
and sites where both values are provably treated alike further down are listed, one reason each, in LEGIT.
"""

from __future__ import annotations

import ast
import math
from typing import Any, Callable, Dict, List, Optional, Tuple

from ..core import AnalysisError, Func, norm, short

UNDEF = ("undef",)
NULLV = ("null",)
NAN = ("nan",)


def _c(v) -> Tuple:
    return ("c", type(v).__name__, v)


class _Giveup(Exception):
    pass


class _Ret(Exception):
    def __init__(self, v):
        self.v = v


class PE:
    """Partial evaluator: expressions over constants, UNDEFINED/NULL, NaN and opaque symbols (source text)."""

    def __init__(self, ctx, f: Func, subst: Callable[[ast.AST], Optional[Tuple]], depth: int = 0):
        self.ctx, self.f, self.subst, self.depth = ctx, f, subst, depth

    # -- expressions
    def ev(self, e: ast.AST, env: Dict[str, Any]) -> Tuple:
        s = self.subst(e)
        if s is not None:
            return s
        if isinstance(e, ast.Constant):
            return _c(e.value)
        if isinstance(e, ast.Name):
            if e.id in env:
                return env[e.id]
            if e.id == "UNDEFINED":
                return UNDEF
            if e.id == "NULL":
                return NULLV
            t = self._module_text(e)
            if t is not None:
                return _c(t)
            return ("sym", e.id)
        if isinstance(e, ast.UnaryOp) and isinstance(e.op, ast.USub):
            v = self.ev(e.operand, env)
            if v[0] == "c" and isinstance(v[2], (int, float)):
                return _c(-v[2])
            if v[0] == "sym":
                return ("sym", "-" + v[1])
            raise _Giveup
        if isinstance(e, ast.UnaryOp) and isinstance(e.op, ast.Not):
            t = self.truth(e, env)
            if t is None:
                raise _Giveup
            return _c(t)
        if isinstance(e, ast.IfExp):
            t = self.truth(e.test, env)
            if t is None:
                raise _Giveup
            return self.ev(e.body if t else e.orelse, env)
        if isinstance(e, ast.Call):
            fn = norm(e.func)
            if fn == "float" and len(e.args) == 1 and isinstance(e.args[0], ast.Constant) and isinstance(e.args[0].value, str):
                t = e.args[0].value.strip().lower()
                if t == "nan":
                    return NAN
                if t in ("inf", "+inf", "infinity"):
                    return _c(math.inf)
                if t in ("-inf", "-infinity"):
                    return _c(-math.inf)
            if fn in ("math.nan",):
                return NAN
            folded = self._fold_host(e, fn, env)
            if folded is not None:
                return folded
            if fn in ("min", "max") and len(e.args) == 2 and not e.keywords:
                a, b = self.ev(e.args[0], env), self.ev(e.args[1], env)
                num = lambda v: v[0] == "c" and isinstance(v[2], (int, float)) and not isinstance(v[2], bool)
                if num(a) and num(b):
                    return _c(min(a[2], b[2]) if fn == "min" else max(a[2], b[2]))
                # a length is never negative: min(0, len(x)) is 0, max(0, len(x)) is the length
                for k, o in ((a, b), (b, a)):
                    if num(k) and k[2] == 0 and o[0] == "sym" and o[1].startswith("len("):
                        return _c(0) if fn == "min" else o
            callee = self._callee(e)
            if callee is not None and self.depth < 4 and not e.keywords and not any(isinstance(a, ast.Starred) for a in e.args):
                vals = [self.ev(a, env) for a in e.args]
                return PE(self.ctx, callee, lambda _e: None, self.depth + 1).apply(vals)
            # an opaque call: a symbol, provided no substituted operand is hidden inside it
            if self._touches_subst(e):
                raise _Giveup
            return ("sym", norm(e))
        if isinstance(e, ast.Attribute) and norm(e) in ("math.nan",):
            return NAN
        if isinstance(e, ast.Attribute) and norm(e) in ("math.inf",):
            return _c(math.inf)
        if self._touches_subst(e):
            raise _Giveup
        return ("sym", norm(e))

    _STR_METHODS = ("strip", "lstrip", "rstrip", "lower", "upper", "startswith", "endswith", "isdigit", "isascii")

    def _fold_host(self, e: ast.Call, fn: str, env: Dict[str, Any]) -> Optional[Tuple]:
        """Constant folding of pure host operations on constant operands: str methods, float(text), a module-level
        compiled pattern matched against constant text, and group() of that match."""
        try:
            if fn == "float" and len(e.args) == 1 and not e.keywords:
                v = self.ev(e.args[0], env)
                if v[0] == "c" and isinstance(v[2], str):
                    try:
                        r = float(v[2])
                    except ValueError:
                        raise _Giveup
                    return NAN if r != r else _c(r)
                return None
            if not isinstance(e.func, ast.Attribute) or e.keywords:
                return None
            recv = e.func.value
            attr = e.func.attr
            if attr in ("match", "fullmatch", "search") and isinstance(recv, ast.Name) and len(e.args) == 1:
                pat = self._module_pattern(recv.id)
                if pat is None:
                    return None
                v = self.ev(e.args[0], env)
                if v[0] != "c" or not isinstance(v[2], str):
                    return None
                m = getattr(pat, attr)(v[2])
                return _c(None) if m is None else ("match", m)
            if attr == "group" and isinstance(recv, ast.Name) and recv.id in env and env[recv.id][0] == "match":
                args = [self.ev(a, env) for a in e.args]
                if all(a[0] == "c" and isinstance(a[2], int) for a in args):
                    return _c(env[recv.id][1].group(*[a[2] for a in args]))
                return None
            if attr in self._STR_METHODS:
                v = self.ev(recv, env)
                if v[0] != "c" or not isinstance(v[2], str):
                    return None
                args = [self.ev(a, env) for a in e.args]
                if all(a[0] == "c" and isinstance(a[2], str) for a in args):
                    return _c(getattr(v[2], attr)(*[a[2] for a in args]))
        except _Giveup:
            return None
        return None

    def _module_value(self, name: str, depth: int = 0) -> Optional[ast.AST]:
        for st in getattr(getattr(self.f.module, "tree", None), "body", []):
            if isinstance(st, ast.Assign) and len(st.targets) == 1 and isinstance(st.targets[0], ast.Name) and st.targets[0].id == name:
                return st.value
        return None

    def _module_text(self, e: ast.AST, depth: int = 0) -> Optional[str]:
        """A module-level text constant: a literal, a name bound to one, or a concatenation of those."""
        if depth > 6:
            return None
        if isinstance(e, ast.Constant) and isinstance(e.value, str):
            return e.value
        if isinstance(e, ast.Name):
            v = self._module_value(e.id)
            return None if v is None else self._module_text(v, depth + 1)
        if isinstance(e, ast.BinOp) and isinstance(e.op, ast.Add):
            a, b = self._module_text(e.left, depth + 1), self._module_text(e.right, depth + 1)
            return None if a is None or b is None else a + b
        if isinstance(e, ast.Call) and norm(e.func) == "re.escape" and len(e.args) == 1 and not e.keywords:
            import re as _re

            a = self._module_text(e.args[0], depth + 1)
            return None if a is None else _re.escape(a)
        return None

    def _module_pattern(self, name: str):
        import re as _re

        v = self._module_value(name)
        if isinstance(v, ast.Call) and norm(v.func) == "re.compile" and len(v.args) == 1 and not v.keywords:
            t = self._module_text(v.args[0])
            if t is not None:
                try:
                    return _re.compile(t)
                except _re.error:
                    return None
        return None

    def _touches_subst(self, e: ast.AST) -> bool:
        return any(self.subst(x) is not None for x in ast.walk(e))

    def _callee(self, e: ast.Call) -> Optional[Func]:
        if isinstance(e.func, ast.Name):
            g: Optional[Func] = self.f
            while g is not None:
                if e.func.id in g.children:
                    return g.children[e.func.id]
                g = g.parent
            return self.ctx.tree.resolve_function_name(self.f.module, e.func.id)
        return None

    # -- conditions: True / False / None (unknown)
    def truth(self, t: ast.AST, env: Dict[str, Any]) -> Optional[bool]:
        sv = self.subst(t)
        if sv is not None and sv[0] == "c":
            return bool(sv[2])
        if isinstance(t, ast.BoolOp):
            vals = [self.truth(v, env) for v in t.values]
            if isinstance(t.op, ast.Or):
                for v in vals:
                    if v is True:
                        return True
                    if v is None:
                        return None
                return False
            for v in vals:
                if v is False:
                    return False
                if v is None:
                    return None
            return True
        if isinstance(t, ast.UnaryOp) and isinstance(t.op, ast.Not):
            v = self.truth(t.operand, env)
            return None if v is None else (not v)
        if isinstance(t, ast.Compare) and len(t.ops) == 1:
            try:
                l, r = self.ev(t.left, env), self.ev(t.comparators[0], env)
            except _Giveup:
                return None
            op = t.ops[0]
            if isinstance(op, (ast.Is, ast.IsNot)):
                if l[0] == "sym" or r[0] == "sym":
                    return None
                same = l == r and l[0] in ("undef", "null") or (l[0] == "c" and r[0] == "c" and l[2] is r[2])
                return same if isinstance(op, ast.Is) else not same
            if isinstance(op, (ast.Lt, ast.LtE, ast.Gt, ast.GtE)) and l[0] == "c" and r[0] == "c" and all(isinstance(x[2], (int, float)) and not isinstance(x[2], bool) for x in (l, r)):
                return {ast.Lt: l[2] < r[2], ast.LtE: l[2] <= r[2], ast.Gt: l[2] > r[2], ast.GtE: l[2] >= r[2]}[type(op)]
            if isinstance(op, (ast.Eq, ast.NotEq)):
                if l[0] == "c" and r[0] == "c":
                    return (l[2] == r[2]) if isinstance(op, ast.Eq) else (l[2] != r[2])
                if NAN in (l, r):
                    return isinstance(op, ast.NotEq)
                if l[0] in ("undef", "null") and r[0] == "c" or r[0] in ("undef", "null") and l[0] == "c":
                    return isinstance(op, ast.NotEq)
                return None
            return None
        if isinstance(t, ast.Call) and norm(t.func) == "isinstance" and len(t.args) == 2:
            try:
                v = self.ev(t.args[0], env)
            except _Giveup:
                return None
            names = [norm(x) for x in (t.args[1].elts if isinstance(t.args[1], ast.Tuple) else [t.args[1]])]
            if v[0] in ("undef", "null"):
                # the two singletons are instances of their own marker classes only
                if any("undefined" in n.lower() or "null" in n.lower() for n in names):
                    return None
                return False
            if v == NAN:
                return "float" in names if all(n in ("int", "float", "str", "bool") for n in names) else None
            if v[0] == "c":
                if all(n in ("int", "float", "str", "bool") for n in names):
                    return v[1] in names or (v[1] == "bool" and "int" in names)
                return None
            return None
        if isinstance(t, ast.Call) and norm(t.func) in ("math.isnan", "math.isinf", "math.isfinite", "is_nan") and len(t.args) == 1:
            try:
                v = self.ev(t.args[0], env)
            except _Giveup:
                return None
            which = norm(t.func).split(".")[-1]
            if v == NAN:
                return which in ("isnan", "is_nan")
            if v[0] == "c" and isinstance(v[2], (int, float)) and not isinstance(v[2], bool):
                return {"isnan": False, "is_nan": False, "isinf": math.isinf(v[2]), "isfinite": math.isfinite(v[2])}[which]
            return None
        try:
            v = self.ev(t, env)
        except _Giveup:
            return None
        if v[0] == "c":
            return bool(v[2])
        if v in (UNDEF, NULLV):
            return False
        return None

    # -- statements of a callee applied to abstract arguments
    def apply(self, vals: List[Tuple]) -> Tuple:
        if isinstance(self.f.node, ast.Lambda):
            raise _Giveup
        a = self.f.node.args
        if a.vararg or a.kwarg or a.kwonlyargs:
            raise _Giveup
        params = [x.arg for x in a.posonlyargs + a.args]
        if params and params[0] == "self":
            raise _Giveup
        env: Dict[str, Any] = {}
        defaults = [None] * (len(params) - len(a.defaults)) + list(a.defaults)
        for i, p in enumerate(params):
            if i < len(vals):
                env[p] = vals[i]
            elif defaults[i] is not None:
                env[p] = self.ev(defaults[i], {})
            else:
                raise _Giveup
        try:
            self.block(self.f.node.body, env)
        except _Ret as r:
            return r.v
        raise _Giveup

    def block(self, stmts: List[ast.stmt], env: Dict[str, Any]) -> None:
        for s in stmts:
            if isinstance(s, ast.Expr) and isinstance(s.value, ast.Constant):
                continue
            if isinstance(s, ast.Return):
                raise _Ret(self.ev(s.value, env) if s.value is not None else _c(None))
            if isinstance(s, ast.If):
                t = self.truth(s.test, env)
                if t is None:
                    raise _Giveup
                self.block(s.body if t else s.orelse, env)
                continue
            if isinstance(s, ast.Assign) and len(s.targets) == 1 and isinstance(s.targets[0], ast.Name):
                env[s.targets[0].id] = self.ev(s.value, env)
                continue
            if isinstance(s, ast.AnnAssign) and isinstance(s.target, ast.Name) and s.value is not None:
                env[s.target.id] = self.ev(s.value, env)
                continue
            if isinstance(s, (ast.FunctionDef, ast.Pass)):
                continue
            if isinstance(s, ast.Raise):
                raise _Ret(("raise", norm(s.exc.func) if isinstance(s.exc, ast.Call) else (norm(s.exc) if s.exc is not None else "")))
            raise _Giveup


# ---------------------------------------------------------------------------------------------------
def _presence(test: ast.AST) -> Optional[Tuple[str, str, bool]]:
    """(sequence name, index text i, polarity): `test` true means `seq[i]` exists (polarity True) or is missing
    (polarity False).  Index text is the largest index known to exist / the smallest known to be missing."""
    if isinstance(test, ast.Name):
        return test.id, "0", True
    if isinstance(test, ast.UnaryOp) and isinstance(test.op, ast.Not):
        p = _presence(test.operand)
        return None if p is None else (p[0], p[1], not p[2])
    if isinstance(test, ast.Compare) and len(test.ops) == 1:
        l, r, op = test.left, test.comparators[0], test.ops[0]

        def is_len(x):
            return isinstance(x, ast.Call) and norm(x.func) == "len" and len(x.args) == 1 and isinstance(x.args[0], ast.Name)

        if is_len(r) and not is_len(l):
            flip = {ast.Lt: ast.Gt, ast.LtE: ast.GtE, ast.Gt: ast.Lt, ast.GtE: ast.LtE}
            if type(op) not in flip:
                return None
            l, r, op = r, l, flip[type(op)]()
        if not is_len(l):
            return None
        seq = l.args[0].id
        k = norm(r)
        kc = r.value if isinstance(r, ast.Constant) and isinstance(r.value, int) else None
        if isinstance(op, ast.Gt):  # len > k: seq[k] exists
            return seq, k, True
        if isinstance(op, ast.GtE):  # len >= k: seq[k-1] exists
            return (seq, str(kc - 1), True) if kc is not None and kc >= 1 else None
        if isinstance(op, ast.LtE):  # len <= k: seq[k] missing
            return seq, k, False
        if isinstance(op, ast.Lt):  # len < k: seq[k-1] missing
            return (seq, str(kc - 1), False) if kc is not None and kc >= 1 else None
    return None


def _subscripts(e: ast.AST, seq: str) -> List[ast.Subscript]:
    return [x for x in ast.walk(e) if isinstance(x, ast.Subscript) and isinstance(x.value, ast.Name) and x.value.id == seq and not isinstance(x.slice, ast.Slice)]


def _show(v: Optional[Tuple]) -> str:
    if v is None:
        return "?"
    if v == UNDEF:
        return "undefined"
    if v == NULLV:
        return "null"
    if v == NAN:
        return "NaN"
    if v[0] == "c":
        return repr(v[2])
    return v[1]


def _same(a: Tuple, b: Tuple) -> bool:
    if a == b:
        return True
    if a[0] == "c" and b[0] == "c" and a[1] in ("int", "float") and b[1] in ("int", "float"):
        return a[2] == b[2] and math.copysign(1, a[2]) == math.copysign(1, b[2])
    return False


# one line of reason per site where the two values legitimately differ (keyed by function and variable)
LEGIT: Dict[str, str] = {
    "context:Context._create_number_constructor.number_call:return": "Number() is +0 while Number(undefined) is NaN: ECMAScript tests whether a value was passed",
    "context:Context._create_string_constructor.string_call:return": "String() is the empty string while String(undefined) is 'undefined': ECMAScript tests whether a value was passed",
    "context:Context._create_number_constructor.parseInt_fn:s": "neither '' nor 'undefined' starts with a digit: both are NaN",
    "context:Context._create_number_constructor.parseFloat_fn:s": "neither '' nor 'undefined' starts with a number: both are NaN",
    "context:Context._global_parseint:s": "neither '' nor 'undefined' starts with a digit: both are NaN",
    "context:Context._global_parsefloat:s": "neither '' nor 'undefined' starts with a number: both are NaN",
    "context:Context._create_json_object.parse_fn:text": "neither '' nor 'undefined' is a JSON text: both are a SyntaxError",
    "vm:VM._make_array_method.lastIndexOf_fn:start": "ECMAScript counts the arguments of Array.prototype.lastIndexOf: without fromIndex the search starts at the last element, a fromIndex that is present converts (undefined to 0)",
    "vm:VM._make_array_method.splice_fn:delete_count": "ECMAScript counts the actual arguments of splice: with one argument everything from start on is removed, an explicit undefined removes nothing",
}


def sites(ctx, where: Callable[[Func], bool]):
    """Yield (func, key, line, D, X_at_undefined, text) for every optional-argument decision in the selected natives."""
    for f in ctx.tree.funcs:
        if isinstance(f.node, ast.Lambda) or not where(f):
            continue
        for n in f.own_nodes():
            # expression form
            if isinstance(n, ast.IfExp):
                p = _presence(n.test)
                if p is None:
                    continue
                seq, idx, pol = p
                present, absent = (n.body, n.orelse) if pol else (n.orelse, n.body)
                subs = _subscripts(present, seq)
                if not subs or _subscripts(absent, seq):
                    continue
                # only the argument whose presence the test decides is replaced (a lower index is present anyway)
                tgt = {id(x) for x in subs if norm(x.slice) == idx}
                if not tgt:
                    continue
                par = getattr(n, "_parent", None)
                var = norm(par.targets[0]) if isinstance(par, ast.Assign) and len(par.targets) == 1 else "value"
                yield f, f"{f.qual}:{var}", n.lineno, absent, present, tgt, (n if var != "value" else None), n
            # statement form: `if <missing>: return D` then the general path
            if isinstance(n, ast.If) and not n.orelse and len(n.body) == 1 and isinstance(n.body[0], ast.Return) and n.body[0].value is not None:
                p = _presence(n.test)
                if p is None or p[2]:
                    continue
                seq, idx, _ = p
                blk = None
                par = getattr(n, "_parent", None)
                for field in ("body", "orelse"):
                    b = getattr(par, field, None)
                    if isinstance(b, list) and any(x is n for x in b):
                        blk = b
                if blk is None or par is not f.node:
                    continue
                rest = blk[[i for i, x in enumerate(blk) if x is n][0] + 1:]
                tgt = {id(x) for s in rest for x in _subscripts(s, seq) if norm(x.slice) == idx}
                if not tgt:
                    continue
                yield f, f"{f.qual}:return", n.lineno, n.body[0].value, rest, tgt, None, None


def _decide(ctx, f: Func, absent: ast.AST, present, tgt) -> Tuple[Optional[Tuple], Optional[Tuple]]:
    pe_plain = PE(ctx, f, lambda e: None)
    pe_sub = PE(ctx, f, lambda e: UNDEF if id(e) in tgt else None)
    try:
        d = pe_plain.ev(absent, {})
    except _Giveup:
        d = None
    try:
        if isinstance(present, list):
            try:
                pe_sub.block(present, {})
                x = None
            except _Ret as r:
                x = r.v
        else:
            x = pe_sub.ev(present, {})
    except _Giveup:
        x = None
    return d, x


def _mentions(n: ast.AST, var: str) -> bool:
    return any(isinstance(x, ast.Name) and x.id == var for x in ast.walk(n))


def _downstream(ctx, f: Func, site: ast.AST, var: str, d: Tuple, x: Tuple) -> str:
    """The two values of `var` differ at the decision.  Follow the statements after it: 'differ' when both reach a
    common use of the variable, 'same' when a test tells them apart and the variable is the same again afterwards
    (`if radix == 0: radix = 10`) or both paths return the same, 'unknown' when the paths separate and cannot be
    compared."""
    st = site
    while not isinstance(st, ast.stmt):
        st = st._parent
    par = st._parent
    blk = None
    for field in ("body", "orelse", "finalbody"):
        b = getattr(par, field, None)
        if isinstance(b, list) and any(q is st for q in b):
            blk = b
    if blk is None:
        return "differ"
    rest = blk[[i for i, q in enumerate(blk) if q is st][0] + 1:]
    pe = PE(ctx, f, lambda e: None)
    ea, eb = {var: d}, {var: x}
    for s in rest:
        if not _mentions(s, var):
            continue
        if isinstance(s, ast.If) and _mentions(s.test, var):
            ta, tb = pe.truth(s.test, ea), pe.truth(s.test, eb)
            if ta is None or tb is None:
                return "differ"  # both values flow into one test that does not tell them apart
            if ta == tb:
                branch = s.body if ta else s.orelse
                if any(_mentions(q, var) for q in branch):
                    return "differ"
                continue
            ra = rb = None
            try:
                pe.block(s.body if ta else s.orelse, ea)
            except _Ret as r:
                ra = r.v
            except _Giveup:
                return "unknown"
            try:
                pe.block(s.body if tb else s.orelse, eb)
            except _Ret as r:
                rb = r.v
            except _Giveup:
                return "unknown"
            raises_a, raises_b = ra is not None and ra[0] == "raise", rb is not None and rb[0] == "raise"
            if raises_a != raises_b:
                return "differ"  # one of the two values is refused with an error, the other is not
            if ra is not None and rb is not None:
                return "same" if _same(ra, rb) else "unknown"
            if ra is not None or rb is not None:
                return "unknown"
            if _same(ea[var], eb[var]):
                return "same"
            continue
        return "differ"
    return "differ"


def _enclosing_agrees(ctx, f: Func, expr: ast.AST, d: Tuple, x: Tuple) -> bool:
    """The decision is an operand of a larger expression (`return parse(to_string(args[0]) if args else "")`): fold that
    expression with the value for a missing argument and with the value for `undefined`; True when both fold to the
    same constant."""
    top = expr
    while not isinstance(getattr(top, "_parent", None), ast.stmt) and getattr(top, "_parent", None) is not None:
        top = top._parent
    if top is expr:
        return False
    try:
        ra = PE(ctx, f, lambda e: d if e is expr else None).ev(top, {})
        rb = PE(ctx, f, lambda e: x if e is expr else None).ev(top, {})
    except _Giveup:
        return False
    return ra[0] in ("c", "nan") and _same(ra, rb)


def _bind_params(ctx, f: Func, d: Tuple, x: Tuple) -> List[Tuple[int, Tuple, Tuple]]:
    """When either side is a parameter of helper f, evaluate both per call site of f."""
    params = [a.arg for a in f.node.args.args]
    if not any(v[0] == "sym" and v[1] in params for v in (d, x)):
        return [(0, d, x)]
    out = []
    scope = f.parent
    callers = [g for g in ctx.tree.funcs if g is not f and (g is scope or _inside(g, scope))] if scope is not None else [g for g in ctx.tree.funcs if g.module is f.module]
    for g in callers:
        if isinstance(g.node, ast.Lambda):
            continue
        for c in g.own_nodes():
            if isinstance(c, ast.Call) and isinstance(c.func, ast.Name) and c.func.id == f.name and not c.keywords:
                pe = PE(ctx, g, lambda e: None)
                env = {}
                defaults = [None] * (len(params) - len(f.node.args.defaults)) + list(f.node.args.defaults)
                ok = True
                for i, p in enumerate(params):
                    try:
                        if i < len(c.args):
                            env[p] = pe.ev(c.args[i], {})
                        elif defaults[i] is not None:
                            env[p] = pe.ev(defaults[i], {})
                        else:
                            ok = False
                    except _Giveup:
                        ok = False
                if not ok:
                    continue
                out.append((c.lineno, env.get(d[1], d) if d[0] == "sym" else d, env.get(x[1], x) if x[0] == "sym" else x))
    return out


def _inside(g: Func, scope: Func) -> bool:
    p = g.parent
    while p is not None:
        if p is scope:
            return True
        p = p.parent
    return False


def _sentinel(f: Func, var: str) -> Optional[str]:
    """'' when every `var is None` test in f also accepts undefined; a description of the first test that does not;
    None when the variable is used in a way this rule cannot judge."""
    if not var.isidentifier():
        return None
    stores = [n for n in f.own_nodes() if isinstance(n, ast.Name) and n.id == var and isinstance(n.ctx, ast.Store)]
    if len(stores) != 1:
        return None
    for n in f.own_nodes():
        if isinstance(n, ast.Compare) and len(n.ops) == 1 and isinstance(n.ops[0], (ast.Is, ast.IsNot)) and norm(n.left) == var and norm(n.comparators[0]) == "None":
            par = getattr(n, "_parent", None)
            partner = False
            if isinstance(par, ast.BoolOp):
                want = ast.Is if isinstance(n.ops[0], ast.Is) else ast.IsNot
                for o in par.values:
                    if isinstance(o, ast.Compare) and len(o.ops) == 1 and isinstance(o.ops[0], want) and norm(o.left) == var and norm(o.comparators[0]) == "UNDEFINED":
                        partner = True
            if not partner and isinstance(par, ast.If) and isinstance(n.ops[0], ast.Is) and any(isinstance(q, ast.Assign) and any(norm(t) == var for t in q.targets) and norm(q.value) == "UNDEFINED" for q in par.body):
                partner = True  # `if v is None: v = UNDEFINED`
            if not partner:
                return f"line {n.lineno} tests `{norm(n)}` alone"
    return ""


def rule_missing_is_undefined(ctx, rep, rid: str, where: Callable[[Func], bool], what: str, floor: int, legit: Optional[Dict[str, str]] = None) -> None:
    rep.rule(rid, f"a missing argument is undefined: in the natives of {what}, the value chosen when `args` is too short equals what the general path makes of `undefined` at that position (both sides evaluated abstractly through the converters; helper functions are judged per call site); the built-ins for which ECMAScript itself counts the arguments are listed with their reason", floor=floor)
    legit = dict(LEGIT, **(legit or {}))
    # positive control
    _control(ctx)
    judged = skipped = 0
    used = set()
    for f, key, line, absent, present, tgt, site, expr in sites(ctx, where):
        d, x = _decide(ctx, f, absent, present, tgt)
        if d is None or x is None:
            skipped += 1
            continue
        pairs = _bind_params(ctx, f, d, x)
        if not pairs:
            skipped += 1
            continue
        if d == _c(None) and x == UNDEF:
            # a host sentinel for "not given": the native must treat it and undefined alike
            v = _sentinel(f, key.rsplit(":", 1)[1])
            if v is None:
                skipped += 1
                continue
            judged += 1
            if v == "":
                rep.ok(rid, key, {"missing": "None (sentinel)", "undefined_gives": "undefined", "tests": "every test of the sentinel also accepts undefined, or only its truth is tested (both are false)"})
            else:
                rep.bad(rid, key, f"{f.qual}: a missing argument is represented by None and {v}, which an explicit `undefined` does not take: `f()` and `f(undefined)` are the same call in ECMAScript, so one of the two results is wrong", f"{f.module.rel}:{line}")
            continue
        judged += 1
        bad = [(ln, dd, xx) for ln, dd, xx in pairs if not _same(dd, xx)]
        if not bad:
            rep.ok(rid, key, {"missing": _show(d), "undefined_gives": _show(x)})
            continue
        if ctx.facts.canon_qual(key) in legit:
            key_c = ctx.facts.canon_qual(key)
            legit = dict(legit, **{key: legit[key_c]})
            used.add(key)
            rep.ok(rid, key, {"missing": _show(d), "undefined_gives": _show(x), "legitimately_different": legit[key]})
            continue
        if expr is not None and len(pairs) == 1 and _enclosing_agrees(ctx, f, expr, d, x):
            rep.ok(rid, key, {"missing": _show(d), "undefined_gives": _show(x), "then": "the expression the value is handed to gives the same result for both"})
            continue
        var = key.rsplit(":", 1)[1]
        if site is not None and var.isidentifier() and len(pairs) == 1:
            flow = _downstream(ctx, f, site, var, d, x)
            if flow == "same":
                rep.ok(rid, key, {"missing": _show(d), "undefined_gives": _show(x), "then": "a test tells the two apart and makes them equal again"})
                continue
            if flow == "unknown":
                judged -= 1
                skipped += 1
                continue
        ln, dd, xx = bad[0]
        at = f" (call at line {ln})" if ln else ""
        rep.bad(rid, key, f"{f.qual}: without the argument the native uses {_show(dd)}, but for an explicit `undefined` its general path yields {_show(xx)}{at}: `f()` and `f(undefined)` are the same call in ECMAScript, so one of the two results is wrong", f"{f.module.rel}:{line}")
    rep.ok(rid, "optional-arguments", {"decisions_judged": judged, "not_judged": skipped})
    if judged < floor:
        raise AnalysisError(f"{rid}: only {judged} optional-argument decisions judged (floor {floor})")


def _control(ctx) -> None:
    src = (
        "def to_int(v, default=0):\n    if v is UNDEFINED:\n        return default\n    return int(v)\n"
        "def m(*args):\n    def h(args, i, default=0):\n        if i >= len(args):\n            return default\n        return to_int(args[i])\n"
        "    a = to_int(args[1], len(s)) if len(args) > 1 else len(s)\n    b = to_int(args[1]) if len(args) > 1 else len(s)\n    c = h(args, 1, len(s))\n"
    )
    from ..core import Module, Tree  # noqa: F401

    tree = ast.parse(src)
    for x in ast.walk(tree):
        for ch in ast.iter_child_nodes(x):
            ch._parent = x  # type: ignore[attr-defined]

    class _M:
        name = "ctl"
        rel = "ctl"
        functions: Dict[str, Any] = {}
        imports: Dict[str, Any] = {}

    class _T:
        funcs: List[Any] = []

        @staticmethod
        def resolve_function_name(m, name):
            return m.functions.get(name)

    class _Ctx:
        tree = _T

    mod = _M()
    f_to = Func(mod, tree.body[0], "to_int", None, None, False)
    f_m = Func(mod, tree.body[1], "m", None, None, False)
    f_h = Func(mod, tree.body[1].body[0], "h", f_m, None, False)
    f_m.children["h"] = f_h
    mod.functions = {"to_int": f_to, "m": f_m}
    _T.funcs = [f_to, f_m, f_h]
    got = {}
    for f, key, line, absent, present, tgt, _, _e in sites(_Ctx, lambda f: f.name in ("m", "h")):
        d, x = _decide(_Ctx, f, absent, present, tgt)
        if d is None or x is None:
            continue
        pairs = _bind_params(_Ctx, f, d, x)
        got[key] = all(_same(dd, xx) for _, dd, xx in pairs) and bool(pairs)
    if got != {"ctl:m:a": True, "ctl:m:b": False, "ctl:m.h:return": False}:
        raise AnalysisError(f"positive control failed: missing-is-undefined evaluator gives {got}")


# ---------------------------------------------------------------------------------------------------
def _exclusive(a: ast.AST, b: ast.AST) -> bool:
    """Are a and b in different arms of one `if` statement?"""
    def chain(n):
        out = []
        c, p = n, getattr(n, "_parent", None)
        while p is not None:
            if isinstance(p, ast.If):
                out.append((id(p), "body" if any(c is q for q in p.body) else ("orelse" if any(c is q for q in p.orelse) else "test")))
            c, p = p, getattr(p, "_parent", None)
        return dict(out)

    ca, cb = chain(a), chain(b)
    return any(k in cb and cb[k] != v and "test" not in (v, cb[k]) for k, v in ca.items())


def rule_argument_not_overridden(ctx, rep, rid: str, where: Callable[[Func], bool], what: str, floor: int = 1) -> None:
    """A local that holds a converted script argument (`radix = to_integer(args[1]) ...`) may later be replaced by a
    constant (`radix = 16` for a 0x prefix, `radix = 10` for 0).  Such a replacement discards what the caller asked
    for, so it has to be conditional on that value: directly, or through a flag computed from it."""
    rep.rule(rid, f"in {what}, a local holding a converted script argument is replaced by a constant only under a condition that depends on the argument's value (directly or through a flag computed from it): an override that ignores the value discards what the caller asked for (parseInt('0x10', 10) must not switch to base 16)", floor=floor)
    n = 0
    for f in ctx.tree.funcs:
        if isinstance(f.node, ast.Lambda) or not where(f):
            continue
        vararg = f.node.args.vararg.arg if f.node.args.vararg else None
        if vararg is None:
            continue
        # locals first assigned from a conversion of args[i]
        first: Dict[str, ast.Assign] = {}
        for a in f.own_nodes():
            if isinstance(a, ast.Assign) and len(a.targets) == 1 and isinstance(a.targets[0], ast.Name):
                v = a.targets[0].id
                if v not in first:
                    first[v] = a
        argvars = {v: a for v, a in first.items() if _subscripts(a.value, vararg) and any(isinstance(c, ast.Call) for c in ast.walk(a.value))}
        for v, a0 in argvars.items():
            # flags computed from v before it is changed
            derived = {v}
            for a in f.own_nodes():
                if isinstance(a, ast.Assign) and len(a.targets) == 1 and isinstance(a.targets[0], ast.Name) and a.targets[0].id != v and _mentions(a.value, v) and isinstance(a.value, (ast.Compare, ast.BoolOp)):
                    derived.add(a.targets[0].id)
            for a in f.own_nodes():
                if not (isinstance(a, ast.Assign) and a is not a0 and len(a.targets) == 1 and isinstance(a.targets[0], ast.Name) and a.targets[0].id == v and isinstance(a.value, ast.Constant) and a.lineno > a0.lineno):
                    continue
                from ..util import guards_of

                if _exclusive(a0, a):
                    continue  # the other arm of the `if` that holds the first assignment: an alternative, not an override
                g = guards_of(a, f.node)
                if not g:
                    continue  # an unconditional reset is a different statement of intent (not an override of one case)
                n += 1
                key = f"{f.qual}:{v} = {norm(a.value)}"
                if any(_mentions(t, d) for t, _ in g for d in derived):
                    rep.ok(rid, key, {"condition": norm(g[0][0])[:80]})
                else:
                    rep.bad(rid, key, f"{f.qual} replaces `{v}` (converted from the script argument at line {a0.lineno}) by {norm(a.value)} under `{norm(g[0][0])[:60]}`, a condition that does not look at the value the caller passed: an explicit argument is silently ignored on that path", f"{f.module.rel}:{a.lineno}")
    if n < floor:
        raise AnalysisError(f"{rid}: {n} conditional override(s) of argument locals found, floor {floor}")


# ---- an integer argument that limits or positions the result is looked at on every way out -----------------
def rule_integer_argument_consulted(ctx, rep, rid: str, where: Callable[[Func], bool], what: str, floor: int = 10) -> None:
    """ECMAScript converts and applies a position / count / limit argument before it looks at anything that could
    make the answer trivial.  A native that converts such an argument into a local and uses it on some paths has to
    use it on all: a branch that returns without ever reading it (the `separator is undefined` branch of split that
    forgets the limit) answers as if the argument had not been passed."""
    rep.rule(rid, f"in {what}, a local holding an integer converted from a script argument (to_integer) is read on every path from its conversion to a normal return, directly or by a local helper it is handed to: no branch answers as if the argument had not been given", floor=floor)
    n = 0
    for f in ctx.tree.funcs:
        if isinstance(f.node, ast.Lambda) or not where(f):
            continue
        vararg = f.node.args.vararg.arg if f.node.args.vararg else None
        if vararg is None:
            continue
        from .textparse import _raw_integer_helpers

        raw = _raw_integer_helpers(f)
        defs = {}
        for a in f.own_nodes():
            if isinstance(a, ast.Assign) and len(a.targets) == 1 and isinstance(a.targets[0], ast.Name) and a.targets[0].id not in defs:
                if any(isinstance(x, ast.Call) and ((isinstance(x.func, ast.Name) and x.func.id == "to_integer") or (isinstance(x.func, ast.Attribute) and x.func.attr in ("_to_uint32", "_to_int32"))) for x in ast.walk(a.value)) and _subscripts(a.value, vararg):
                    defs[a.targets[0].id] = a
                elif any(isinstance(x, ast.Call) and isinstance(x.func, ast.Name) and x.func.id in raw and any(isinstance(y, ast.Name) and y.id == vararg for y in x.args) for x in ast.walk(a.value)):
                    defs[a.targets[0].id] = a  # through a local helper that converts args[i]
        if not defs:
            continue
        cfg = ctx.facts.cfg(f)
        for v, a0 in defs.items():
            reads = {nd.id for nd in cfg.nodes if nd.ast is not None and not any(x is a0 for x in ast.walk(nd.ast)) and any(isinstance(x, ast.Name) and x.id == v and isinstance(x.ctx, ast.Load) for x in ast.walk(nd.ast))}
            if not reads:
                continue  # never used at all: a different matter (dead conversion)
            n += 1
            key = f"{f.qual}:{v}"
            start = [nd for nd in cfg.nodes if nd.ast is not None and any(x is a0 for x in ast.walk(nd.ast))]
            bad = None
            for s in start:
                p = cfg.path_avoiding(s.id, lambda nd: nd.id == cfg.exit.id, reads, None, start_succ=True)
                if p is not None and not any(x.kind == "raise" for x in p):
                    bad = p
            if bad is None:
                rep.ok(rid, key)
            else:
                rep.bad(rid, key, f"{f.qual} converts a script argument into `{v}` (line {a0.lineno}) and returns through lines {[x.line for x in bad if x.line][-6:]} without ever reading it, while its other paths apply it: on that branch the call answers as if the argument had not been passed ('a,b'.split(undefined, 0) must be [] like every other split with limit 0)", f"{f.module.rel}:{a0.lineno}")
    if n < floor:
        raise AnalysisError(f"{rid}: only {n} integer argument locals examined (floor {floor})")


# ---- built-ins whose result depends on HOW MANY arguments were passed ---------------------------------------
# (family function, native, number of arguments, local, expected constant, where ECMAScript says so)
ARG_COUNT_CASES = [
    ("_make_array_method", "splice_fn", 0, "delete_count", 0, "Array.prototype.splice step 8: if start is not present, actualDeleteCount is 0"),
]


def rule_argument_count_cases(ctx, rep, rid: str) -> None:
    """A few built-ins are specified by the NUMBER of arguments, not by their values: `a.splice()` removes nothing,
    `a.splice(0)` everything.  For each listed case the native is folded with `args` of that length: the named local
    must come out as the listed constant."""
    rep.rule(rid, "for the built-ins that ECMAScript specifies by the number of arguments passed (listed with their step), folding the native with `args` of that length gives the listed value: splice() without arguments deletes nothing", floor=1)
    n = 0
    for fam, name, count, var, want, why in ARG_COUNT_CASES:
        fam_now = ctx.facts.family_methods().get(fam, fam)
        f = next((g for g in ctx.tree.funcs if g.name == name and g.parent is not None and g.parent.name in (fam, fam_now) and not isinstance(g.node, ast.Lambda)), None)
        if f is None:
            raise AnalysisError(f"{rid}: native {fam}.{name} not found")
        va = f.node.args.vararg.arg if f.node.args.vararg is not None else "args"

        def subst(e: ast.AST, va=va, count=count):
            if isinstance(e, ast.Name) and e.id == va and isinstance(getattr(e, "_parent", None), (ast.IfExp, ast.If, ast.BoolOp, ast.UnaryOp, ast.While)):
                return _c(count > 0)
            if isinstance(e, ast.Call) and norm(e.func) == "len" and len(e.args) == 1 and norm(e.args[0]) == va:
                return _c(count)
            if isinstance(e, ast.Compare):
                p = _presence(e)
                if p is not None and p[0] == va and p[1].lstrip("-").isdigit():
                    present = count > int(p[1])
                    return _c(present if p[2] else not present)
            return None

        pe = PE(ctx, f, subst)
        env: Dict[str, Any] = {}
        got = None
        for st in f.node.body:
            try:
                pe.block([st], env)
            except _Ret:
                break
            except _Giveup:
                if var in env:
                    break
                continue
            if var in env:
                break  # the statement that decides the value from the arguments; later ones only clamp it
        got = env.get(var)
        n += 1
        key = f"{f.qual}:{count}-arguments:{var}"
        if got is not None and got[0] == "c" and got[2] == want and type(got[2]) is type(want):
            rep.ok(rid, key, {"value": want, "because": why})
        else:
            rep.bad(rid, key, f"{f.qual} called with {count} argument(s) computes {var} = {_show(got)} where ECMAScript fixes it at {want} ({why}): `[1,2,3].splice()` must leave the array alone and return []", f.loc)
    rep.ok(rid, "argument-count-cases", {"cases": n})


# ---- arguments that the specification validates first are validated before anything is returned ---------

# (canonical family builder, script name of the method): why the RangeError for the argument comes before any result
ARGUMENT_CHECKED_FIRST = {
    ("_make_string_method", "repeat"): "String.prototype.repeat: 'If n < 0 or n = +inf, throw a RangeError' is step 4, before the string is looked at: \"\".repeat(Infinity) throws",
    ("_make_number_method", "toFixed"): "Number.prototype.toFixed: the digit count is range-checked (step 4-5) before a non-finite number is answered: NaN.toFixed(101) throws",
    ("_make_number_method", "toString"): "Number.prototype.toString: the radix is range-checked before NaN and the infinities are answered",
}


def rule_argument_checked_first(ctx, rep, rid: str, families: Tuple[str, ...]) -> None:
    """For a few methods ECMAScript validates an argument before it looks at the receiver.  In the native, every
    `if <test on the argument only>: raise RangeError` must then come before every `return`: a result produced
    earlier (an early exit for an empty receiver, say) lets an invalid argument through for those receivers."""
    rep.rule(rid, "in the natives listed in ARGUMENT_CHECKED_FIRST, every RangeError test that depends on the argument alone dominates every return (no result is produced before the argument was found valid), and there is at least one such test", floor=1)
    vmcls = ctx.facts.vm_dispatcher()[0].cls
    fams = ctx.facts.family_methods()
    n = 0
    for (canon, js), why in sorted(ARGUMENT_CHECKED_FIRST.items()):
        if canon not in families:
            continue
        builder = ctx.tree.find_method(vmcls, fams.get(canon, canon))
        if builder is None:
            raise AnalysisError(f"{rid}: builder {canon} not found")
        py = None
        for d in builder.own_nodes():
            if isinstance(d, ast.Dict):
                for k, v in zip(d.keys, d.values):
                    if isinstance(k, ast.Constant) and k.value == js and isinstance(v, ast.Name):
                        py = v.id
        f = next((g for g in ctx.tree.funcs if g.parent is builder and g.name == py), None) if py else None
        if f is None:
            raise AnalysisError(f"{rid}: {js} not found in the method table of {canon}")
        n += 1
        # names that depend on the arguments only
        argnames = set(f.params())
        if f.node.args.vararg is not None:
            argnames.add(f.node.args.vararg.arg)
        free = {"math", "UNDEFINED", "NULL", "to_integer", "to_number", "to_string", "len", "int", "float", "abs", "min", "max", "isinstance", "self"}
        changed = True
        while changed:
            changed = False
            for a in f.own_nodes():
                if isinstance(a, ast.Assign) and len(a.targets) == 1 and isinstance(a.targets[0], ast.Name) and a.targets[0].id not in argnames:
                    callees = {id(c.func) for c in ast.walk(a.value) if isinstance(c, ast.Call)}
                    used = {x.id for x in ast.walk(a.value) if isinstance(x, ast.Name) and id(x) not in callees}
                    if used and used <= argnames | free and used & argnames:
                        argnames.add(a.targets[0].id)
                        changed = True
        cfg = ctx.facts.cfg(f)
        guards = []
        for st in f.own_nodes():
            if isinstance(st, ast.If) and any(isinstance(b, ast.Raise) and b.exc is not None and "RangeError" in norm(b.exc) for b in st.body):
                callees = {id(c.func) for c in ast.walk(st.test) if isinstance(c, ast.Call)}
                used = {x.id for x in ast.walk(st.test) if isinstance(x, ast.Name) and id(x) not in callees}
                if used <= argnames | free and used & argnames:
                    guards.append(st)
        key = f"{canon}.{js}:argument-first"
        loc = f.loc
        if not guards:
            rep.bad(rid, key, f"{f.qual} has no RangeError test that depends on its argument alone ({why})", loc)
            continue
        bad = None
        for g in guards:
            gn = {cfg.node_of_stmt[id(g)].id} if id(g) in cfg.node_of_stmt else set()
            for r in cfg.nodes:
                if r.ast is not None and isinstance(r.ast, ast.Return):
                    p = cfg.path_avoiding(cfg.entry.id, lambda nd, r=r: nd.id == r.id, gn, None)
                    if p is not None and gn:
                        bad = (g, r.ast)
                        break
            if bad:
                break
        if bad is None:
            rep.ok(rid, key, {"guards": [f"line {g.lineno}: {short(g.test, 50)}" for g in guards]})
        else:
            g, r = bad
            rep.bad(rid, key, f"{f.qual} can `{short(r, 30)}` (line {r.lineno}) without having passed the argument test `{short(g.test, 50)}` (line {g.lineno}): {why}", f"{f.module.rel}:{r.lineno}")
    if n == 0:
        raise AnalysisError(f"{rid}: no listed native in families {families}")


# natives whose first argument must not be a regular expression (IsRegExp -> TypeError)
NO_REGEXP_ARGUMENT = ("startsWith", "endsWith", "includes")


def rule_regexp_argument_refused(ctx, rep, rid: str) -> None:
    """String.prototype.startsWith / endsWith / includes throw a TypeError when the search value is a RegExp, before
    anything is converted: `'abc'.includes(/b/)` must not search for the text "/b/"."""
    rep.rule(rid, "in String.prototype.startsWith, endsWith and includes a `raise JSTypeError` under an isinstance test of the first argument against the RegExp class dominates every return", floor=3)
    vmcls = ctx.facts.vm_dispatcher()[0].cls
    builder = ctx.tree.find_method(vmcls, ctx.facts.family_methods().get("_make_string_method", "_make_string_method"))
    if builder is None:
        raise AnalysisError(f"{rid}: the String method table builder was not found")
    table = {}
    for d in builder.own_nodes():
        if isinstance(d, ast.Dict):
            for k, v in zip(d.keys, d.values):
                if isinstance(k, ast.Constant) and isinstance(v, ast.Name):
                    table[k.value] = v.id
    for js in NO_REGEXP_ARGUMENT:
        if js not in table:
            continue  # not implemented: nothing to judge
        f = next((g for g in ctx.tree.funcs if g.parent is builder and g.name == table[js]), None)
        if f is None:
            raise AnalysisError(f"{rid}: closure of {js} not found")
        key = f"_make_string_method.{js}:regexp-refused"
        guards = [t for t in f.own_nodes() if isinstance(t, ast.If) and "JSRegExp" in norm(t.test) and "isinstance" in norm(t.test) and any(isinstance(b, ast.Raise) and b.exc is not None and "TypeError" in norm(b.exc) for b in t.body)]
        if not guards:
            rep.bad(rid, key, f"{f.qual} converts its search argument to text whatever it is: `'abc'.{js}(/b/)` searches for \"/b/\" where ECMAScript throws a TypeError", f.loc)
            continue
        cfg = ctx.facts.cfg(f)
        gn = {cfg.node_of_stmt[id(g)].id for g in guards if id(g) in cfg.node_of_stmt}
        late = [r for r in cfg.nodes if r.ast is not None and isinstance(r.ast, ast.Return) and cfg.path_avoiding(cfg.entry.id, lambda nd, r=r: nd.id == r.id, gn, None) is not None]
        if late:
            rep.bad(rid, key, f"{f.qual} can return (line {late[0].line}) without having tested its argument for a regular expression", f"{f.module.rel}:{late[0].line}")
        else:
            rep.ok(rid, key)


# ---- the callbacks of the array iteration methods --------------------------------------------------------------

_ITERATION_METHODS = ("forEach", "map", "filter", "find", "findIndex", "some", "every")
_REDUCERS = ("reduce", "reduceRight")


def rule_iteration_callbacks(ctx, rep, rid: str) -> None:
    """forEach/map/filter/find/findIndex/some/every(callback, thisArg): the callback runs with thisArg as its this, and a
    callback that is not callable is a TypeError before any element is visited.  reduce/reduceRight(callback,
    initialValue): whether there is an initial value is decided by the NUMBER of arguments - reduce(f, undefined)
    starts from undefined."""
    rep.rule(rid, "the array iteration methods hand their second argument to the callback as its this (third argument of the call helper, derived from args[1]) and reach a TypeError for a non-callable callback on every path that returns without calling it; reduce and reduceRight decide 'no initial value' by the number of arguments, never by comparing the value with undefined", floor=9)
    vmcls = ctx.facts.vm_dispatcher()[0].cls
    builder = ctx.tree.find_method(vmcls, ctx.facts.family_methods().get("_make_array_method", "_make_array_method"))
    if builder is None:
        raise AnalysisError(f"{rid}: the Array method table builder was not found")
    table = {}
    for d in builder.own_nodes():
        if isinstance(d, ast.Dict):
            for k, v in zip(d.keys, d.values):
                if isinstance(k, ast.Constant) and isinstance(v, ast.Name):
                    table[k.value] = v.id
    closures = {g.name: g for g in ctx.tree.funcs if g.parent is builder and not isinstance(g.node, ast.Lambda)}

    def helper_facts(f):
        """(names bound to the this-argument, does a helper called at the top raise TypeError for non-callables?)"""
        this_names, refuses = set(), False
        for a in f.own_nodes():
            if isinstance(a, ast.Assign):
                v = a.value
                if "args[1]" in norm(v) and len(a.targets) == 1 and isinstance(a.targets[0], ast.Name):
                    this_names.add(a.targets[0].id)
                if isinstance(v, ast.Call) and isinstance(v.func, ast.Name) and v.func.id in closures and isinstance(a.targets[0], ast.Tuple):
                    h = closures[v.func.id]
                    rets = [r.value for r in h.own_nodes() if isinstance(r, ast.Return) and isinstance(r.value, ast.Tuple)]
                    for r in rets:
                        for i, e in enumerate(r.elts):
                            if "args[1]" in norm(e) and i < len(a.targets[0].elts) and isinstance(a.targets[0].elts[i], ast.Name):
                                this_names.add(a.targets[0].elts[i].id)
                    if any(isinstance(r, ast.Raise) and r.exc is not None and "TypeError" in norm(r.exc) for r in h.own_nodes()):
                        refuses = True
        if any(isinstance(r, ast.Raise) and r.exc is not None and "TypeError" in norm(r.exc) and any("callable" in norm(t) or "JSFunction" in norm(t) for t, _ in _guards(r, f)) for r in f.own_nodes()):
            refuses = True
        return this_names, refuses

    def _guards(n, f):
        from ..util import guards_of

        return guards_of(n, f.node)

    n = 0
    for js in _ITERATION_METHODS:
        f = closures.get(table.get(js, ""))
        if f is None:
            continue
        n += 1
        this_names, refuses = helper_facts(f)
        calls = [c for c in f.own_nodes() if isinstance(c, ast.Call) and isinstance(c.func, ast.Attribute) and c.func.attr == "_call_callback"]
        key = f"_make_array_method.{js}:this-argument"
        if calls and all(len(c.args) >= 3 and (norm(c.args[2]) in this_names or "args[1]" in norm(c.args[2])) for c in calls):
            rep.ok(rid, key)
        else:
            rep.bad(rid, key, f"{f.qual} calls the callback without the method's second argument as its this: `[1].{js}(function(){{ return this.k }}, {{k: 5}})` runs the callback with this undefined", f.loc)
        key = f"_make_array_method.{js}:callback-refused"
        if refuses:
            rep.ok(rid, key)
        else:
            rep.bad(rid, key, f"{f.qual} returns quietly when the callback is missing or not callable: `[1,2].{js}()` is a TypeError in ECMAScript, before any element is visited", f.loc)
    for js in _REDUCERS:
        f = closures.get(table.get(js, ""))
        if f is None:
            continue
        n += 1
        key = f"_make_array_method.{js}:initial-value-by-count"
        seeds = [t for t in f.own_nodes() if isinstance(t, ast.If) and any(isinstance(r, ast.Raise) and "initial value" in norm(r.exc or r) for r in ast.walk(t))]
        by_value = [t for t in seeds if "is UNDEFINED" in norm(t.test) or "== UNDEFINED" in norm(t.test)]
        by_count = False
        for t in seeds:
            names = {x.id for x in ast.walk(t.test) if isinstance(x, ast.Name)}
            if "len(args)" in norm(t.test) or any(isinstance(a, ast.Assign) and len(a.targets) == 1 and isinstance(a.targets[0], ast.Name) and a.targets[0].id in names and "len(args)" in norm(a.value) and "UNDEFINED" not in norm(a.value) for a in f.own_nodes()):
                by_count = True
        if by_value or not by_count:
            rep.bad(rid, key, f"{f.qual} decides that there is no initial value by looking at the value (`{short(seeds[0].test, 40) if seeds else '?'}`): `[1,2,3].{js}(f, undefined)` must start from undefined (the number of arguments decides), and `[].{js}(f, undefined)` is undefined, not a TypeError", f.loc)
        else:
            rep.ok(rid, key)
    if n < 9:
        raise AnalysisError(f"{rid}: only {n} of the nine iteration methods found in the Array method table")
