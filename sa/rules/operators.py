"""Operator-semantics necessary conditions (C06-R6, C06-R7)."""

from __future__ import annotations

import ast
from typing import Dict, List, Optional

from ..core import AnalysisError, norm, short, walk_no_nested
from ..util import guards_of


def rule_unordered_comparisons(ctx, rep, rid: str) -> None:
    rep.rule(rid, "the value the comparison helper returns for NaN operands makes all four relational handlers push false", floor=4)
    df, chain = ctx.facts.vm_dispatcher()
    cmpf = ctx.tree.find_method(df.cls, "_compare")
    if cmpf is None:
        raise AnalysisError("_compare not found")
    nan_vals = []
    for n in cmpf.own_nodes():
        if isinstance(n, ast.Return) and n.value is not None:
            g = guards_of(n, cmpf.node)
            if any("isnan" in norm(t) for t, pol in g if pol):
                nan_vals.append(n.value)
    if not nan_vals:
        raise AnalysisError("_compare has no NaN path")
    for opn in ("LT", "LE", "GT", "GE"):
        body = chain.body_of(opn)
        if body is None:
            raise AnalysisError(f"no handler for {opn}")
        key = f"{df.qual}:{opn}:NaN"
        # the expression pushed by the handler, with locals assigned from _compare(...) marked
        cmp_vars = set()
        pushed = None
        for s in body:
            if isinstance(s, ast.Assign) and isinstance(s.value, ast.Call) and norm(s.value.func) == "self._compare" and isinstance(s.targets[0], ast.Name):
                cmp_vars.add(s.targets[0].id)
            for n in walk_no_nested(s):
                if isinstance(n, ast.Call) and norm(n.func) == "self.stack.append" and n.args:
                    pushed = n.args[0]
        if pushed is None:
            rep.bad(rid, key, f"the {opn} handler pushes no result", f"{df.module.rel}:{body[0].lineno}")
            continue
        uses = any((isinstance(x, ast.Name) and x.id in cmp_vars) or (isinstance(x, ast.Call) and norm(x.func) == "self._compare") for x in ast.walk(pushed))
        if not uses:
            rep.ok(rid, key, {"note": "result does not depend on _compare"})
            continue
        bad = None
        for v in nan_vals:
            if not isinstance(v, ast.Constant):
                continue
            r = _fold(pushed, cmp_vars, v.value)
            if r is True:
                bad = (v.value, norm(pushed))
            elif r is None:
                rep.note(f"{opn}: predicate {norm(pushed)} not foldable")
        if bad:
            rep.bad(rid, key, f"_compare returns {bad[0]!r} when an operand is NaN and the {opn} handler pushes `{bad[1]}`, which is true for that value: a comparison with NaN yields true", f"{df.module.rel}:{body[0].lineno}")
        else:
            rep.ok(rid, key, {"predicate": norm(pushed), "nan_result": [norm(v) for v in nan_vals]})


def _fold(e: ast.AST, cmp_vars, value):
    """Evaluate a boolean expression over constants, with the comparison result replaced by `value`."""
    if isinstance(e, ast.Constant):
        return e.value
    if isinstance(e, ast.Name) and e.id in cmp_vars:
        return value
    if isinstance(e, ast.Call) and norm(e.func) == "self._compare":
        return value
    if isinstance(e, ast.BoolOp):
        vals = [_fold(v, cmp_vars, value) for v in e.values]
        if isinstance(e.op, ast.And):
            if any(v is False for v in vals):
                return False
            return None if any(v is None for v in vals) else all(bool(v) for v in vals)
        if any(v is True for v in vals):
            return True
        return None if any(v is None for v in vals) else any(bool(v) for v in vals)
    if isinstance(e, ast.UnaryOp) and isinstance(e.op, ast.Not):
        v = _fold(e.operand, cmp_vars, value)
        return None if v is None else (not v)
    if isinstance(e, ast.Compare) and len(e.ops) == 1:
        a, b = _fold2(e.left, cmp_vars, value), _fold2(e.comparators[0], cmp_vars, value)
        if a is _UNK or b is _UNK:
            return None
        op = e.ops[0]
        try:
            if isinstance(op, ast.Is):
                return a is b
            if isinstance(op, ast.IsNot):
                return a is not b
            if a is None or b is None:
                return None if not isinstance(op, (ast.Eq, ast.NotEq)) else ((a == b) if isinstance(op, ast.Eq) else (a != b))
            return {ast.Lt: a < b, ast.LtE: a <= b, ast.Gt: a > b, ast.GtE: a >= b, ast.Eq: a == b, ast.NotEq: a != b}[type(op)]
        except Exception:
            return None
    return None


_UNK = object()


def _fold2(e, cmp_vars, value):
    if isinstance(e, ast.Constant):
        return e.value
    if isinstance(e, ast.Name) and e.id in cmp_vars:
        return value
    if isinstance(e, ast.Call) and norm(e.func) == "self._compare":
        return value
    return _UNK


def rule_host_operator_pitfalls(ctx, rep, rid: str) -> None:
    rep.rule(rid, "host operators whose semantics differ from ECMAScript's (Python % is floored, ** yields complex/exact ints/ZeroDivisionError) are not applied raw to script numbers in the arithmetic handlers", floor=2)
    df, chain = ctx.facts.vm_dispatcher()
    for opn, pyop, why in (
        ("MOD", ast.Mod, "Python % takes the sign of the divisor (floored); ECMAScript % takes the sign of the dividend (-5 % 3 must be -2)"),
        ("POW", ast.Pow, "Python ** returns complex for negative bases with fractional exponents, raises ZeroDivisionError for 0 ** -1 and computes exact big integers"),
    ):
        body = chain.body_of(opn)
        if body is None:
            raise AnalysisError(f"no handler for {opn}")
        hit = None
        for s in body:
            for n in walk_no_nested(s):
                if isinstance(n, ast.BinOp) and isinstance(n.op, pyop):
                    both_abs = all(isinstance(x, ast.Call) and norm(x.func) == "abs" for x in (n.left, n.right))
                    if pyop is ast.Mod and both_abs:
                        continue  # floored and truncated remainder coincide on non-negative operands
                    hit = n
        key = f"{df.qual}:{opn}:raw-host-operator"
        if hit is not None:
            rep.bad(rid, key, f"the {opn} handler applies the host operator directly ({short(hit, 40)}): {why}", f"{df.module.rel}:{hit.lineno}")
        else:
            rep.ok(rid, key)


def rule_bool_is_not_a_number(ctx, rep, rid: str) -> None:
    """C06-R4: Python's bool is a subclass of int.  Wherever a script value is handed back *unchanged* as a
    number because it passed an `isinstance(v, int)` / `isinstance(v, (int, float))` test, booleans must have
    been excluded first (an earlier `isinstance(v, bool)` branch, or `not isinstance(v, bool)` in the test)."""
    rep.rule(rid, "a script value is returned unchanged as a number under an isinstance(v, int/float) test only after booleans were excluded (bool is a subclass of int in the host)", floor=3)
    from ..util import atoms

    for f in ctx.tree.funcs:
        if f.module.name not in ("vm", "values", "context"):
            continue
        for r in f.own_nodes():
            if not isinstance(r, ast.Return):
                continue
            rv = r.value
            # `return v` or `return normalise(v)` (a number normaliser hands an in-range value back unchanged)
            if isinstance(rv, ast.Call) and isinstance(rv.func, ast.Name) and rv.func.id in _normalisers(ctx) and len(rv.args) == 1:
                rv = rv.args[0]
            if not isinstance(rv, ast.Name):
                continue
            v = rv.id
            g = guards_of(r, f.node)
            ats = [(norm(a), p) for t, pol in g for a, p in atoms(t, pol)]
            num_test = [a for a, p in ats if p and a.startswith(f"isinstance({v}, ") and ("int" in a.split(",", 1)[1]) and "bool" not in a]
            if not num_test:
                continue
            key = f"{f.qual}:return {v} under {num_test[0]}"
            excluded = any((a == f"isinstance({v}, bool)" and not p) for a, p in ats)
            if not excluded:
                # an earlier sibling `if isinstance(v, bool): return ...`
                for s in f.own_nodes():
                    if isinstance(s, ast.If) and s.lineno < r.lineno and norm(s.test) == f"isinstance({v}, bool)" and s.body and isinstance(s.body[-1], (ast.Return, ast.Raise)):
                        excluded = True
            if excluded:
                rep.ok(rid, key)
            else:
                rep.bad(rid, key, f"{f.qual} returns `{v}` unchanged when {num_test[0]} holds, without excluding booleans first: true/false are passed through as numbers-that-are-booleans (e.g. `true | false` yields a boolean, `typeof` says 'boolean')", f"{f.module.rel}:{r.lineno}")


def rule_strict_equality_excludes_bool(ctx, rep, rid: str) -> None:
    """=== never holds between a boolean and a number.  The helper behind the strict-equality opcodes compares a host
    int with a host float by value (`1 === 1.0`); bool being a subclass of int, that comparison must not be reached
    with a boolean operand: `True == 1` is true for the host."""
    rep.rule(rid, "in the helper behind the strict-equality opcodes (and indexOf/includes/switch, which use it), a host `==` between operands admitted by isinstance(.., int/float) tests of different host types is reached only after booleans were excluded (true === 1 is false), and host identity (`a is b`) answers true only where the operands cannot be NaN", floor=1)
    from ..util import atoms, known_conditions

    df, chain = ctx.facts.vm_dispatcher()
    helpers = set()
    for opn in ("SEQ", "SNE", "STRICT_EQ", "STRICT_NE"):
        body = chain.body_of(opn)
        for s in body or []:
            for c in ast.walk(s):
                if isinstance(c, ast.Call) and isinstance(c.func, ast.Attribute) and norm(c.func.value) == "self":
                    m = ctx.tree.find_method(df.cls, c.func.attr) if df.cls is not None else None
                    if m is not None and len([a for a in m.node.args.args if a.arg != "self"]) == 2:
                        helpers.add(m)
    if not helpers:
        raise AnalysisError("no strict-equality helper found behind the SEQ/SNE handlers")
    for f in helpers:
        pa, pb = [a.arg for a in f.node.args.args if a.arg != "self"]
        n = 0
        for r in f.own_nodes():
            if not (isinstance(r, ast.Compare) and len(r.ops) == 1 and isinstance(r.ops[0], (ast.Eq, ast.NotEq)) and {norm(r.left), norm(r.comparators[0])} == {pa, pb}):
                continue
            ats = [(norm(a), p) for t, pol in known_conditions(r, f.node) for a, p in atoms(t, pol)]
            num = {v for v in (pa, pb) if any(p and a.startswith(f"isinstance({v}, ") and "int" in a.split(",", 1)[1] and "bool" not in a for a, p in ats)}
            same_type = any((a.replace(" ", "") in (f"type({pa})==type({pb})", f"type({pb})==type({pa})", f"type({pa})istype({pb})") and p) or (a.replace(" ", "") in (f"type({pa})!=type({pb})", f"type({pb})!=type({pa})") and not p) for a, p in ats)
            if not num or same_type:
                continue
            n += 1
            key = f"{f.qual}:{norm(r)} under isinstance int/float"
            missing = [v for v in (pa, pb) if not any(a == f"isinstance({v}, bool)" and not p for a, p in ats)]
            if missing:
                rep.bad(rid, key, f"{f.qual} compares `{norm(r)}` with the host's == after admitting operands by isinstance(.., (int, float)) tests, without excluding a boolean {' / '.join(missing)} first: bool is a subclass of int, so true === 1 and false === 0 come out true", f"{f.module.rel}:{r.lineno}")
            else:
                rep.ok(rid, key)
        if n == 0:
            rep.ok(rid, f"{f.qual}:no-mixed-type-numeric-comparison", {"note": "the helper has no host == between operands of different host types"})
        # identity is not equality for NaN: the one value that is not equal to itself is often ONE host object
        # (the global NaN, a variable read twice), so `a is b` may answer True only where NaN is excluded
        for r in f.own_nodes():
            if not (isinstance(r, ast.Return) and r.value is not None):
                continue
            conds = known_conditions(r, f.node)
            ats = [(norm(a).replace(" ", ""), p) for t, pol in conds for a, p in atoms(t, pol)]
            ident = (f"{pa}is{pb}", f"{pb}is{pa}")
            by_identity = (isinstance(r.value, ast.Constant) and r.value.value is True and any(a in ident and p for a, p in ats)) or (norm(r.value).replace(" ", "") in ident)
            if not by_identity:
                continue
            key = f"{f.qual}:identity-answers-true:line-shape {norm(r)[:30]}"
            nan_out = any((("isnan(" in a or a in (f"{pa}!={pa}", f"{pb}!={pb}")) and not p) or (a in (f"{pa}=={pa}", f"{pb}=={pb}") and p) for a, p in ats)
            not_float = any(p and a.startswith(("isinstance(" + pa + ",", "isinstance(" + pb + ",")) and "float" not in a and "int" not in a.split(",", 1)[1] for a, p in ats) or any(not p and a.startswith(("isinstance(" + pa + ",", "isinstance(" + pb + ",")) and "float" in a for a, p in ats)
            if nan_out or not_float:
                rep.ok(rid, key)
            else:
                rep.bad(rid, key, f"{f.qual} answers true because the operands are the same host object (`{norm(r)[:40]}`) on a path where they can be a float: NaN is not equal to itself, and the global NaN or a variable read twice is one object, so NaN === NaN and x !== x come out wrong while 0/0 === 0/0 does not", f"{f.module.rel}:{r.lineno}")


def rule_postfix_result_is_number(ctx, rep, rid: str) -> None:
    """x++ evaluates to ToNumber(old value).  Decided on the instruction sequences the compiler emits for an update
    expression (abstract interpretation of the emitting code): where the copy kept as the result is taken BEFORE the
    INC/DEC instruction (the postfix form), the instruction before that DUP must be one whose handler pushes
    to_number(..) of its operand."""
    rep.rule(rid, "on every instruction sequence the compiler emits for an update expression, the value kept as the expression's result is either the output of INC/DEC (prefix) or, when it is copied before INC/DEC (postfix), was converted by an instruction whose handler pushes to_number(..): `x++` on '5' yields the number 5, not the string", floor=4)
    from .. import emit

    df, chain = ctx.facts.vm_dispatcher()
    numeric = set()
    for mem, body, _ in chain.branches:
        pushes = [c for s_ in body for c in ast.walk(s_) if isinstance(c, ast.Call) and isinstance(c.func, ast.Attribute) and c.func.attr == "append" and norm(c.func.value) == "self.stack"]
        if len(pushes) == 1 and pushes[0].args and isinstance(pushes[0].args[0], ast.Call) and norm(pushes[0].args[0].func) in ("to_number", "self._to_number"):
            numeric |= set(mem)
    if not numeric:
        raise AnalysisError("no instruction whose handler pushes to_number(..) found")
    ea = emit.get(ctx)
    n = 0
    for br in ea.run_chain("_compile_expression"):
        if "UpdateExpression" not in br.cls.split("|"):
            continue
        seen = set()
        for e in br.ends:
            if e.raised:
                continue
            ops = [(ev[1], ev[2]) for ev in e.events if ev[0] == "emit"]
            names = [o for o, _ in ops]
            idx = [i for i, o in enumerate(names) if set(o.split("/")) & {"INC", "DEC"}]
            if not idx:
                continue
            i = idx[0]
            sig = tuple(names)
            if sig in seen:
                continue
            seen.add(sig)
            if i == 0 or names[i - 1] != "DUP":
                continue  # prefix: the result is what INC/DEC produced
            n += 1
            key = f"UpdateExpression:{'→'.join(names[: i + 1])}"
            before = names[i - 2] if i >= 2 else "?"
            if set(before.split("/")) <= numeric:
                rep.ok(rid, key, {"converted_by": before})
            else:
                rep.bad(rid, key, f"the compiler copies the old value as the result of a postfix update right after {before} (line {ops[i - 1][1]}), with no instruction in between that converts it to a number ({sorted(numeric)} do): for x = '5', `x++` evaluates to the string '5' (ECMAScript: the number 5)", f"{br.func.module.rel}:{ops[i - 1][1]}")
    if n < 4:
        raise AnalysisError(f"{rid}: only {n} postfix update sequences found")


# ---- host truthiness is not ToBoolean for NaN -----------------------------------------------------------
def _float_excluded(call: ast.Call, f, ctx) -> bool:
    """Is the operand of bool(x) known not to be a float (or not NaN) at the call?"""
    arg = call.args[0]
    a = norm(arg)
    for t, pol in guards_of(call, f.node):
        for x in ast.walk(t):
            if isinstance(x, ast.Call) and norm(x.func) == "isinstance" and len(x.args) == 2 and norm(x.args[0]) == a and pol:
                names = [norm(e) for e in (x.args[1].elts if isinstance(x.args[1], ast.Tuple) else [x.args[1]])]
                if "float" not in names:
                    return True
            if isinstance(x, ast.Compare) and pol and len(x.ops) == 1:
                l, r = norm(x.left), norm(x.comparators[0])
                if l == f"type({a})" and isinstance(x.ops[0], (ast.Is, ast.Eq)) and r != "float":
                    return True
                if l == f"type({a})" and isinstance(x.ops[0], ast.In):
                    members = _resolve_type_set(x.comparators[0], f, ctx)
                    if members is not None and "float" not in members:
                        return True
                if l == a and r == a and isinstance(x.ops[0], ast.Eq):
                    return True  # x == x: not NaN
            if isinstance(x, ast.Call) and norm(x.func) in ("is_nan", "math.isnan") and x.args and norm(x.args[0]) == a and not pol:
                return True
    return False


def _resolve_type_set(e: ast.AST, f, ctx) -> Optional[List[str]]:
    if isinstance(e, (ast.Tuple, ast.List, ast.Set)):
        return [norm(x) for x in e.elts]
    if isinstance(e, ast.Name):
        for n in f.module.tree.body:
            if isinstance(n, ast.Assign) and any(isinstance(t, ast.Name) and t.id == e.id for t in n.targets):
                v = n.value
                if isinstance(v, ast.Call) and norm(v.func) in ("frozenset", "set", "tuple") and v.args:
                    v = v.args[0]
                if isinstance(v, (ast.Tuple, ast.List, ast.Set)):
                    return [norm(x) for x in v.elts]
    return None


def rule_host_truthiness(ctx, rep, rid: str) -> None:
    """Python's bool(float('nan')) is True; ToBoolean(NaN) is false.  Script values are tested for truth through
    the engine's to_boolean; a host bool() is only right where the operand cannot be a float."""
    rep.rule(rid, "the truth of a script value is decided by the engine's ToBoolean: no host bool() is applied to an operand that may be a float (bool(NaN) is True), and each conditional-jump / logical-not handler converts the popped value with to_boolean or a helper all of whose results come from it", floor=3)
    ctl = ast.parse("def f(v):\n    if type(v) in (bool, int, float, str):\n        return bool(v)\n    return to_boolean(v)\n")
    for x in ast.walk(ctl):
        for c in ast.iter_child_nodes(x):
            c._parent = x  # type: ignore[attr-defined]

    class _M:
        tree = ctl

    class _F:
        node = ctl.body[0]
        module = _M

    c0 = next(n for n in ast.walk(ctl) if isinstance(n, ast.Call) and norm(n.func) == "bool")
    if _float_excluded(c0, _F, ctx):
        raise AnalysisError("positive control failed: bool() of a possibly-float operand not recognised")
    n_bool = 0
    for f in ctx.tree.funcs:
        if f.module.name not in ("vm", "context", "values") or isinstance(f.node, ast.Lambda):
            continue
        for n in f.own_nodes():
            if isinstance(n, ast.Call) and isinstance(n.func, ast.Name) and n.func.id == "bool" and len(n.args) == 1 and not isinstance(n.args[0], ast.Constant):
                n_bool += 1
                key = f"{f.qual}:bool({short(n.args[0], 30)})"
                if _float_excluded(n, f, ctx):
                    rep.ok(rid, key)
                else:
                    rep.bad(rid, key, f"{f.qual} converts {norm(n.args[0])} with the host's bool(): for a float operand bool(NaN) is True although ToBoolean(NaN) is false (`NaN ? 1 : 2`, `NaN || x`, `if (0/0)` take the wrong branch)", f"{f.module.rel}:{n.lineno}")
    rep.ok(rid, "host-bool-conversions", {"examined": n_bool})
    # the handlers that branch on a popped value
    df, chain = ctx.facts.vm_dispatcher()
    n_h = 0
    for names, body, ifnode in chain.branches:
        line = ifnode.lineno
        if not any(x in names for x in ("JUMP_IF_FALSE", "JUMP_IF_TRUE", "NOT")):
            continue
        n_h += 1
        key = f"{df.qual}:{'/'.join(names)}:truth-test"
        tests = [n for s_ in body for n in ast.walk(s_) if isinstance(n, ast.Call) and any(isinstance(a, ast.Call) and norm(a.func).endswith("stack.pop") for a in n.args)]
        tests += [n for s_ in body for n in ast.walk(s_) if isinstance(n, ast.Call) and norm(n.func) == "to_boolean"]
        ok = False
        why = "no conversion call found"
        for t in tests:
            fn = norm(t.func)
            if fn == "to_boolean":
                ok = True
                break
            cs = ctx.cg.site_of_call.get(id(t))
            if cs is not None and cs.kind == "resolved" and cs.targets:
                g = cs.targets[0]
                rets = [r.value for r in g.own_nodes() if isinstance(r, ast.Return) and r.value is not None]
                if rets and all(isinstance(r, ast.Call) and norm(r.func) in ("to_boolean", "bool") for r in rets):
                    ok = True  # bool() results are judged above
                    break
                why = f"{g.qual} returns something other than a ToBoolean result"
        if ok:
            rep.ok(rid, key)
        else:
            rep.bad(rid, key, f"the {'/'.join(names)} handler does not decide through to_boolean ({why})", f"{df.module.rel}:{line}")
    if n_h < 2:
        raise AnalysisError("conditional-jump handlers not found in the dispatcher")


# ---- whole numbers held as host ints stay within the exactly representable range ----------------------
def _normalisers(ctx) -> set:
    """Functions that round an int beyond 2**53 to a float: body tests isinstance(x, int), mentions 2**53 and
    returns float(x).  Found by shape."""
    cached = ctx.__dict__.get("_number_normalisers")
    if cached is not None:
        return cached
    out = set()
    for f in ctx.tree.funcs:
        if isinstance(f.node, ast.Lambda) or len(f.params()) != 1:
            continue
        txt = " ; ".join(norm(s) for s in f.body()).replace(" ", "")
        p = f.params()[0]
        if f"isinstance({p},int)" in txt and "2**53" in txt and f"float({p})" in txt:
            out.add(f.name)
    ctx.__dict__["_number_normalisers"] = out
    return out


def rule_int_results_normalised(ctx, rep, rid: str) -> None:
    """The engine keeps whole Numbers as Python ints.  An int has unlimited precision, a double 53 bits: every
    place where host integer arithmetic or int(text) can produce a whole number beyond 2**53 has to round it to a
    double, or results depend on the representation (2**53 + 1 != 2**53, (2**53 + 1) % 2 == 1)."""
    rep.rule(rid, "host integer results that become script Numbers (+, -, ++, -- of ints; numeric literals; ToNumber of digit strings) pass through the normaliser that rounds an int beyond 2**53 to a double, or are computed in floats: a Number never depends on being held as an int or a float", floor=6)
    norms = _normalisers(ctx)
    if not norms:
        rep.bad(rid, "normaliser", "no function rounds an out-of-range int to a double (isinstance(x, int) ... 2**53 ... float(x)): whole numbers beyond 2**53 keep digits a double does not have", ctx.tree.mod("values").rel + ":1")
    else:
        rep.ok(rid, "normaliser", {"functions": sorted(norms)})

    def wrapped(e: ast.AST) -> bool:
        return isinstance(e, ast.Call) and isinstance(e.func, ast.Name) and e.func.id in norms

    def floaty(e: ast.AST, f) -> bool:
        """e is computed in floats: a float() call, a float literal, math.*, division, or a local bound to one."""
        if isinstance(e, ast.Call) and norm(e.func) in ("float", "math.fmod", "js_pow") :
            return True
        if isinstance(e, ast.Call) and norm(e.func).startswith("math."):
            return True
        if isinstance(e, ast.Constant) and isinstance(e.value, float):
            return True
        if isinstance(e, ast.BinOp) and isinstance(e.op, ast.Div):
            return True
        if isinstance(e, ast.BinOp):
            return floaty(e.left, f) or floaty(e.right, f)
        if isinstance(e, ast.UnaryOp):
            return floaty(e.operand, f)
        if isinstance(e, ast.Name):
            defs = [n.value for n in f.own_nodes() if isinstance(n, ast.Assign) and any(isinstance(t, ast.Name) and t.id == e.id for t in n.targets)]
            return bool(defs) and all(floaty(d, f) for d in defs)
        return False

    def int_arith(e: ast.AST) -> bool:
        """host +, -, * directly on ToNumber results / numeric locals (may be ints of any size)"""
        return isinstance(e, ast.BinOp) and isinstance(e.op, (ast.Add, ast.Sub, ast.Mult)) and any(isinstance(x, ast.Call) and norm(x.func).endswith("to_number") for x in ast.walk(e))

    df, chain = ctx.facts.vm_dispatcher()
    n = 0
    for names, body, ifnode in chain.branches:
        if not any(x in ("ADD", "SUB", "MUL", "INC", "DEC") for x in names):
            continue
        popped = {a.targets[0].id for s_ in body for a in ast.walk(s_) if isinstance(a, ast.Assign) and len(a.targets) == 1 and isinstance(a.targets[0], ast.Name) and norm(a.value) == "self.stack.pop()"}
        for s_ in body:
            for c in ast.walk(s_):
                if isinstance(c, ast.Call) and norm(c.func) == "self.stack.append" and c.args:
                    v = c.args[0]
                    n += 1
                    key = f"{df.qual}:{'/'.join(names)}:push({short(v, 30)})"
                    raw = isinstance(v, ast.BinOp) and isinstance(v.op, (ast.Add, ast.Sub, ast.Mult)) and any(isinstance(x, ast.Name) and x.id in popped for x in (v.left, v.right))
                    if raw and not floaty(v, df):
                        # host arithmetic directly on an operand taken off the stack (a fast path for ints): the
                        # operand is a Number, the result of int + int is an int of any size
                        rep.bad(rid, key, f"the {'/'.join(names)} handler pushes `{short(v, 30)}`, host arithmetic on the operand as it came off the stack, without the normaliser: for the int 9007199254740992 the result is 9007199254740993, a whole number no double has (x++ at 2**53 then differs from x + 1)", f"{df.module.rel}:{c.lineno}")
                        continue
                    if wrapped(v) or floaty(v, df):
                        rep.ok(rid, key)
                    elif isinstance(v, ast.Call) and isinstance(v.func, ast.Attribute) and norm(v.func.value) == "self":
                        h = ctx.tree.find_method(df.cls, v.func.attr)
                        rets = [r.value for r in (h.own_nodes() if h else []) if isinstance(r, ast.Return) and r.value is not None]
                        badr = [r for r in rets if int_arith(r) and not wrapped(r)]
                        if h is not None and not badr:
                            rep.ok(rid, key, {"via": h.name})
                        else:
                            rep.bad(rid, key, f"{h.qual if h else norm(v.func)} returns the host result `{short(badr[0], 40) if badr else '?'}` as a Number: for int operands it is an int of unlimited precision (9007199254740992 + 1 == 9007199254740993)", f"{df.module.rel}:{badr[0].lineno if badr else c.lineno}")
                    elif int_arith(v):
                        rep.bad(rid, key, f"the {'/'.join(names)} handler pushes the host result `{short(v, 40)}`: for int operands it is an int of unlimited precision, so whole numbers beyond 2**53 differ from the doubles they should be", f"{df.module.rel}:{c.lineno}")
                    else:
                        rep.ok(rid, key, {"note": "not host integer arithmetic"})
    # negating an int that may be zero loses the sign of zero (-0 is a float)
    for names, body, ifnode in chain.branches:
        if not any(x in ("MOD", "NEG", "MUL", "DIV") for x in names):
            continue
        for s_ in body:
            for u in ast.walk(s_):
                if isinstance(u, ast.UnaryOp) and isinstance(u.op, ast.USub) and isinstance(u.operand, ast.Name):
                    v = u.operand.id
                    defs = [d.value for d in df.own_nodes() if isinstance(d, ast.Assign) and any(isinstance(t, ast.Name) and t.id == v for t in d.targets) and ifnode.lineno <= d.lineno <= (ifnode.end_lineno or d.lineno)]
                    if not any(isinstance(d, ast.BinOp) and isinstance(d.op, ast.Mod) for d in defs):
                        continue
                    n += 1
                    key = f"{df.qual}:{'/'.join(names)}:-{v}"
                    p_ = getattr(u, "_parent", None)
                    zero_tested = (isinstance(p_, ast.IfExp) and norm(p_.test) in (v, f"{v} != 0", f"{v} > 0")) or any(pol and norm(t) in (v, f"{v} != 0", f"{v} > 0") for t, pol in guards_of(u, df.node))
                    if zero_tested:
                        rep.ok(rid, key)
                    else:
                        rep.bad(rid, key, f"the {'/'.join(names)} handler negates the integer remainder `{v}` without treating zero separately: -0 of an int is 0, so -5 % 5 is +0 and 1 / (-5 % 5) is Infinity instead of -Infinity", f"{df.module.rel}:{u.lineno}")
    # int(text) that becomes a Number: numeric literals (lexer), ToNumber, the helpers they hand the text to, and the
    # integer hook of the host JSON parser
    text_funcs = []
    for f in ctx.tree.funcs:
        if isinstance(f.node, ast.Lambda):
            continue
        if (f.module.name == "lexer" and "number" in f.name.lower()) or (f.module.name == "values" and f.name == "to_number"):
            text_funcs.append(f)
    hooks = set()
    for f in ctx.tree.funcs:
        if isinstance(f.node, ast.Lambda):
            continue
        for c in f.own_nodes():
            if isinstance(c, ast.Call) and norm(c.func) == "json.loads":
                n += 1
                key = f"{f.qual}:json.loads:integer-tokens"
                hk = [kw.value for kw in c.keywords if kw.arg == "parse_int"]
                if not hk:
                    rep.bad(rid, key, f"{f.qual} lets json.loads build host ints from integer tokens: JSON.parse('9007199254740993') is then an int with more digits than a double (=== 9007199254740992 is false, % 2 is 1)", f"{f.module.rel}:{c.lineno}")
                else:
                    rep.ok(rid, key, {"parse_int": norm(hk[0])})
                    if isinstance(hk[0], ast.Name):
                        hooks.add(hk[0].id)
    for _ in range(3):
        for f in list(text_funcs):
            for c in f.own_nodes():
                if isinstance(c, ast.Call) and isinstance(c.func, ast.Name) and (c.func.id not in norms):
                    g = ctx.tree.resolve_function_name(f.module, c.func.id)
                    if g is not None and g not in text_funcs and not isinstance(g.node, ast.Lambda) and g.module.name in ("values", "lexer", "context"):
                        text_funcs.append(g)
    for f in ctx.tree.funcs:
        if not isinstance(f.node, ast.Lambda) and f.name in hooks and f not in text_funcs and f.module.name in ("values", "context"):
            text_funcs.append(f)

    for f in text_funcs:
        for r in f.own_nodes():
            if isinstance(r, ast.Return) and r.value is not None:
                if not _returns_int_of_text(r, f):
                    continue
                n += 1
                key = f"{f.qual}:return {short(r.value, 30)}"
                if wrapped(r.value):
                    rep.ok(rid, key)
                elif _int_return_bounded(r, f):
                    rep.ok(rid, key, {"bounded": "the int() result is returned only under a comparison with a constant up to 2**53"})
                else:
                    rep.bad(rid, key, f"{f.qual} returns {short(r.value, 40)}: int() of a long digit string keeps every digit, so 9007199254740993 and 9007199254740992 are different Numbers", f"{f.module.rel}:{r.lineno}")
        if f.module.name == "values" and f.name == "to_number":
            # an int handed in (literal, embedder value) is normalised too
            for r in f.own_nodes():
                if isinstance(r, ast.Return) and isinstance(r.value, ast.Name) and any(pol and "isinstance" in norm(t) and "int" in norm(t) for t, pol in guards_of(r, f.node)):
                    n += 1
                    rep.bad(rid, f"{f.qual}:return {r.value.id}", f"to_number returns an int operand as it is: an embedder value or constant beyond 2**53 enters arithmetic with more digits than a double", f"{f.module.rel}:{r.lineno}")
    rep.analysed["int_result_sites"] = n


def _returns_int_of_text(r: ast.Return, f) -> bool:
    """The returned value contains int(..), or a local that was assigned from an expression containing int(..)."""
    def has_int(e):
        return any(isinstance(x, ast.Call) and isinstance(x.func, ast.Name) and x.func.id == "int" for x in ast.walk(e))

    if has_int(r.value):
        return True
    names = {x.id for x in ast.walk(r.value) if isinstance(x, ast.Name)}
    return any(isinstance(a, ast.Assign) and has_int(a.value) and any(isinstance(t, ast.Name) and t.id in names for t in a.targets) for a in f.own_nodes())


def _int_return_bounded(r: ast.Return, f) -> bool:
    """The int() in the returned value is reached only under a comparison with a constant up to 2**53."""
    from .implicit import _const_number
    from ..util import known_conditions

    tests = [t for t, pol in known_conditions(r, f.node) if pol]
    for x in ast.walk(r.value):
        if isinstance(x, ast.IfExp) and any(isinstance(c, ast.Call) and norm(c.func) == "int" for c in ast.walk(x.body)):
            tests.append(x.test)
    for t in tests:
        for c in ast.walk(t):
            if isinstance(c, ast.Compare) and len(c.ops) == 1 and isinstance(c.ops[0], (ast.Lt, ast.LtE)):
                k = _const_number(c.comparators[0])
                if k is not None and k <= 2**53:
                    return True
    return False



def rule_json_integer_tokens(ctx, rep, rid: str) -> None:
    """JSON.parse builds Numbers: an integer token is a double like every other number.  The host parser builds a
    host int of unlimited precision from it unless it is given a hook, and the hook has to round."""
    rep.rule(rid, "the host JSON parser is given an integer hook, and what the hook returns is rounded to a double beyond 2**53 (through the engine's normaliser, or an int() result that is returned only under a comparison with a constant up to 2**53): JSON.parse('9007199254740993') is 9007199254740992", floor=1)
    norms = _normalisers(ctx)
    n = 0
    for f in ctx.tree.funcs:
        if isinstance(f.node, ast.Lambda):
            continue
        for c in f.own_nodes():
            if not (isinstance(c, ast.Call) and norm(c.func) == "json.loads"):
                continue
            n += 1
            key = f"{f.qual}:json.loads:integer-tokens"
            hk = [kw.value for kw in c.keywords if kw.arg == "parse_int"]
            if not hk:
                rep.bad(rid, key, f"{f.qual} lets json.loads build host ints from integer tokens: JSON.parse('9007199254740993') is then an int with more digits than a double (=== 9007199254740992 is false, % 2 is 1)", f"{f.module.rel}:{c.lineno}")
                continue
            rep.ok(rid, key, {"parse_int": norm(hk[0])})
            g = None
            if isinstance(hk[0], ast.Name):
                h = f
                while h is not None and g is None:
                    g = h.children.get(hk[0].id)
                    h = h.parent
                if g is None:
                    g = ctx.tree.resolve_function_name(f.module, hk[0].id)
            if g is None or isinstance(g.node, ast.Lambda):
                if isinstance(hk[0], ast.Name) and hk[0].id in ("float",):
                    n += 1
                    rep.ok(rid, f"{f.qual}:parse_int=float")
                    continue
                raise AnalysisError(f"{rid}: the integer hook {norm(hk[0])} of json.loads in {f.qual} is not a function of the repository")
            for r in g.own_nodes():
                if isinstance(r, ast.Return) and r.value is not None and _returns_int_of_text(r, g):
                    n += 1
                    k2 = f"{g.qual}:return {short(r.value, 30)}"
                    wrapped = isinstance(r.value, ast.Call) and isinstance(r.value.func, ast.Name) and r.value.func.id in norms
                    if wrapped or _int_return_bounded(r, g):
                        rep.ok(rid, k2)
                    else:
                        rep.bad(rid, k2, f"{g.qual}, the integer hook of JSON.parse, returns {short(r.value, 40)}: int() keeps every digit of the token, so JSON.parse('9007199254740993') differs from 9007199254740992 and from what the same literal means in source text", f"{g.module.rel}:{r.lineno}")
    if n < 1:
        raise AnalysisError(f"{rid}: JSON.parse's use of the host parser not recognised ({n} sites)")


# ---- host rounding, min and max at the special points ----------------------------------------------------
def rule_host_rounding_special_points(ctx, rep, rid: str) -> None:
    """math.floor/ceil/trunc, int() and round() return host ints, which have no negative zero; the host's
    min()/max() return their first argument when NaN is involved and do not order -0 below +0; floor(x + 0.5)
    rounds 0.49999999999999994 to 1 because the addition itself rounds."""
    rep.rule(rid, "a Math native that rounds a script number to a whole number restores the sign of a zero result, rounds half-way cases on the exact fraction (not after adding 0.5), and the min/max natives handle NaN and the two zeros themselves instead of delegating to the host's min()/max()", floor=5)
    n = 0
    for f in ctx.tree.funcs:
        if isinstance(f.node, ast.Lambda) or f.module.name != "context" or f.parent is None or "math" not in f.parent.name.lower():
            continue
        nums = {t.id for a in f.own_nodes() if isinstance(a, ast.Assign) and any(isinstance(x, ast.Call) and norm(x.func).endswith("to_number") for x in ast.walk(a.value)) for t in a.targets if isinstance(t, ast.Name)}
        if not nums:
            continue
        txt = " ; ".join(norm(s_) for s_ in f.body())
        for c in f.own_nodes():
            if not isinstance(c, ast.Call):
                continue
            fn = norm(c.func)
            if fn in ("math.floor", "math.ceil", "math.trunc", "int", "round") and c.args and any(isinstance(x, ast.Name) and x.id in nums for x in ast.walk(c.args[0])):
                n += 1
                key = f"{f.qual}:{short(c, 30)}"
                arg = c.args[0]
                if isinstance(arg, ast.BinOp) and isinstance(arg.op, ast.Add) and any(isinstance(k, ast.Constant) and k.value == 0.5 for k in (arg.left, arg.right)):
                    rep.bad(rid, key, f"{f.qual} rounds with {short(c, 30)}: the addition is itself rounded, so 0.49999999999999994 becomes 1 and odd whole numbers above 2**52 move to their even neighbour", f"{f.module.rel}:{c.lineno}")
                    continue
                v = next(x.id for x in ast.walk(arg) if isinstance(x, ast.Name) and x.id in nums)
                zero_kept = "-0.0" in txt or "copysign" in txt
                zero_returned_early = any(isinstance(i, ast.If) and f"{v} == 0" in norm(i.test) and i.body and isinstance(i.body[-1], ast.Return) and i.lineno < c.lineno for i in f.own_nodes())
                needs_neg_zero = fn != "math.floor"  # floor(x) is 0 only for x in [0, 1) and for -0 itself
                if (zero_kept or not needs_neg_zero) and (zero_returned_early or zero_kept):
                    rep.ok(rid, key)
                elif zero_returned_early and not needs_neg_zero:
                    rep.ok(rid, key)
                else:
                    rep.bad(rid, key, f"{f.qual} returns the host int {short(c, 30)}: a zero result has lost its sign (Math.{f.name.replace('_fn', '')} of a number in (-1, 0], and of -0 itself, is -0 in ECMAScript; 1/result tells them apart)", f"{f.module.rel}:{c.lineno}")
            if fn in ("min", "max") and c.args and not c.keywords:
                a0 = c.args[0]
                from_script = any(isinstance(x, ast.Name) and x.id in nums for x in ast.walk(a0))
                if from_script:
                    n += 1
                    key = f"{f.qual}:{short(c, 30)}"
                    rep.bad(rid, key, f"{f.qual} delegates to the host's {fn}(): with NaN among the arguments the host returns whichever comes first (Math.{fn}(1, NaN) is then 1, not NaN) and -0/+0 are not ordered", f"{f.module.rel}:{c.lineno}")
        if f.name in ("min_fn", "max_fn"):
            n += 1
            key = f"{f.qual}:special-points"
            if ("!=" in txt or "isnan" in txt) and "copysign" in txt:
                rep.ok(rid, key)
            else:
                rep.bad(rid, key, f"{f.qual} does not treat NaN and the sign of zero itself", f.loc)
        if f.name == "sign_fn":
            n += 1
            key = f"{f.qual}:zero"
            rets = [r.value for r in f.own_nodes() if isinstance(r, ast.Return) and r.value is not None]
            if any(isinstance(r, ast.Name) and r.id in nums for r in rets) or "-0.0" in txt or "copysign" in txt:
                rep.ok(rid, key)
            else:
                rep.bad(rid, key, f"{f.qual} returns the int 0 for both zeros: Math.sign(-0) is -0", f.loc)
    rep.analysed["math_rounding_sites"] = n


# ---- logarithms at their pole ---------------------------------------------------------------------------
_LOG_POLES = {"math.log": "0", "math.log2": "0", "math.log10": "0", "math.log1p": "-1"}


def _is_neg_inf(e: ast.AST) -> bool:
    t = norm(e).replace(" ", "").replace("'", '"')
    return t in ('float("-inf")', 'float("-infinity")', "-math.inf", '-float("inf")')


def rule_log_poles(ctx, rep, rid: str) -> None:
    """The host's math.log/log2/log10/log1p raise ValueError at the pole (0; -1 for log1p) and for everything
    below it.  ECMAScript distinguishes the two: -Infinity AT the pole, NaN below.  A native that guards the host
    call therefore needs a result -Infinity under an equality test against the pole."""
    rep.rule(rid, "every native that hands a script number to the host's math.log/log2/log10/log1p yields -Infinity under a test that the argument equals the function's pole (0, or -1 for log1p), separately from the NaN it yields below the pole", floor=3)
    n = 0
    for f in ctx.tree.funcs:
        if isinstance(f.node, ast.Lambda) or f.module.name not in ("context", "vm", "values"):
            continue
        # the natives whose RESULT is the host logarithm (`return math.log2(x)`, also as an arm of a conditional
        # expression); an internal use for a digit count is a different obligation (implicit raisers)
        returned = set()
        for r in f.own_nodes():
            if isinstance(r, ast.Return) and r.value is not None:
                arms = [r.value]
                while arms:
                    a = arms.pop()
                    if isinstance(a, ast.IfExp):
                        arms += [a.body, a.orelse]
                    else:
                        returned.add(id(a))
        calls = [c for c in f.own_nodes() if isinstance(c, ast.Call) and id(c) in returned and norm(c.func) in _LOG_POLES and c.args and isinstance(c.args[0], ast.Name)]
        params = set(f.params())
        for c in calls:
            v = c.args[0].id
            if v in params and not any(isinstance(a, ast.Assign) and any(norm(t) == v for t in a.targets) for a in f.own_nodes()):
                continue  # a host-level helper working on an already validated number
            pole = _LOG_POLES[norm(c.func)]
            n += 1
            key = f"{f.qual}:{norm(c.func)}:pole"
            ok = False
            from ..util import atoms, known_conditions

            for r in f.own_nodes():
                cands = []
                if isinstance(r, ast.Return) and r.value is not None:
                    if _is_neg_inf(r.value):
                        cands.append((r, []))
                    for x in ast.walk(r.value):
                        if isinstance(x, ast.IfExp):
                            if _is_neg_inf(x.body):
                                cands.append((r, [(x.test, True)]))
                            if _is_neg_inf(x.orelse):
                                cands.append((r, [(x.test, False)]))
                for node, extra in cands:
                    ats = [(norm(a).replace(" ", ""), p) for t, pol in list(known_conditions(node, f.node)) + extra for a, p in atoms(t, pol)]
                    if any((a in (f"{v}=={pole}", f"{pole}=={v}", f"{v}=={pole}.0") and p) or (a in (f"{v}!={pole}", f"{pole}!={v}") and not p) for a, p in ats):
                        ok = True
            if ok:
                rep.ok(rid, key, {"pole": pole})
            else:
                rep.bad(rid, key, f"{f.qual} guards the host's {norm(c.func)}({v}) but has no result -Infinity under `{v} == {pole}`: at the pole ECMAScript specifies -Infinity (NaN only below it), and the host function itself raises ValueError there", f"{f.module.rel}:{c.lineno}")
    # the host logarithm handed to a wrapper factory as a value: `log_fn = unary(math.log)`
    from ..util import atoms, bind_args, known_conditions

    for f in ctx.tree.funcs:
        if isinstance(f.node, ast.Lambda) or f.module.name not in ("context", "vm", "values"):
            continue
        for c in f.own_nodes():
            if not (isinstance(c, ast.Call) and isinstance(c.func, ast.Name) and any(isinstance(a, ast.Attribute) and norm(a) in _LOG_POLES for a in c.args)):
                continue
            hostfn = next(a for a in c.args if isinstance(a, ast.Attribute) and norm(a) in _LOG_POLES)
            pole = _LOG_POLES[norm(hostfn)]
            n += 1
            key = f"{f.qual}:{norm(c)[:40]}:pole"
            h = None
            g = f
            while g is not None and h is None:
                h = g.children.get(c.func.id)
                g = g.parent
            if h is None or isinstance(h.node, ast.Lambda):
                rep.bad(rid, key, f"{f.qual} hands the host's {norm(hostfn)} to `{c.func.id}`, which is not a local wrapper this rule can read: at the pole the host function raises ValueError", f"{f.module.rel}:{c.lineno}")
                continue
            bound = bind_args(c, h)
            fparam = next((p_ for p_, a in bound.items() if a is hostfn), None)
            ok = False
            for inner in [h] + list(h.children.values()):
                if isinstance(inner.node, ast.Lambda):
                    continue
                calls = [x for x in inner.own_nodes() if isinstance(x, ast.Call) and isinstance(x.func, ast.Name) and x.func.id == fparam and x.args and isinstance(x.args[0], ast.Name)]
                for hc in calls:
                    v = hc.args[0].id
                    for r in inner.own_nodes():
                        if isinstance(r, ast.Return) and r.value is not None and _is_neg_inf(r.value):
                            ats = [(a, p_) for t, pol in known_conditions(r, inner.node) for a, p_ in atoms(t, pol)]
                            for a, p_ in ats:
                                if not (p_ and isinstance(a, ast.Compare) and len(a.ops) == 1 and isinstance(a.ops[0], ast.Eq)):
                                    continue
                                sides = [a.left, a.comparators[0]]
                                if not any(norm(x) == v for x in sides):
                                    continue
                                other = next(x for x in sides if norm(x) != v)
                                # the other side: the pole itself, or a parameter of the factory bound to it
                                val = other
                                if isinstance(other, ast.Name) and other.id in bound and bound[other.id] is not None:
                                    val = bound[other.id]
                                if norm(val).replace(" ", "") in (pole, pole + ".0"):
                                    ok = True
            if ok:
                rep.ok(rid, key, {"pole": pole, "through": h.qual})
            else:
                rep.bad(rid, key, f"{f.qual} builds a Math native from the host's {norm(hostfn)} through {h.qual}, which has no result -Infinity under a test that the argument equals {pole}: the host raises ValueError at the pole exactly as it does below it, so Math.{norm(hostfn).split('.')[-1]}({pole}) comes out NaN (ECMAScript: -Infinity)", f"{f.module.rel}:{c.lineno}")
    if n < 3:
        raise AnalysisError(f"{rid}: only {n} natives over the host logarithms found")


# ---- host truthiness of a value whose legitimate values can be falsy -------------------------------------
_RECEIVER_PARAMS = ("this_val", "this_arg", "this_value", "this", "receiver", "thisArg")


def _truth_tests(f: Func, name: str) -> List[ast.AST]:
    """Places where `name` is tested by host truthiness: `not name`, `if name`, `name or x`, `name and x`,
    `x if name else y`."""
    out = []
    for n in f.own_nodes():
        if isinstance(n, ast.UnaryOp) and isinstance(n.op, ast.Not) and isinstance(n.operand, ast.Name) and n.operand.id == name:
            out.append(n)
        elif isinstance(n, ast.BoolOp) and any(isinstance(v, ast.Name) and v.id == name for v in n.values[:-1]):
            out.append(n)
        elif isinstance(n, (ast.If, ast.While, ast.IfExp)) and isinstance(n.test, ast.Name) and n.test.id == name:
            out.append(n)
    return out


def rule_receiver_not_truth_tested(ctx, rep, rid: str) -> None:
    """0, "", false and null are receivers like any other (the engine is strict: f.call(0) sees this === 0).  A
    `this` parameter that uses None for "no receiver" has to be tested with `is None`: `this_val or UNDEFINED`
    replaces every falsy receiver."""
    rep.rule(rid, "in the interpreter's call protocol, a parameter that carries the receiver (`this`) of a call is never tested by host truthiness (`this_val or UNDEFINED`, `if not this_val`) in a function that some call site hands a receiver to: the missing receiver is None and is tested with `is None`; 0, '', false and null are receivers", floor=3)
    n = 0
    for f in ctx.tree.funcs:
        if isinstance(f.node, ast.Lambda) or f.module.name not in ("vm", "context", "values"):
            continue
        for pname in [p for p in f.params() if p in _RECEIVER_PARAMS]:
            n += 1
            key = f"{f.qual}:{pname}"
            tests = _truth_tests(f, pname)
            if not tests:
                rep.ok(rid, key)
                continue
            # harmless where every call site passes the constant None for it
            idx = [p for p in f.params() if p != "self"].index(pname)
            sites = [cs for cs in ctx.cg.sites if any(t is f for t in cs.targets)]
            real = False
            for cs in sites:
                a = cs.call.args[idx] if idx < len(cs.call.args) else None
                for kw in cs.call.keywords:
                    if kw.arg == pname:
                        a = kw.value
                if a is not None and not (isinstance(a, ast.Constant) and a.value is None):
                    real = True
            if not real and sites:
                rep.ok(rid, key, {"note": "every call site passes None: the truth test only sees the sentinel"})
                continue
            t0 = tests[0]
            rep.bad(rid, key, f"{f.qual} tests its receiver parameter `{pname}` by host truthiness (`{short(t0, 40)}`, line {t0.lineno}): 0, '', false and null are falsy for the host, so f.call(0) runs with this === undefined; the missing receiver is None and wants `is None`", f"{f.module.rel}:{t0.lineno}")
    if n < 3:
        raise AnalysisError(f"{rid}: only {n} receiver parameters found in the call protocol")


def rule_key_not_truth_tested(ctx, rep, rid: str, only=None) -> None:
    """A loop variable that is None for "no key" (array elements) and a property name otherwise must be tested with
    `is None`: the empty string is a property name."""
    rep.rule(rid, "a loop variable that holds either None (no key) or a property name is never tested by host truthiness: '' is a property name, and `if not k` writes the member {'': 1} like an array element", floor=0)
    n = 0
    for f in ctx.tree.funcs:
        if isinstance(f.node, ast.Lambda) or f.module.name not in ("vm", "context", "values"):
            continue
        if only is not None and not only(f.qual):
            continue
        for loop in f.own_nodes():
            if not (isinstance(loop, ast.For) and isinstance(loop.target, ast.Tuple) and isinstance(loop.iter, ast.Name)):
                continue
            srcs = [a.value for a in f.own_nodes() if isinstance(a, ast.Assign) and any(isinstance(t, ast.Name) and t.id == loop.iter.id for t in a.targets)]
            for pos, el in enumerate(loop.target.elts):
                if not isinstance(el, ast.Name):
                    continue
                none_here = any(isinstance(x, ast.Tuple) and pos < len(x.elts) and isinstance(x.elts[pos], ast.Constant) and x.elts[pos].value is None for v in srcs for x in ast.walk(v))
                keys_here = any("_properties" in norm(v) or ".items()" in norm(v) or ".keys()" in norm(v) for v in srcs)
                if not (none_here and keys_here):
                    continue
                n += 1
                key = f"{f.qual}:{el.id}"
                tests = [t for t in _truth_tests(f, el.id)]
                if tests:
                    rep.bad(rid, key, f"{f.qual} tests `{el.id}` (None for an array element, the property name otherwise) by host truthiness (`{short(tests[0], 30)}`, line {tests[0].lineno}): the empty string is a property name, so the member {{'': 1}} is treated as if it had no key", f"{f.module.rel}:{tests[0].lineno}")
                else:
                    rep.ok(rid, key)
    rep.ok(rid, "none-or-key-variables", {"examined": n})


# ---- NaN answers "no" to every ordered comparison ---------------------------------------------------------------
def rule_nan_takes_no_arm(ctx, rep, rid: str) -> None:
    """`x > 0` and `x < 0` are both false for NaN, so a two-way decision made with one of them sends NaN down the
    `else` arm.  Where the arms of such a decision yield different constants (an infinity of either sign, a zero,
    +-1), NaN must have been dealt with before: the arithmetic of NaN is NaN."""
    rep.rule(rid, "in the arithmetic handlers and the numeric helpers, a decision between constant results that is made by an ordered comparison of a converted operand is reached only when NaN has been excluded for that operand (x != x / isnan tested before, or an enclosing condition that NaN fails): otherwise NaN silently takes the else arm (NaN / 0 became an infinity)", floor=2)
    from .implicit import _CTX, _excluded, _env_cache, NUM, RAW, UNK

    _CTX[:] = [ctx]
    df, chain = ctx.facts.vm_dispatcher()
    scopes: List[Tuple[Func, List[ast.stmt], str]] = []
    for names, body, ifnode in chain.branches:
        if any(x in ("ADD", "SUB", "MUL", "DIV", "MOD", "POW", "NEG", "INC", "DEC", "EXP") for x in names):
            scopes.append((df, body, "/".join(names)))
    for f in ctx.tree.funcs:
        if isinstance(f.node, ast.Lambda):
            continue
        if (f.module.name == "values" and f.name in ("js_pow", "js_number", "to_integer")) or (f.module.name == "context" and f.parent is not None and "math" in f.parent.name.lower()):
            scopes.append((f, f.body(), f.name))
    n = 0
    for f, body, label in scopes:
        env = _env_cache(ctx, f)
        for st in body:
            for d in ast.walk(st):
                if not isinstance(d, (ast.If, ast.IfExp)):
                    continue
                cmps = [c for c in ast.walk(d.test) if isinstance(c, ast.Compare) and len(c.ops) == 1 and isinstance(c.ops[0], (ast.Lt, ast.LtE, ast.Gt, ast.GtE)) and isinstance(c.left, ast.Name) and isinstance(c.comparators[0], ast.Constant) and isinstance(c.comparators[0].value, (int, float))]
                if not cmps:
                    continue
                # do the arms yield different constants?
                def consts(arm) -> Set[str]:
                    out: Set[str] = set()
                    nodes = arm if isinstance(arm, list) else [arm]
                    for a in nodes:
                        for x in ast.walk(a):
                            v = None
                            if isinstance(x, ast.Return) and x.value is not None:
                                v = x.value
                            elif isinstance(x, ast.Call) and norm(x.func) == "self.stack.append" and x.args:
                                v = x.args[0]
                            elif not isinstance(arm, list) and x is a:
                                v = x
                            if v is not None and (isinstance(v, ast.Constant) or (isinstance(v, ast.Call) and norm(v.func) == "float" and v.args and isinstance(v.args[0], ast.Constant)) or (isinstance(v, ast.UnaryOp) and isinstance(v.operand, (ast.Constant, ast.Attribute))) or (isinstance(v, ast.Attribute) and norm(v) in ("math.inf", "math.nan"))):
                                out.add(norm(v))
                    return out

                ca, cb = consts(d.body), consts(d.orelse)
                if not ca or not cb or ca == cb:
                    continue
                if all("nan" in x.lower() for x in ca | cb):
                    continue
                for c in cmps:
                    k = env.kind(c.left)
                    if k not in (NUM, RAW):
                        continue
                    n += 1
                    key = f"{f.qual}:{label}:{short(c, 30)}@{d.lineno}"
                    ex = _excluded(c, c.left, f)
                    if "nan" in ex:
                        rep.ok(rid, key)
                    else:
                        rep.bad(rid, key, f"{f.qual} ({label}) decides between {sorted(ca)} and {sorted(cb)} with `{short(c, 30)}` while `{c.left.id}` may still be NaN (no x != x / isnan test reaches this point false): NaN answers no and takes the else arm, so the result is a constant where it has to be NaN", f"{f.module.rel}:{d.lineno}")
    rep.analysed["nan_decisions"] = n
    if n < 2:
        raise AnalysisError(f"{rid}: only {n} sign decisions on converted operands found")


# ---- int() of a float zero forgets its sign ---------------------------------------------------------------------
def rule_zero_sign_survives_int(ctx, rep, rid: str) -> None:
    """The engine holds whole Numbers as host ints, which have no negative zero.  A numeric helper that turns a float
    result into an int (to keep it exact and printable) has to leave a zero result alone: (-0) ** 3, (-1e-200) ** 3
    and '-0' are -0, and 1/x tells."""
    rep.rule(rid, "a numeric helper of the value layer that returns int(v) for a float v does so only where a zero v was dealt with before (a test of v == 0 / v != 0 / copysign on the way, or an earlier exit for zero): the sign of a zero result is not lost in the int representation", floor=1)
    from ..util import known_conditions

    n = 0
    for f in ctx.tree.funcs:
        if isinstance(f.node, ast.Lambda) or f.module.name != "values" or f.is_method:
            continue
        rt = norm(f.node.returns) if getattr(f.node, "returns", None) is not None else ""
        if "float" not in rt or "int" not in rt:
            continue
        floats = {t.id for a in f.own_nodes() if isinstance(a, ast.Assign) and isinstance(a.value, ast.Call) and (norm(a.value.func) == "float" or norm(a.value.func).startswith("math.")) for t in a.targets if isinstance(t, ast.Name)}
        for r in f.own_nodes():
            if not (isinstance(r, ast.Return) and r.value is not None):
                continue
            ints = [c for c in ast.walk(r.value) if isinstance(c, ast.Call) and isinstance(c.func, ast.Name) and c.func.id == "int" and len(c.args) == 1 and isinstance(c.args[0], ast.Name) and c.args[0].id in floats]
            for c in ints:
                v = c.args[0].id
                n += 1
                key = f"{f.qual}:return int({v})@{r.lineno}"
                conds = list(known_conditions(r, f.node))
                p_ = getattr(c, "_parent", None)
                while p_ is not None and p_ is not r:
                    if isinstance(p_, ast.IfExp):
                        conds.append((p_.test, True))
                    p_ = getattr(p_, "_parent", None)
                zero_seen = any((f"{v} == 0" in norm(t) or f"{v} != 0" in norm(t) or ("copysign" in norm(t) and v in norm(t)) or f"abs({v}) >= 1" in norm(t)) for t, pol in conds)
                if zero_seen:
                    rep.ok(rid, key)
                else:
                    rep.bad(rid, key, f"{f.qual} returns int({v}) for the float `{v}` without having looked at a zero: -0.0 becomes the int 0, so the sign of a zero result is lost ((-0) ** 3 and (-1e-200) ** 3 are -0 in ECMAScript; 1/x gives -Infinity)", f"{f.module.rel}:{r.lineno}")
    rep.analysed["int_of_float_returns"] = n
    if n < 1:
        raise AnalysisError(f"{rid}: no int(float) return found in the value layer")


# ---- the remainder of the host's fmod has the sign of the dividend ----------------------------------------


def rule_fmod_parity(ctx, rep, rid: str, modules=("values", "vm", "context")) -> None:
    """math.fmod(x, 2) is -1.0 for a negative odd x (C's fmod keeps the sign of the dividend; Python's % on numbers
    follows the divisor).  A test `math.fmod(x, k) == r` with r > 0, or `> 0`, therefore says no to every negative
    x: Math.pow(-0, -3) picks the sign of its infinity by exactly such a parity test."""
    rep.rule(rid, "a remainder taken with math.fmod / math.remainder is compared with a positive constant (== r, > 0) only when the dividend is known to be non-negative (abs(..), or a test x >= 0 on the path); otherwise the comparison uses the magnitude or `!= 0`", floor=1)
    from ..util import atoms, known_conditions

    n = 0
    for f in ctx.tree.funcs:
        if isinstance(f.node, ast.Lambda) or f.module.name not in modules:
            continue
        locals_ = {a.targets[0].id: a.value for a in f.own_nodes() if isinstance(a, ast.Assign) and len(a.targets) == 1 and isinstance(a.targets[0], ast.Name)}
        for c in f.own_nodes():
            if not isinstance(c, ast.Compare) or len(c.ops) != 1:
                continue
            left, right = c.left, c.comparators[0]
            if isinstance(left, ast.Name) and left.id in locals_:
                left = locals_[left.id]
            if not (isinstance(left, ast.Call) and norm(left.func) in ("math.fmod", "math.remainder") and len(left.args) == 2):
                continue
            if not (isinstance(right, ast.Constant) and isinstance(right.value, (int, float))):
                continue
            positive = (isinstance(c.ops[0], ast.Eq) and right.value > 0) or (isinstance(c.ops[0], (ast.Gt, ast.GtE)) and right.value >= 0 and not (isinstance(c.ops[0], ast.GtE) and right.value == 0))
            if not positive:
                continue
            n += 1
            x = left.args[0]
            key = f"{f.qual}:{short(c, 40)}"
            nonneg = isinstance(x, ast.Call) and norm(x.func) == "abs"
            if not nonneg and isinstance(x, ast.Name):
                xs = x.id
                nonneg = any(norm(a).replace(" ", "") in (f"{xs}>=0", f"{xs}>0", f"0<={xs}", f"0<{xs}") and pol or norm(a).replace(" ", "") in (f"{xs}<0", f"{xs}<=0") and not pol for t, p in known_conditions(c, f.node) for a, pol in atoms(t, p))
                v = locals_.get(xs)
                nonneg = nonneg or (isinstance(v, ast.Call) and norm(v.func) == "abs")
            if nonneg:
                rep.ok(rid, key)
            else:
                rep.bad(rid, key, f"{f.qual} tests `{short(c, 50)}`: {norm(left.func)} keeps the sign of the dividend, so for a negative `{norm(x)}` the remainder is negative and the test fails for every negative odd value (Math.pow(-0, -3) and (-0) ** -5 must be -Infinity: the exponent -3 IS odd)", f"{f.module.rel}:{c.lineno}")
    if n == 0:
        rep.ok(rid, "no-signed-remainder-test", {"note": "no comparison of an fmod/remainder result with a positive constant in " + ", ".join(modules)})


# ---- arithmetic handlers convert operands the same way, left operand first --------------------------------


def rule_arithmetic_conversion_agrees(ctx, rep, rid: str) -> None:
    """Every arithmetic operator applies ToNumeric to its operands: for an object that is ToPrimitive - valueOf, then
    toString - whose result (or exception) is part of the operator's behaviour.  The interpreter has an object-aware
    conversion (a method) and the plain one of the values module (for which an object is NaN); a handler that uses the
    plain one on a popped operand never calls valueOf.  And the left operand is converted before the right one."""
    rep.rule(rid, "the handlers of SUB, MUL, DIV, MOD, POW, NEG and POS convert the operands they pop with the interpreter's object-aware conversion (never the values module's plain to_number), the left operand before the right", floor=5)
    df, chain = ctx.facts.vm_dispatcher()
    n = 0
    for opn in ("SUB", "MUL", "DIV", "MOD", "POW", "NEG", "POS"):
        body = chain.body_of(opn)
        if body is None:
            continue
        n += 1
        key = f"{df.qual}:{opn}:operand-conversion"
        popped = [a.targets[0].id for s_ in body for a in ast.walk(s_) if isinstance(a, ast.Assign) and len(a.targets) == 1 and isinstance(a.targets[0], ast.Name) and norm(a.value) == "self.stack.pop()"]
        plain = [c for s_ in body for c in ast.walk(s_) if isinstance(c, ast.Call) and isinstance(c.func, ast.Name) and c.func.id == "to_number" and c.args and isinstance(c.args[0], ast.Name) and c.args[0].id in popped]
        aware = [c for s_ in body for c in ast.walk(s_) if isinstance(c, ast.Call) and isinstance(c.func, ast.Attribute) and norm(c.func.value) == "self" and "to_num" in c.func.attr and c.args and isinstance(c.args[0], ast.Name) and c.args[0].id in popped]
        loc = f"{df.module.rel}:{body[0].lineno}"
        if plain:
            rep.bad(rid, key, f"the handler of {opn} converts `{plain[0].args[0].id}` with the plain `to_number`, for which every object is NaN: valueOf/toString of an object operand are never called (`[5] - 0` is NaN although `[5] * 1` is 5, and `-{{valueOf(){{ throw 7 }}}}` throws nothing)", f"{df.module.rel}:{plain[0].lineno}")
            continue
        if len(popped) == 2 and len(aware) >= 2:
            # popped right operand first, then left: the left one (second popped) must be converted first
            right, left = popped[0], popped[1]
            order = sorted(aware, key=lambda c: (c.lineno, c.col_offset))
            if order[0].args[0].id != left:
                rep.bad(rid, key, f"the handler of {opn} converts the right operand `{right}` before the left operand `{left}`: the valueOf of the two operands run in the wrong order", f"{df.module.rel}:{order[0].lineno}")
                continue
        rep.ok(rid, key, {"conversions": len(aware)})
    if n < 5:
        raise AnalysisError(f"{rid}: arithmetic handlers not found ({n})")
