"""Operator-semantics necessary conditions (C06-R6, C06-R7)."""

from __future__ import annotations

import ast
from typing import Dict, List, Optional

from ..core import AnalysisError, norm, short, walk_no_nested
from ..util import guards_of


def rule_unordered_comparisons(ctx, rep, rid: str) -> None:
    rep.rule(rid, "the value the comparison helper returns for NaN operands makes all four relational handlers push false", floor=4)
    df, chain = ctx.facts.vm_dispatcher()
    cmpf = ctx.tree.find_method(df.cls, "_compare")
    if cmpf is None:
        raise AnalysisError("_compare not found")
    nan_vals = []
    for n in cmpf.own_nodes():
        if isinstance(n, ast.Return) and n.value is not None:
            g = guards_of(n, cmpf.node)
            if any("isnan" in norm(t) for t, pol in g if pol):
                nan_vals.append(n.value)
    if not nan_vals:
        raise AnalysisError("_compare has no NaN path")
    for opn in ("LT", "LE", "GT", "GE"):
        body = chain.body_of(opn)
        if body is None:
            raise AnalysisError(f"no handler for {opn}")
        pred = None
        for s in body:
            for n in walk_no_nested(s):
                if isinstance(n, ast.Compare) and isinstance(n.left, ast.Call) and norm(n.left.func) == "self._compare":
                    pred = n
        key = f"{df.qual}:{opn}:NaN"
        if pred is None:
            rep.ok(rid, key, {"note": "handler does not use _compare"})
            continue
        bad = None
        for v in nan_vals:
            if not isinstance(v, ast.Constant):
                rep.ok(rid, key, {"nan_result": norm(v)})
                continue
            k = pred.comparators[0]
            if not isinstance(k, ast.Constant):
                continue
            a, b = v.value, k.value
            op = pred.ops[0]
            try:
                res = {ast.Lt: a < b, ast.LtE: a <= b, ast.Gt: a > b, ast.GtE: a >= b, ast.Eq: a == b, ast.NotEq: a != b}[type(op)]
            except Exception:
                continue
            if res:
                bad = (a, norm(pred))
        if bad:
            rep.bad(rid, key, f"_compare returns {bad[0]!r} when an operand is NaN and the {opn} handler tests `{bad[1]}`, which is true for that value: a comparison with NaN yields true", f"{df.module.rel}:{body[0].lineno}")
        else:
            rep.ok(rid, key, {"predicate": norm(pred)})


def rule_host_operator_pitfalls(ctx, rep, rid: str) -> None:
    rep.rule(rid, "host operators whose semantics differ from ECMAScript's (Python % is floored, ** yields complex/exact ints/ZeroDivisionError) are not applied raw to script numbers in the arithmetic handlers", floor=2)
    df, chain = ctx.facts.vm_dispatcher()
    for opn, pyop, why in (
        ("MOD", ast.Mod, "Python % takes the sign of the divisor (floored); ECMAScript % takes the sign of the dividend (-5 % 3 must be -2)"),
        ("POW", ast.Pow, "Python ** returns complex for negative bases with fractional exponents, raises ZeroDivisionError for 0 ** -1 and computes exact big integers"),
    ):
        body = chain.body_of(opn)
        if body is None:
            raise AnalysisError(f"no handler for {opn}")
        hit = None
        for s in body:
            for n in walk_no_nested(s):
                if isinstance(n, ast.BinOp) and isinstance(n.op, pyop):
                    both_abs = all(isinstance(x, ast.Call) and norm(x.func) == "abs" for x in (n.left, n.right))
                    if pyop is ast.Mod and both_abs:
                        continue  # floored and truncated remainder coincide on non-negative operands
                    hit = n
        key = f"{df.qual}:{opn}:raw-host-operator"
        if hit is not None:
            rep.bad(rid, key, f"the {opn} handler applies the host operator directly ({short(hit, 40)}): {why}", f"{df.module.rel}:{hit.lineno}")
        else:
            rep.ok(rid, key)
